#!/venv/bin/python
"""
Failing inputs for the genuine defects F1-F6 (see DESIGN.md section 3 and known_findings.json).
Run against a tree: VERIF_REPO=/path /venv/bin/python findings/demo_defects.py
Prints one line per defect: PRESENT (the defect reproduces) or ABSENT (repaired).
"""
import os
import sys
import warnings

sys.dont_write_bytecode = True
sys.path.insert(0, os.environ.get("VERIF_REPO", "/repo"))
warnings.simplefilter("ignore")
import numpy as np  # noqa: E402
import verde as vd  # noqa: E402


def f1():
    rng = np.random.default_rng(0)
    e, n = rng.uniform(0, 1000, 150), rng.uniform(0, 1000, 150)
    d = np.sin(e / 200) * np.cos(n / 300) * 50
    misfit = np.max(np.abs(vd.Spline().fit((e, n), d).predict((e, n)) - d)) / np.max(np.abs(d))
    return misfit > 1e-6, "undamped Spline on 150 random points: relative misfit at the data = %.3g" % misfit


def f2():
    e, n = np.meshgrid(np.arange(5), np.arange(4))
    d = (3 * e - 2 * n + 1).astype("int64")
    try:
        pred = vd.Trend(1).fit((e.astype(float) + 0.5, n.astype(float) + 0.25), d).predict((e + 0.5, n + 0.25))
        bad = np.max(np.abs(pred - d)) > 1e-9
        msg = "Trend(1) on integer data with float coordinates: max error %.3g" % np.max(np.abs(pred - d))
        vd.Spline(damping=1e-3).fit((e.astype(float), n.astype(float)), d.astype(float)).predict((e, n))
    except Exception as exc:  # noqa: BLE001
        return True, "integer dtype raised %s" % type(exc).__name__
    return bad, msg


def f3():
    var = np.array([0.5, np.nan, 2.0])
    keep = var.copy()
    vd.variance_to_weights(var)
    mutated = not np.array_equal(var, keep, equal_nan=True)
    ro = np.array([0.5, np.nan, 2.0])
    ro.setflags(write=False)
    try:
        vd.variance_to_weights(ro)
        raised = False
    except ValueError:
        raised = True
    return mutated or raised, "variance_to_weights: caller's NaN overwritten=%s, read-only input rejected=%s" % (mutated, raised)


def f4():
    east = np.concatenate([np.linspace(0.1, 0.9, 50), [1.5, 1.6, 2.5, 2.6, 3.5, 3.6]])
    north = np.full_like(east, 0.5)
    east = np.concatenate([east, [0.0, 4.0]])
    north = np.concatenate([north, [0.0, 1.0]])
    X = np.column_stack([east, north])
    sizes = [test.size for _, test in vd.BlockKFold(shape=(1, 4), n_splits=2).split(X)]
    return min(sizes) == 0, "BlockKFold(shape=(1,4), n_splits=2) on block populations [51,2,2,3]: test fold sizes %s" % sizes


def f5():
    rng = np.random.default_rng(1)
    e, n = rng.uniform(0, 10, 40), rng.uniform(0, 10, 40)
    try:
        vd.Trend(1).fit((e, n), e + n).score((e, n), e + n)
    except AttributeError as exc:
        return True, "score raises AttributeError: %s" % str(exc)[:80]
    return False, "score returns"


def f6():
    out = []
    for reg in ([10, 360, -5, 5], [-170, 180, -5, 5]):
        w, e = vd.longitude_continuity(None, reg)[:2]
        out.append((reg[:2], [float(w), float(e)]))
    bad = any(w > e for _, (w, e) in out)
    return bad, "longitude_continuity: %s" % out


if __name__ == "__main__":
    for name, fn in [("F1", f1), ("F2", f2), ("F3", f3), ("F4", f4), ("F5", f5), ("F6", f6)]:
        try:
            present, msg = fn()
        except Exception as exc:  # noqa: BLE001
            present, msg = True, "raised %r" % (exc,)
        print("%s %s: %s" % (name, "PRESENT" if present else "ABSENT ", msg))
