#!/venv/bin/python
"""
Run the registered checks against the independently written property-breaking changes kept in seeded/<id>/.

Each seeded/<id>/ holds patch.diff (a change to fatiando/verde that compiles and passes the pinned tests), the
demonstration (demo.py: exits non-zero with the change, zero without) and meta.json (property, what it needs to manifest,
what was run). For every entry this tool makes a scratch copy of the tree (outside /repo and /verif, removed afterwards),
applies the patch, optionally re-validates it (--validate: pinned tests pass, demo fails with / passes without), runs the
property's check (quick, then thorough if quick stays silent and --thorough is given) with VERIF_REPO pointing at the copy,
and records the outcome in seeded/RESULTS.json.

usage: tools/seeded.py [--only ID] [--validate] [--thorough] [--jobs 4]
"""
import argparse
import concurrent.futures as cf
import json
import os
import shutil
import subprocess
import sys
import tempfile

VERIF = os.path.dirname(os.path.dirname(os.path.abspath(__file__)))
sys.path.insert(0, os.path.join(VERIF, "tools"))
import mutate  # noqa: E402

PY = "/venv/bin/python"


def run_demo(sid, root):
    demo = os.path.join(VERIF, "seeded", sid, "demo.py")
    if not os.path.exists(demo):
        return None
    env = dict(os.environ, PYTHONDONTWRITEBYTECODE="1", VERIF_REPO=root, PYTHONPATH=root, OMP_NUM_THREADS="1")
    proc = subprocess.run([PY, demo], cwd=root, env=env, capture_output=True, text=True, timeout=1800)
    return proc.returncode


def trial(sid, args):
    base = os.path.join(VERIF, "seeded", sid)
    with open(os.path.join(base, "meta.json")) as fobj:
        meta = json.load(fobj)
    out = {"id": sid, "property": meta["property"]}
    root = mutate.make_scratch()
    try:
        if args.validate:
            out["demo_without_patch_rc"] = run_demo(sid, root)
        proc = subprocess.run(["patch", "-p1", "-i", os.path.join(base, "patch.diff")], cwd=root, capture_output=True, text=True)
        if proc.returncode != 0:
            out["error"] = "patch does not apply: " + (proc.stdout + proc.stderr)[-400:]
            return out
        if args.validate:
            ok, tail = mutate.run_tests(root)
            out["pinned_tests_pass"] = ok
            out["pinned_tests_tail"] = tail
            out["demo_with_patch_rc"] = run_demo(sid, root)
        props = [meta["property"]] + list(meta.get("also_check", []))
        out["checks"] = {}
        for prop in props:
            rc, first, tail = mutate.run_check(root, prop, "quick", args.seed)
            out["checks"][prop + ":quick"] = {"rc": rc, "first": first}
            if rc != 1 and args.thorough:
                rc, first, tail = mutate.run_check(root, prop, "thorough", args.seed)
                out["checks"][prop + ":thorough"] = {"rc": rc, "first": first}
        out["detected"] = any(v["rc"] == 1 for v in out["checks"].values())
        return out
    except Exception as exc:  # noqa: BLE001
        out["error"] = repr(exc)
        return out
    finally:
        shutil.rmtree(root, ignore_errors=True)


def main():
    parser = argparse.ArgumentParser()
    parser.add_argument("--only")
    parser.add_argument("--validate", action="store_true")
    parser.add_argument("--thorough", action="store_true")
    parser.add_argument("--seed", type=int, default=0)
    parser.add_argument("--jobs", type=int, default=4)
    args = parser.parse_args()
    ids = sorted(d for d in os.listdir(os.path.join(VERIF, "seeded")) if os.path.exists(os.path.join(VERIF, "seeded", d, "meta.json")))
    if args.only:
        import re
        ids = [i for i in ids if re.search(args.only, i)]
    results_path = os.path.join(VERIF, "seeded", "RESULTS.json")
    results = {}
    if os.path.exists(results_path):
        with open(results_path) as fobj:
            results = json.load(fobj)
    with cf.ThreadPoolExecutor(max_workers=args.jobs) as pool:
        for out in pool.map(lambda s: trial(s, args), ids):
            prev = results.get(out["id"], {})
            prev.update(out)
            results[out["id"]] = prev
            status = "ERROR " + out["error"] if "error" in out else ("DETECTED" if out["detected"] else "MISSED")
            detail = "; ".join("%s rc=%s %s" % (k, v["rc"], v["first"][:120]) for k, v in out.get("checks", {}).items())
            print("%-28s %-5s %-9s %s" % (out["id"], out["property"], status, detail))
            if args.validate:
                print("    validate: demo without=%s with=%s pinned=%s" % (out.get("demo_without_patch_rc"), out.get("demo_with_patch_rc"), out.get("pinned_tests_pass")))
            sys.stdout.flush()
    with open(results_path, "w") as fobj:
        json.dump(results, fobj, indent=1, sort_keys=True)
    return 0


if __name__ == "__main__":
    sys.exit(main())
