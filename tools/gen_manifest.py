#!/venv/bin/python
"""Regenerate MANIFEST.json from the property modules that exist (keeps it valid at all times)."""
import importlib
import json
import os
import sys

VERIF = os.path.dirname(os.path.dirname(os.path.abspath(__file__)))
sys.path.insert(0, VERIF)
sys.dont_write_bytecode = True

PENDING_REASON = "check not built yet in this session (planned in DESIGN.md section 4); not claimed until its monitor exists and is silent on the unchanged tree"


def main():
    from vmon import boot
    boot.ensure_deps()
    boot.import_verde()
    props = [json.loads(line) for line in open(os.path.join(VERIF, "properties.jsonl"))]
    checks, not_applicable = [], []
    for prop in props:
        pid = prop["id"]
        path = os.path.join(VERIF, "vmon", "props", pid.lower() + ".py")
        if not os.path.exists(path) or pid in os.environ.get("PENDING", "").split(","):
            not_applicable.append({"property_id": pid, "reason": PENDING_REASON})
            continue
        mod = importlib.import_module("vmon.props." + pid.lower())
        if getattr(mod, "NOT_CLAIMED", None):
            not_applicable.append({"property_id": pid, "reason": mod.NOT_CLAIMED})
            continue
        checks.append({
            "property_id": pid,
            "quick_cmd": "./vcheck %s --tier quick" % pid,
            "thorough_cmd": "./vcheck %s --tier thorough" % pid,
            "evidence_file": "evidence/%s.json" % pid,
            "replay_cmd_template": "./vcheck %s --replay {path}" % pid,
            "engine": "vmon",
            "level_claimed": {
                "category": getattr(mod, "LEVEL", "exploration"),
                "text": mod.LEVEL_TEXT,
                "design_ref": "DESIGN.md section 4, " + pid,
            },
            "level_note": mod.LEVEL_NOTE,
            "technique": mod.TECHNIQUE,
        })
    manifest = {
        "version": 1,
        "setup_cmd": "/venv/bin/python -c \"import sys; sys.path.insert(0, '.'); from vmon import boot; boot.ensure_deps()\"",
        "hooks": {
            "guard": "VERDE_VERIF",
            "enable": "no source hooks: monitors are attached at run time by the harness (vmon/tap.py wraps verde callables and rebinds aliases when VERDE_VERIF=1 is set by ./vcheck); verde is imported from /repo's working tree",
            "baseline_off_cmd": "cd /repo && /venv/bin/python -m pytest -ra -q -p no:cacheprovider --timeout=900 --continue-on-collection-errors",
            "source_commits": [],
            "add_only": True,
        },
        "engines": [{
            "name": "vmon",
            "path": "vmon/",
            "serves_properties": [c["property_id"] for c in checks],
            "kind_free_text": "runtime monitoring: contract/postcondition monitors and reference-model oracles attached to the real verde callables (wrappers rebound in every verde module, class-level method wraps, sys.monitoring bypass audit), offline checkers over recorded call trees, seeded hostile workloads and exhaustive lattices; three-valued verdicts",
        }],
        "checks": checks,
        "notes": "All checks go through ./vcheck <ID> --tier quick|thorough (VERIF_SEED / VERIF_TIER honoured). Exit 0 held, 1 violated (VIOLATION line + replay file), 2 inconclusive (a deciding monitor was not reached often enough or the bypass audit failed). Known findings: known_findings.json.",
        "not_applicable": not_applicable,
    }
    with open(os.path.join(VERIF, "MANIFEST.json"), "w") as fobj:
        json.dump(manifest, fobj, indent=1)
    print("MANIFEST.json: %d checks, %d not claimed" % (len(checks), len(not_applicable)))


if __name__ == "__main__":
    main()
