#!/venv/bin/python
"""
Kill / equivalence campaign (DESIGN.md 1.6).

Each entry of mutants/catalogue.json is a small text substitution in the verde
sources: ``kind = "break"`` entries violate the named property and must be caught
by its quick check; ``kind = "equivalent"`` entries preserve the semantics and
must leave it silent. Every trial works on a scratch copy of the tree outside
/repo and /verif (removed afterwards) and points the check at it with VERIF_REPO.

usage: tools/mutate.py [--prop C07] [--only NAME] [--tests] [--tier quick] [--jobs 8]
       tools/mutate.py --patch FILE --prop C07 [--tests]     (a unified diff instead of a catalogue entry)
"""
import argparse
import concurrent.futures as cf
import json
import os
import shutil
import subprocess
import sys
import tempfile

VERIF = os.path.dirname(os.path.dirname(os.path.abspath(__file__)))
REPO = os.environ.get("VERIF_REPO", "/repo")
PY = "/venv/bin/python"


def stable_tests():
    with open("/root/.vp/BASELINE.json") as fobj:
        base = json.load(fobj)
    out = []
    for name in base["stable_pass"]:
        mod, test = name.split("::", 1)
        out.append(mod.replace(".", "/") + ".py::" + test)
    return out


def make_scratch():
    root = tempfile.mkdtemp(prefix="vmut-", dir="/tmp")
    shutil.copytree(os.path.join(REPO, "verde"), os.path.join(root, "verde"),
                    ignore=shutil.ignore_patterns("__pycache__", "*.pyc"))
    return root


def apply_entry(root, entry):
    path = os.path.join(root, entry["file"])
    with open(path) as fobj:
        src = fobj.read()
    count = src.count(entry["find"])
    if count != entry.get("count", 1):
        raise RuntimeError("%s: pattern occurs %d times in %s (expected %d)" % (entry["id"], count, entry["file"], entry.get("count", 1)))
    with open(path, "w") as fobj:
        fobj.write(src.replace(entry["find"], entry["replace"]))


def run_tests(root):
    cmd = [PY, "-m", "pytest", "-q", "-p", "no:cacheprovider", "--timeout=900", "-x", "-n", "4"] + stable_tests()
    env = dict(os.environ, PYTHONDONTWRITEBYTECODE="1", OMP_NUM_THREADS="1", OPENBLAS_NUM_THREADS="1", MKL_NUM_THREADS="1")
    env.pop("VERDE_VERIF", None)
    proc = subprocess.run(cmd, cwd=root, env=env, capture_output=True, text=True)
    tail = (proc.stdout or "").strip().splitlines()[-1:] or [""]
    return proc.returncode == 0, tail[0]


def run_check(root, prop, tier, seed):
    env = dict(os.environ, VERIF_REPO=root, PYTHONDONTWRITEBYTECODE="1", VERIF_NO_EVIDENCE="1", VERIF_REPLAY_DIR=os.path.join(root, "replays"))
    cmd = [os.path.join(VERIF, "vcheck"), prop, "--tier", tier, "--seed", str(seed)]
    proc = subprocess.run(cmd, cwd=VERIF, env=env, capture_output=True, text=True, timeout=3600)
    first = [ln for ln in proc.stdout.splitlines() if ln.startswith(("VIOLATION", "INCONCLUSIVE", "  monitor"))][:2]
    return proc.returncode, " | ".join(first)[:300], proc.stdout[-1500:] + proc.stderr[-1500:]


def trial(entry, args):
    root = make_scratch()
    try:
        if "patch" in entry:
            proc = subprocess.run(["patch", "-p1", "-i", os.path.join(VERIF, entry["patch"])], cwd=root, capture_output=True, text=True)
            if proc.returncode != 0:
                return entry, None, None, "patch failed: " + proc.stdout + proc.stderr
        else:
            apply_entry(root, entry)
        tests = run_tests(root) if args.tests else (None, "not run")
        rc, first, tail = run_check(root, entry["property"], args.tier, args.seed)
        return entry, tests, rc, first if rc in (0, 1) else tail
    except Exception as exc:  # noqa: BLE001
        return entry, None, None, "trial error: %r" % (exc,)
    finally:
        shutil.rmtree(root, ignore_errors=True)


def main():
    parser = argparse.ArgumentParser()
    parser.add_argument("--prop")
    parser.add_argument("--only")
    parser.add_argument("--patch")
    parser.add_argument("--tests", action="store_true")
    parser.add_argument("--tier", default="quick")
    parser.add_argument("--seed", type=int, default=0)
    parser.add_argument("--jobs", type=int, default=8)
    args = parser.parse_args()
    if args.patch:
        entries = [{"id": os.path.basename(args.patch), "property": args.prop, "patch": os.path.abspath(args.patch), "kind": "break"}]
    else:
        entries = []
        for name in sorted(os.listdir(os.path.join(VERIF, "mutants"))):
            if name.endswith(".json"):
                with open(os.path.join(VERIF, "mutants", name)) as fobj:
                    entries.extend(json.load(fobj)["mutants"])
        if args.prop:
            entries = [e for e in entries if e["property"] == args.prop.upper()]
        if args.only:
            entries = [e for e in entries if args.only in e["id"]]
    bad = 0
    with cf.ThreadPoolExecutor(max_workers=args.jobs) as pool:
        for entry, tests, rc, first in pool.map(lambda e: trial(e, args), entries):
            want = 1 if entry.get("kind", "break") == "break" else 0
            ok = rc == want
            if tests and tests[0] is False and entry.get("kind", "break") == "break":
                status = "INVALID(tests fail)"
            else:
                status = ("KILLED" if rc == 1 else "SILENT" if rc == 0 else "RC=%s" % rc)
            bad += 0 if ok else 1
            print("%-8s %-44s %-10s %-7s tests=%s :: %s" % (entry["property"], entry["id"], entry.get("kind", "break"), status,
                                                          "-" if (not tests or tests[0] is None) else ("pass" if tests[0] else "FAIL " + tests[1]), first))
            sys.stdout.flush()
    print("%d trial(s) not as expected" % bad)
    return 1 if bad else 0


if __name__ == "__main__":
    sys.exit(main())
