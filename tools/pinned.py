#!/venv/bin/python
"""Run the repository's test suite (guard off) and compare with the pinned stable_pass list of BASELINE.json."""
import json
import os
import subprocess
import sys
import tempfile
import xml.etree.ElementTree as ET

repo = sys.argv[1] if len(sys.argv) > 1 else "/repo"
base = json.load(open("/root/.vp/BASELINE.json"))
with tempfile.TemporaryDirectory() as tmp:
    xml = os.path.join(tmp, "j.xml")
    env = dict(os.environ, PYTHONDONTWRITEBYTECODE="1", OMP_NUM_THREADS="1", OPENBLAS_NUM_THREADS="1", MKL_NUM_THREADS="1")
    env.pop("VERDE_VERIF", None)
    subprocess.run(["/venv/bin/python", "-m", "pytest", "-q", "-p", "no:cacheprovider", "--timeout=900", "-n", "8",
                    "--continue-on-collection-errors", "--junitxml=" + xml], cwd=repo, env=env, capture_output=True)
    passed = set()
    for case in ET.parse(xml).getroot().iter("testcase"):
        if not any(child.tag in ("failure", "error", "skipped") for child in case):
            passed.add(case.get("classname") + "::" + case.get("name"))
missing = sorted(set(base["stable_pass"]) - passed)
print("passed=%d pinned=%d pinned_now_failing=%d newly_passing=%d" % (len(passed), len(base["stable_pass"]), len(missing), len(passed - set(base["stable_pass"]))))
for name in missing:
    print("  PINNED TEST NOT PASSING:", name)
sys.exit(1 if missing else 0)
