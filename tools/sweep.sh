#!/bin/bash
# Silence campaign: every claimed check, given tier, a range of seeds; prints one line per run and a summary of the non-HELD ones.
# usage: tools/sweep.sh quick 0 9 [C01 C02 ...]
cd "$(dirname "$0")/.."
tier=${1:-quick}; from=${2:-0}; to=${3:-9}; shift 3
props=${*:-$(/venv/bin/python -c "import json; print(' '.join(c['property_id'] for c in json.load(open('MANIFEST.json'))['checks']))")}
export VERIF_NO_EVIDENCE=1
bad=0
for s in $(seq $from $to); do
  for p in $props; do
    out=$(PYTHONHASHSEED=$((s % 2 == 0 ? 0 : s)) ./vcheck $p --tier $tier --seed $s 2>&1); rc=$?
    echo "$p seed=$s rc=$rc $(echo "$out" | tail -1)"
    if [ $rc -ne 0 ]; then bad=$((bad+1)); echo "$out" | grep -E "VIOLATION|INCONCLUSIVE|monitor=" | head -5; fi
  done
done
echo "SWEEP DONE non-held=$bad"
