#!/venv/bin/python
"""
Write the prompts for one round of independently seeded changes (DESIGN.md 7.5).

For every property a fresh sub-agent gets: the text of that property (written to <work>/<id>.txt from properties.jsonl), its
own scratch git worktree of /repo under <work>/<id> (created here when missing), a helper that runs the pinned tests
(<work>/pinned.py, a copy of tools/pinned.py) and a list of what earlier seeded changes for that property did (their
`what_breaks` text from seeded/<id>-*/meta.json, which other seeding agents wrote - nothing of the checks themselves).
Nothing under /verif is visible to the agents. The prompts go to <work>/PROMPT<round>_<id>.txt.

usage: tools/seed_prompts.py ROUND LETTER1 LETTER2 [--work /tmp/seed-wt] [--ideas FILE]
"""
import argparse
import glob
import json
import os
import shutil
import subprocess

VERIF = os.path.dirname(os.path.dirname(os.path.abspath(__file__)))

USED = (
    "memory layout (Fortran / transposed arrays), integer / float32 / mixed dtypes, pandas containers with permuted index, tiny or huge "
    "magnitudes (allclose-style absolute tolerances, squares that under/overflow), exact boundary / tie values and values NEAR a boundary or "
    "tie, sizes at multiples of a block size, LARGE counts above a threshold (1e5 points, 2**17 queries, 2**18 nodes, 1e7 matrix elements: "
    "chunked loops losing the remainder, fast paths), caches keyed on identity or summary statistics, results aliasing internal buffers, "
    "in-place modification of arguments, state kept across calls (refit, re-configuration with set_params, failed call then valid call), "
    "CONCURRENT calls from several threads (module-level scratch arrays, per-call values parked on self, shared fitted helpers), pickle / "
    "deepcopy of fitted objects, duplicate names, xarray construction order, equivalent spellings of an argument (int vs float, numpy bool, "
    "scalar vs sequence, falsy values, positional vs keyword), decreasing or uneven grid axes, leading whitespace, duck-typed steps, clone / "
    "get_params fidelity, 0-d and single-element shapes, NaN / inf in ignored extra coordinates or among used values, masked arrays, nested "
    "lists, reductions other than mean/median/sum/min/max, one-shot iterables, keyword arguments forwarded through **kwargs, the kind of "
    "random_state (None / int / RandomState), numpy's global error mode, duplicate data locations, non-injective projections, late binding "
    "in generators, accuracy lost by reordering arithmetic at large coordinate offsets, label dtype overflow for many blocks, far "
    "extrapolation, broadcast-compatible shapes accepted as equal, pathlib / bytes paths, all-negative values, ARGUMENT ALIASING (column "
    "views of one table in another order, the same object for two arguments, pass-through projections, a fitted model keeping a view of "
    "the caller's data), degenerate geometry (zero-extent regions, all-zero coordinates, zero weights on the border, zero-length "
    "profiles), zero-stride and big-endian arrays, one public call's output fed into another, name collisions, lazy results consumed "
    "after re-configuration, eleven or more coordinate arrays, unstable sorts of ties, DEFAULT arguments changed on one path, extremes of "
    "parameter domains (k = n, balancing = 1, degree 0, Poisson -1, one window / one point per block), broadcastable query shapes, 2-D "
    "queries that are grid-like only on the border, block totals of exactly zero, dask-backed grids, drifting non-meshgrids, repeated "
    "extra-coordinate values, negative zero, scorer objects, shared dask keys, non-seekable file objects, precision narrowed where it only "
    "matters beyond a magnitude (float32 kd-tree / features / jacobian dtype, 12-digit text round trips, int8 / int16 promotion), tolerances "
    "relative to the wrong quantity, options documented as ignored being consulted, read-only arrays, per-component zero weights, 3-D / "
    "4-D query arrays, class-level state shared between instances, invalid bounds at the other end, mismatched ignored extra coordinates"
)

IDEAS = (
    "FIRST list for yourself the separate CLAUSES of the statement (each 'and ...', each item of the quantifier) and tick off which ones "
    "the earlier changes listed below already violate; aim at a clause or quantifier item NOBODY has touched yet, at a code site nobody "
    "has touched yet. Further kinds nobody has used: a helper shared by several public functions changed so that only ONE caller's use "
    "of it breaks; a condition inverted only for an uncommon but documented option value; an error path that now returns a value (or a "
    "value path that now raises) for inputs the quantifier explicitly includes; an intermediate rounded / cast to a narrower type "
    "(float32, int) that matters only beyond a magnitude; a tolerance made relative to the wrong quantity; a comparison of floats for "
    "equality where the statement allows round-off (or a tolerance where it demands exactness); results that are right but returned in "
    "another documented ORDER; an index computed with the wrong axis length that only matters for non-square shapes with a particular "
    "orientation (more rows than columns vs the reverse); a loop that stops one iteration early when a count is even / odd / prime; "
    "state shared between two INSTANCES of the same class (class attribute mutated in place); a mutable default argument; a closure "
    "created in a loop; a `while` / retry loop that gives up silently; metadata (names, attrs, dims order) right for the first output "
    "variable only; sign conventions (south-to-north vs north-to-south, west-to-east) assumed but not checked"
)


def main():
    parser = argparse.ArgumentParser()
    parser.add_argument("round")
    parser.add_argument("first")
    parser.add_argument("second")
    parser.add_argument("--work", default="/tmp/seed-wt")
    args = parser.parse_args()
    work = args.work
    os.makedirs(os.path.join(work, "out"), exist_ok=True)
    shutil.copy(os.path.join(VERIF, "tools", "pinned.py"), os.path.join(work, "pinned.py"))
    with open(os.path.join(VERIF, "properties.jsonl")) as fobj:
        props = [json.loads(line) for line in fobj if line.strip()]
    for prop in props:
        pid = prop["id"]
        tree = os.path.join(work, pid)
        if not os.path.isdir(tree):
            subprocess.run(["git", "-C", "/repo", "worktree", "add", "--detach", tree, "HEAD"], check=True, capture_output=True)
        anchors = prop["anchors"]
        text = "PROPERTY %s - %s\n\nStatement: %s\n\nQuantifier: %s\n\nWhy the existing tests cannot settle it: %s\n\nWhere it lives in the code: files %s; mechanisms: %s\n" % (
            pid, prop["title"], prop["statement"], prop["quantifier"]["text"], prop["why_tests_cant"], ", ".join(anchors["files"]),
            "; ".join("%s (%s)" % (m["name"], m["where"]) for m in anchors["mechanism"]))
        with open(os.path.join(work, pid + ".txt"), "w") as fobj:
            fobj.write(text)
        earlier = []
        for meta_path in sorted(glob.glob(os.path.join(VERIF, "seeded", pid + "-*", "meta.json"))):
            with open(meta_path) as fobj:
                meta = json.load(fobj)
            letter = os.path.basename(os.path.dirname(meta_path)).split("-")[1].upper()
            earlier.append("- (%s) files %s: %s" % (letter, meta.get("files"), str(meta.get("what_breaks", ""))[:330]))
        a, b = args.first.upper(), args.second.upper()
        la, lb = args.first.lower(), args.second.lower()
        prompt = f"""You are a developer producing deliberately subtle regressions that will later be used to evaluate a verification tool. You know nothing about that tool and must not look for it: do NOT read anything under /verif or /root/.vp, and do not modify /repo.

Your working copy is {tree} : a git worktree of the pure-Python library fatiando/verde (numpy/scipy/sklearn/pandas/xarray based gridding library). Use /venv/bin/python. Always run from inside the worktree (or with PYTHONPATH={tree}) so that `import verde` resolves to the worktree; check once with: cd {tree} && /venv/bin/python -c "import verde; print(verde.__file__)". The machine is shared with about twenty colleagues doing the same for other properties: export OMP_NUM_THREADS=1 OPENBLAS_NUM_THREADS=1 and never run more than two processes at a time.

The property you must break is described in {work}/{pid}.txt - read it first, then read the source files it names.

{len(earlier)} such changes were already produced by other developers for this property (listed at the end). Across all properties the triggers used so far were: {USED}. Yours must use DIFFERENT mechanisms, different functions / code sites where possible, and a different KIND of trigger than all of those. Ideas nobody has used yet (pick what fits this property, or invent your own): {IDEAS}.

Task: produce TWO independent changes, {a} and {b} (different mechanisms and preferably different code sites), to the library sources (files under verde/, never the tests), such that each one
 1. still imports and runs;
 2. keeps every currently passing test passing: `/venv/bin/python {work}/pinned.py {tree}` must print `pinned_now_failing=0` (it takes 1-3 minutes);
 3. makes the library violate the property AS STATED (statement + quantifier in the text file) for some inputs / call sequences - not merely some other expectation;
 4. needs something specific to manifest - a particular multi-step sequence of calls, an unusual but legitimate input (shape, dtype, memory layout, scale, boundary value, container type, parameter combination), two cooperating sites that each look fine alone, a fault or exception at a particular point - rather than something ordinary use would expose at once. Think of plausible refactoring slips, 'optimisations', off-by-one / wrong-branch / wrong-axis / stale-state mistakes; keep each change small (at most ~15 changed lines) and realistic.

For each change write three files into {work}/out/{pid}-{la}/ (and {pid}-{lb}/):
 - patch.diff : the output of `git diff` in the worktree (must apply with `patch -p1` at the tree root of an unchanged tree);
 - demo.py : a standalone demonstration (imports only numpy / scipy / pandas / xarray / sklearn / dask / verde, no hard-coded paths) such that `PYTHONPATH=<tree> /venv/bin/python demo.py` exits 0 on the unchanged tree and exits non-zero (failed assert) when the change is applied; it should print what it observed;
 - meta.json : {{"property": "{pid}", "what_breaks": "...", "needs_to_manifest": "...", "files": ["verde/..."], "ran": ["each command you ran to validate and its outcome"]}}.
Verify the demo both ways yourself (unchanged: exit 0; changed: exit != 0) and that the pinned tests pass with the change. IMPORTANT: never use `git stash` (the stash is shared between all worktrees of this repository and other people work in sibling worktrees); to set a change aside use `git diff > {work}/out/{pid}-{la}/patch.diff; git checkout -- .` and `patch -p1 < file` to re-apply. After finishing {a} run `git -C {tree} checkout -- .` before starting {b}, and leave the worktree clean at the end.

Final message: for {a} and {b}, one paragraph each: the change, why existing tests miss it, what is needed to see it.

Changes that already exist for this property (do not repeat their mechanism or trigger):
""" + "\n".join(earlier) + "\n"
        with open(os.path.join(work, "PROMPT%s_%s.txt" % (args.round, pid)), "w") as fobj:
            fobj.write(prompt)
    print("wrote %d prompts to %s" % (len(props), work))


if __name__ == "__main__":
    main()
