#!/venv/bin/python
"""
Write the prompts for one round of independently seeded changes (DESIGN.md 7.5).

For every property a fresh sub-agent gets: the text of that property (written to <work>/<id>.txt from properties.jsonl), its
own scratch git worktree of /repo under <work>/<id> (created here when missing), a helper that runs the pinned tests
(<work>/pinned.py, a copy of tools/pinned.py) and a list of what earlier seeded changes for that property did (their
`what_breaks` text from seeded/<id>-*/meta.json, which other seeding agents wrote - nothing of the checks themselves).
Nothing under /verif is visible to the agents. The prompts go to <work>/PROMPT<round>_<id>.txt.

usage: tools/seed_prompts.py ROUND LETTER1 LETTER2 [--work /tmp/seed-wt] [--ideas FILE]
"""
import argparse
import glob
import json
import os
import shutil
import subprocess

VERIF = os.path.dirname(os.path.dirname(os.path.abspath(__file__)))

USED = (
    "memory layout (Fortran / transposed arrays), integer / float32 / mixed dtypes, pandas containers with permuted index, tiny or huge "
    "magnitudes (allclose-style absolute tolerances), exact boundary / tie values and values NEAR a boundary or tie, sizes at multiples of a "
    "block size, caches keyed on identity or summary statistics, results aliasing internal buffers, in-place modification of arguments, "
    "state kept across calls (refit, re-configuration with set_params, failed call then valid call), duplicate names, xarray construction "
    "order, equivalent spellings of an argument (int vs float, numpy bool, scalar vs sequence, falsy values, positional vs keyword), "
    "decreasing or uneven grid axes, leading whitespace, duck-typed steps, clone / get_params fidelity, 0-d and single-element shapes, "
    "NaN / inf in ignored extra coordinates or among used values, reductions other than mean/median/sum/min/max, one-shot iterables, "
    "keyword arguments forwarded through **kwargs, duplicate data locations, non-injective projections, late binding in generators, "
    "accuracy lost by reordering arithmetic at large coordinate offsets, label dtype overflow for many blocks"
)

IDEAS = (
    "input CONTAINERS nobody has tried: numpy masked arrays, np.memmap, read-only arrays, xarray.DataArray or pandas.DataFrame columns as "
    "coordinates / data, lists of lists, tuples vs lists vs arrays for the coordinate pair itself, objects that only implement __array__; "
    "EMPTY inputs (zero points, zero blocks, zero sizes) versus one element; LARGE counts (1e5..1e6 points or nodes) where a chunked, "
    "vectorised or 'fast path' branch is taken only above a threshold; dependence on GLOBAL state (numpy's global RNG or np.random.seed, "
    "np.seterr / np.errstate, warnings filters set to 'error', the PYTHONHASHSEED-dependent order of a set or dict, the current working "
    "directory, locale); the TYPE of random_state (None / int / RandomState / np.random.Generator); CONCURRENT use (the same estimator or "
    "function called from several threads, dask.delayed graphs computed with the threaded scheduler, module-level scratch buffers); the "
    "KIND of file object or path (pathlib.Path, str, bytes path, StringIO, binary file, file positioned after a read); sub-classes that "
    "override a method or class attribute the base relies on; copy.copy / copy.deepcopy / pickle round trips of fitted objects where the "
    "property speaks of clones; negative zero, subnormal numbers, huge-but-finite values near overflow of an intermediate square; "
    "behaviour that differs between the FIRST and LATER elements / blocks / windows / folds (loop-carried variable, else-branch of a for "
    "loop, early break); behaviour for the LAST element (off-by-one at the end of a chunk); silent dependence on the ORDER in which "
    "keyword options are applied; an exception type that changes (callers catching ValueError no longer do), or an error message path that "
    "itself raises; a default that used to be computed per call and is now computed once at import or definition time"
)


def main():
    parser = argparse.ArgumentParser()
    parser.add_argument("round")
    parser.add_argument("first")
    parser.add_argument("second")
    parser.add_argument("--work", default="/tmp/seed-wt")
    args = parser.parse_args()
    work = args.work
    os.makedirs(os.path.join(work, "out"), exist_ok=True)
    shutil.copy(os.path.join(VERIF, "tools", "pinned.py"), os.path.join(work, "pinned.py"))
    with open(os.path.join(VERIF, "properties.jsonl")) as fobj:
        props = [json.loads(line) for line in fobj if line.strip()]
    for prop in props:
        pid = prop["id"]
        tree = os.path.join(work, pid)
        if not os.path.isdir(tree):
            subprocess.run(["git", "-C", "/repo", "worktree", "add", "--detach", tree, "HEAD"], check=True, capture_output=True)
        anchors = prop["anchors"]
        text = "PROPERTY %s - %s\n\nStatement: %s\n\nQuantifier: %s\n\nWhy the existing tests cannot settle it: %s\n\nWhere it lives in the code: files %s; mechanisms: %s\n" % (
            pid, prop["title"], prop["statement"], prop["quantifier"]["text"], prop["why_tests_cant"], ", ".join(anchors["files"]),
            "; ".join("%s (%s)" % (m["name"], m["where"]) for m in anchors["mechanism"]))
        with open(os.path.join(work, pid + ".txt"), "w") as fobj:
            fobj.write(text)
        earlier = []
        for meta_path in sorted(glob.glob(os.path.join(VERIF, "seeded", pid + "-*", "meta.json"))):
            with open(meta_path) as fobj:
                meta = json.load(fobj)
            letter = os.path.basename(os.path.dirname(meta_path)).split("-")[1].upper()
            earlier.append("- (%s) files %s: %s" % (letter, meta.get("files"), str(meta.get("what_breaks", ""))[:330]))
        a, b = args.first.upper(), args.second.upper()
        la, lb = args.first.lower(), args.second.lower()
        prompt = f"""You are a developer producing deliberately subtle regressions that will later be used to evaluate a verification tool. You know nothing about that tool and must not look for it: do NOT read anything under /verif or /root/.vp, and do not modify /repo.

Your working copy is {tree} : a git worktree of the pure-Python library fatiando/verde (numpy/scipy/sklearn/pandas/xarray based gridding library). Use /venv/bin/python. Always run from inside the worktree (or with PYTHONPATH={tree}) so that `import verde` resolves to the worktree; check once with: cd {tree} && /venv/bin/python -c "import verde; print(verde.__file__)". The machine is shared with about twenty colleagues doing the same for other properties: export OMP_NUM_THREADS=1 OPENBLAS_NUM_THREADS=1 and never run more than two processes at a time.

The property you must break is described in {work}/{pid}.txt - read it first, then read the source files it names.

{len(earlier)} such changes were already produced by other developers for this property (listed at the end). Across all properties the triggers used so far were: {USED}. Yours must use DIFFERENT mechanisms, different functions / code sites where possible, and a different KIND of trigger than all of those. Ideas nobody has used yet (pick what fits this property, or invent your own): {IDEAS}.

Task: produce TWO independent changes, {a} and {b} (different mechanisms and preferably different code sites), to the library sources (files under verde/, never the tests), such that each one
 1. still imports and runs;
 2. keeps every currently passing test passing: `/venv/bin/python {work}/pinned.py {tree}` must print `pinned_now_failing=0` (it takes 1-3 minutes);
 3. makes the library violate the property AS STATED (statement + quantifier in the text file) for some inputs / call sequences - not merely some other expectation;
 4. needs something specific to manifest - a particular multi-step sequence of calls, an unusual but legitimate input (shape, dtype, memory layout, scale, boundary value, container type, parameter combination), two cooperating sites that each look fine alone, a fault or exception at a particular point - rather than something ordinary use would expose at once. Think of plausible refactoring slips, 'optimisations', off-by-one / wrong-branch / wrong-axis / stale-state mistakes; keep each change small (at most ~15 changed lines) and realistic.

For each change write three files into {work}/out/{pid}-{la}/ (and {pid}-{lb}/):
 - patch.diff : the output of `git diff` in the worktree (must apply with `patch -p1` at the tree root of an unchanged tree);
 - demo.py : a standalone demonstration (imports only numpy / scipy / pandas / xarray / sklearn / dask / verde, no hard-coded paths) such that `PYTHONPATH=<tree> /venv/bin/python demo.py` exits 0 on the unchanged tree and exits non-zero (failed assert) when the change is applied; it should print what it observed;
 - meta.json : {{"property": "{pid}", "what_breaks": "...", "needs_to_manifest": "...", "files": ["verde/..."], "ran": ["each command you ran to validate and its outcome"]}}.
Verify the demo both ways yourself (unchanged: exit 0; changed: exit != 0) and that the pinned tests pass with the change. IMPORTANT: never use `git stash` (the stash is shared between all worktrees of this repository and other people work in sibling worktrees); to set a change aside use `git diff > {work}/out/{pid}-{la}/patch.diff; git checkout -- .` and `patch -p1 < file` to re-apply. After finishing {a} run `git -C {tree} checkout -- .` before starting {b}, and leave the worktree clean at the end.

Final message: for {a} and {b}, one paragraph each: the change, why existing tests miss it, what is needed to see it.

Changes that already exist for this property (do not repeat their mechanism or trigger):
""" + "\n".join(earlier) + "\n"
        with open(os.path.join(work, "PROMPT%s_%s.txt" % (args.round, pid)), "w") as fobj:
            fobj.write(prompt)
    print("wrote %d prompts to %s" % (len(props), work))


if __name__ == "__main__":
    main()
