"""
The tap: how the real verde code is observed without editing it.

* ``Tap.function(module, "name", post=...)`` replaces a module-level function by
  a recording wrapper and rebinds **every alias** of the original in every
  loaded ``verde`` module (``from .coordinates import grid_coordinates`` ...).
* ``Tap.method(cls, "name", post=...)`` wraps a method on the class (and on every
  subclass that overrides it when ``subclasses=True``), so objects created
  anywhere (clones, estimators built inside verde) are monitored.
* ``Tap.contract(module, "name", *icontract_decorators)`` installs icontract
  pre/postconditions on the real function through the same rebinding.
* A ``sys.monitoring`` PY_START counter on the *original code objects* audits
  that nothing ran behind the monitors' back (bypass audit).

Monitors receive an :class:`Event` after the real call returned or raised.
Events form a call tree per thread (``parent`` / ``children``).
"""
import functools
import inspect
import sys
import threading
import types

_TOOL_ID = 4  # a free sys.monitoring tool slot (coverage uses 1/3, debuggers 0, profilers 2)


class Event:
    __slots__ = ("name", "args", "result", "exc", "parent", "children", "pre", "thread", "seq", "yielded", "obj")

    def __init__(self, name, args, parent, seq):
        self.name = name
        self.args = args
        self.result = None
        self.exc = None
        self.parent = parent
        self.children = []
        self.pre = None
        self.thread = threading.get_ident()
        self.seq = seq
        self.yielded = None
        self.obj = args.get("self") if isinstance(args, dict) else None

    def descendants(self, name=None):
        out = []
        stack = list(reversed(self.children))
        while stack:
            ev = stack.pop()
            if name is None or ev.name == name or ev.name.endswith("." + name):
                out.append(ev)
            stack.extend(reversed(ev.children))
        return out

    def __repr__(self):
        return "<Event %s seq=%d exc=%r>" % (self.name, self.seq, self.exc)


class Tap:
    def __init__(self, run):
        self.run = run
        self._installed = []  # (kind, holder, attr, original)
        self._calls = {}  # label -> wrapper invocations
        self._codes = {}  # code object -> label
        self._starts = {}  # label -> PY_START count
        self._local = threading.local()
        self._lock = threading.Lock()
        self._seq = 0
        self.roots = []  # top-level events of the current case (when keep_tree)
        self.keep_tree = False
        self._monitoring = False

    # ------------------------------------------------------------------
    def _stack(self):
        st = getattr(self._local, "stack", None)
        if st is None:
            st = self._local.stack = []
        return st

    def in_monitor(self):
        return getattr(self._local, "busy", 0) > 0

    def begin_case(self):
        self.roots = []

    def end_case(self):
        self.roots = []

    # ------------------------------------------------------------------
    def _make_wrapper(self, original, label, pre, post, is_generator, documented=None):
        tap = self
        try:
            sig = inspect.signature(original)
        except (TypeError, ValueError):
            sig = None
        self._calls.setdefault(label, 0)
        self._watch_code(original, label)

        def bind(args, kwargs):
            if sig is None:
                return {"args": args, "kwargs": kwargs}
            try:
                bound = sig.bind(*args, **kwargs)
            except TypeError:
                return {"args": args, "kwargs": kwargs, "_bind_failed": True}
            explicit = set(bound.arguments)
            bound.apply_defaults()
            out = dict(bound.arguments)
            if documented:
                # arguments the caller left out are judged by the DOCUMENTED default, not by whatever the (possibly changed)
                # signature supplies: a monitor that reads the bound value would otherwise follow a changed default silently
                for key, value in documented.items():
                    if key in out and key not in explicit:
                        out[key] = value
                        tap.run.count("defaulted_argument:%s.%s" % (label, key))
            return out

        @functools.wraps(original)
        def wrapper(*args, **kwargs):
            with tap._lock:
                tap._calls[label] += 1
            if tap.in_monitor():
                return original(*args, **kwargs)
            with tap._lock:
                tap._seq += 1
                seq = tap._seq
            stack = tap._stack()
            parent = stack[-1] if stack else None
            event = Event(label, bind(args, kwargs), parent, seq)
            if parent is not None:
                parent.children.append(event)
            elif tap.keep_tree:
                tap.roots.append(event)
            if pre is not None:
                tap._local.busy = getattr(tap._local, "busy", 0) + 1
                try:
                    event.pre = pre(event)
                finally:
                    tap._local.busy -= 1
            stack.append(event)
            try:
                result = original(*args, **kwargs)
            except BaseException as exc:  # noqa: BLE001
                stack.pop()
                event.exc = exc
                tap._post(post, event)
                raise
            if is_generator and inspect.isgenerator(result):
                stack.pop()
                return tap._wrap_generator(result, event, post)
            stack.pop()
            event.result = result
            tap._post(post, event)
            return result

        wrapper.__verif_original__ = original
        wrapper.__verif_label__ = label
        return wrapper

    def _wrap_generator(self, gen, event, post):
        tap = self
        event.yielded = []

        def relay():
            stack = tap._stack()
            try:
                while True:
                    stack.append(event)
                    try:
                        item = next(gen)
                    except StopIteration:
                        break
                    finally:
                        stack.pop()
                    event.yielded.append(item)
                    yield item
            except BaseException as exc:  # noqa: BLE001
                if not isinstance(exc, GeneratorExit):
                    event.exc = exc
                    tap._post(post, event)
                raise
            event.result = event.yielded
            tap._post(post, event)

        return relay()

    def _post(self, post, event):
        if post is None:
            return
        self._local.busy = getattr(self._local, "busy", 0) + 1
        try:
            post(event)
        except Exception as exc:  # noqa: BLE001 - a crashing monitor must be visible, not silent
            import traceback

            self.run.violation(
                "monitor_crash:" + event.name,
                "%s: %s" % (type(exc).__name__, exc),
                {"traceback": traceback.format_exc()[-3000:]},
                key="monitor_crash",
            )
        finally:
            self._local.busy -= 1

    # ------------------------------------------------------------------
    def function(self, module, name, post=None, pre=None, generator=False, documented=None):
        original = getattr(module, name)
        if hasattr(original, "__verif_original__"):
            raise RuntimeError("%s.%s is already tapped" % (module.__name__, name))
        label = name
        wrapper = self._make_wrapper(original, label, pre, post, generator, documented)
        self._rebind(original, wrapper)
        return wrapper

    def contract(self, module, name, *decorators, post=None, pre=None):
        """Install icontract decorators on the real function, then tap + rebind it."""
        original = getattr(module, name)
        decorated = original
        for deco in reversed(decorators):
            decorated = deco(decorated)
        label = name
        # the wrapper calls the contract-checked function; the bypass audit watches the innermost code
        wrapper = self._make_wrapper(decorated, label, pre, post, False)
        self._codes.pop(getattr(decorated, "__code__", None), None)
        self._watch_code(original, label)
        wrapper.__verif_original__ = original
        self._rebind(original, wrapper)
        return wrapper

    def _rebind(self, original, wrapper):
        for modname, mod in list(sys.modules.items()):
            if mod is None or not (modname == "verde" or modname.startswith("verde.")):
                continue
            for attr, value in list(vars(mod).items()):
                if value is original:
                    setattr(mod, attr, wrapper)
                    self._installed.append(("module", mod, attr, original))

    def method(self, cls, name, post=None, pre=None, generator=False, subclasses=True, documented=None):
        targets = [cls]
        if subclasses:
            seen, stack = set(), list(cls.__subclasses__())
            while stack:
                sub = stack.pop()
                if sub in seen:
                    continue
                seen.add(sub)
                stack.extend(sub.__subclasses__())
                if name in vars(sub):
                    targets.append(sub)
        for target in targets:
            if name not in vars(target):
                continue
            raw = vars(target)[name]
            if isinstance(raw, (staticmethod, classmethod, property)):
                continue
            if hasattr(raw, "__verif_original__"):
                continue
            label = "%s.%s" % (target.__name__, name)
            wrapper = self._make_wrapper(raw, label, pre, post, generator, documented)
            setattr(target, name, wrapper)
            self._installed.append(("class", target, name, raw))

    def uninstall(self):
        for kind, holder, attr, original in reversed(self._installed):
            setattr(holder, attr, original)
        self._installed = []
        self._stop_monitoring()

    # ------------------------------------------------------------------
    # bypass audit
    def _watch_code(self, func, label):
        code = getattr(func, "__code__", None)
        if code is None or not hasattr(sys, "monitoring"):
            return
        mon = sys.monitoring
        if not self._monitoring:
            try:
                mon.use_tool_id(_TOOL_ID, "verde-verif-audit")
            except ValueError:
                return
            mon.register_callback(_TOOL_ID, mon.events.PY_START, self._on_start)
            self._monitoring = True
        self._codes[code] = label
        self._starts.setdefault(label, 0)
        mon.set_local_events(_TOOL_ID, code, mon.events.PY_START)

    def _on_start(self, code, offset):  # noqa: U100
        label = self._codes.get(code)
        if label is not None:
            with self._lock:
                self._starts[label] += 1

    def _stop_monitoring(self):
        if self._monitoring:
            mon = sys.monitoring
            for code in self._codes:
                try:
                    mon.set_local_events(_TOOL_ID, code, 0)
                except Exception:  # noqa: BLE001
                    pass
            mon.register_callback(_TOOL_ID, mon.events.PY_START, None)
            mon.free_tool_id(_TOOL_ID)
            self._monitoring = False

    def audit(self):
        out = {}
        for label, starts in self._starts.items():
            out[label] = {"wrapper_calls": self._calls.get(label, 0), "code_starts": starts}
        return out
