"""Runtime monitors for fatiando/verde (properties C01-C20). See /verif/DESIGN.md."""
