"""
Seeded generators of hostile inputs shared by the property workloads.
Everything takes a numpy Generator (from core.case_rng) so a case replays exactly.
"""
import numpy as np


def log_uniform(rng, lo, hi):
    return float(10 ** rng.uniform(np.log10(lo), np.log10(hi)))


def cloud(rng, n, kind=None, scale=None, offset_factor=None, min_sep=1e-3):
    """
    ``n`` pairwise-distinct points (east, north), float64 1-D.

    kind: uniform | jitter (jittered grid) | clusters | aniso (anisotropic box)
    scale: coordinate extent (default log-uniform 1e-2..1e6)
    offset_factor: offset of the cloud in units of its extent (default one of 0, 1, 30, 1e3)
    min_sep: minimum separation between points in units of extent/sqrt(n)
    """
    if kind is None:
        kind = str(rng.choice(["uniform", "jitter", "clusters", "aniso"]))
    if scale is None:
        scale = log_uniform(rng, 1e-2, 1e6)
    if offset_factor is None:
        offset_factor = float(rng.choice([0.0, 1.0, 30.0, 1e3]))
    for _ in range(50):
        if kind == "uniform":
            e, nn = rng.uniform(0, 1, n), rng.uniform(0, 1, n)
        elif kind == "jitter":
            side = int(np.ceil(np.sqrt(n)))
            gx, gy = np.meshgrid(np.arange(side), np.arange(side))
            idx = rng.permutation(side * side)[:n]
            e = (gx.ravel()[idx] + 0.5 + rng.uniform(-0.3, 0.3, n)) / side
            nn = (gy.ravel()[idx] + 0.5 + rng.uniform(-0.3, 0.3, n)) / side
        elif kind == "clusters":
            k = int(rng.integers(1, 5))
            centres = rng.uniform(0.1, 0.9, (k, 2))
            which = rng.integers(0, k, n)
            spread = rng.uniform(0.02, 0.15)
            e = centres[which, 0] + rng.normal(0, spread, n)
            nn = centres[which, 1] + rng.normal(0, spread, n)
        elif kind == "aniso":
            ratio = rng.uniform(0.05, 1.0)
            e, nn = rng.uniform(0, 1, n), rng.uniform(0, ratio, n)
        else:
            raise ValueError(kind)
        if n < 2:
            break
        d2 = (e[:, None] - e[None, :]) ** 2 + (nn[:, None] - nn[None, :]) ** 2
        d2[np.diag_indices(n)] = np.inf
        if np.sqrt(d2.min()) >= min_sep / np.sqrt(n):
            break
    sign = rng.choice([-1.0, 1.0], 2)
    shift = offset_factor * sign * rng.uniform(0.5, 1.0, 2)
    east = (e + shift[0]) * scale
    north = (nn + shift[1]) * scale
    return np.ascontiguousarray(east, dtype="float64"), np.ascontiguousarray(north, dtype="float64")


def smooth_field(rng, east, north, amplitude=None):
    """A non-constant, non-separable smooth function of position plus a little noise."""
    if amplitude is None:
        amplitude = log_uniform(rng, 1e-3, 1e6)
    e0, e1 = east.min(), east.max()
    n0, n1 = north.min(), north.max()
    x = (east - e0) / (e1 - e0 if e1 > e0 else 1.0)
    y = (north - n0) / (n1 - n0 if n1 > n0 else 1.0)
    a, b, c, d = rng.normal(size=4)
    return amplitude * (a * x + b * y + c * x * y + d * np.sin(3 * x + 2 * y) + 0.05 * rng.normal(size=x.shape))


def layouts(arrays, rng, include=("2d", "fortran", "strided", "reversed_view", "readonly", "series")):
    """
    The same element sequences in different containers / memory layouts.

    arrays: tuple of equal-size 1-D float arrays. Yields (name, tuple_of_containers); raveling each
    container in C order (np.ravel / np.asarray(...).ravel()) returns the original sequence.
    """
    import pandas as pd

    size = arrays[0].size
    if "2d" in include:
        for rows in range(2, min(size, 12)):
            if size % rows == 0:
                yield "2d", tuple(a.reshape(rows, size // rows) for a in arrays)
                break
    if "fortran" in include:
        for rows in range(2, min(size, 12)):
            if size % rows == 0:
                yield "fortran", tuple(np.asfortranarray(a.reshape(rows, size // rows)) for a in arrays)
                break
    if "strided" in include:
        out = []
        for a in arrays:
            big = np.empty(size * 3, dtype=a.dtype)
            big[:] = -777.0
            big[1::3] = a
            out.append(big[1::3])
        yield "strided", tuple(out)
    if "reversed_view" in include:
        yield "reversed_view", tuple(np.ascontiguousarray(a[::-1])[::-1] for a in arrays)
    if "readonly" in include:
        out = []
        for a in arrays:
            c = a.copy()
            c.setflags(write=False)
            out.append(c)
        yield "readonly", tuple(out)
    if "series" in include:
        labels = rng.permutation(size) + 1000
        yield "series", tuple(pd.Series(a.copy(), index=labels) for a in arrays)


def is_layout_changed(base, variant):
    """Does the variant really differ in memory layout / container / flags from the base array?"""
    if type(base) is not type(variant):
        return True
    b, v = np.asarray(base), np.asarray(variant)
    return b.shape != v.shape or b.strides != v.strides or b.flags.writeable != v.flags.writeable or b.dtype != v.dtype
