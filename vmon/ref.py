"""
Independent reference models (oracles). Nothing here imports verde.

Written from the property statements and the documented formulas with numpy,
``fractions`` and (for spot checks) ``mpmath`` only.
"""
from fractions import Fraction

import numpy as np

EPS = float(np.finfo("float64").eps)


# --------------------------------------------------------------------------
# C07: regular coordinates
# --------------------------------------------------------------------------
def frac(x):
    """Exact rational value of a float / int / numpy scalar."""
    if isinstance(x, (int, np.integer)):
        return Fraction(int(x))
    return Fraction(float(x))


def interval_ratio(start, stop, spacing):
    """q = (stop - start) / spacing in exact arithmetic."""
    return (frac(stop) - frac(start)) / frac(spacing)


def intervals_ok(n, q):
    """
    Is ``n`` an acceptable number of intervals for the exact ratio ``q``?

    The nearest integer to q, at least one. At an exact .5 tie (and within the
    round-off of the float division the code is entitled to) either neighbour.
    Returns (ok, is_tie).
    """
    if n < 1:
        return False, False
    slack = Fraction(1, 2) + abs(q) * Fraction(3 * EPS)
    dist = abs(Fraction(n) - q)
    tie = abs(dist - Fraction(1, 2)) <= abs(q) * Fraction(3 * EPS)
    if dist <= slack:
        return True, tie
    if n == 1 and q < Fraction(1, 2):
        return True, False
    return False, tie


def line_nodes(start, stop, n_intervals, pixel):
    """Reference nodes for n even intervals on [start, stop] (float64, error <= 2 ulp of magnitude)."""
    start, stop = float(start), float(stop)
    if pixel:
        i = np.arange(n_intervals) + 0.5
    else:
        i = np.arange(n_intervals + 1, dtype="float64")
    if n_intervals == 0:
        return np.array([start])
    t = i / n_intervals
    return start * (1 - t) + stop * t


def line_tolerance(start, stop):
    mag = max(abs(float(start)), abs(float(stop)), np.finfo("float64").tiny)
    return 8 * EPS * mag


def check_line(values, start, stop, size, spacing, adjust, pixel):
    """
    Decide one line_coordinates result. Returns (problem or None, info dict).
    """
    values = np.asarray(values)
    info = {}
    if values.ndim != 1:
        return "result is not 1-D", info
    if spacing is not None:
        n = values.size if pixel else values.size - 1
        q = interval_ratio(start, stop, spacing)
        ok, tie = intervals_ok(n, q)
        info.update(q=float(q), n=int(n), tie=bool(tie))
        if not ok:
            return "number of intervals %d is not the integer nearest to extent/spacing=%.17g (at least one)" % (n, float(q)), info
        if adjust == "region":
            stop_eff = float(frac(start) + n * frac(spacing))
        else:
            stop_eff = float(stop)
    else:
        n = int(size) if pixel else int(size) - 1
        want = int(size)
        info.update(n=int(n))
        if values.size != want:
            return "expected exactly %d nodes, got %d" % (want, values.size), info
        stop_eff = float(stop)
    info["stop_eff"] = stop_eff
    expected = line_nodes(start, stop_eff, n, pixel)
    if expected.size != values.size:
        return "expected %d nodes, got %d" % (expected.size, values.size), info
    tol = line_tolerance(start, stop_eff)
    err = float(np.max(np.abs(values - expected))) if values.size else 0.0
    info["err_over_tol"] = err / tol
    if not err <= tol:
        return "nodes differ from the even subdivision by %.3g (tolerance %.3g)" % (err, tol), info
    if not pixel and values.size >= 1:
        if float(values[0]) != float(start):
            return "first node %r is not the start bound %r" % (float(values[0]), float(start)), info
        if spacing is None or adjust == "spacing":
            if values.size >= 2 and float(values[-1]) != float(stop):
                return "last node %r is not the stop bound %r" % (float(values[-1]), float(stop)), info
    return None, info


# --------------------------------------------------------------------------
# C08: block labels (uses the C07 reference for block edges)
# --------------------------------------------------------------------------
def n_intervals_for(start, stop, size, spacing):
    """Number of blocks/intervals along one axis, the way the statement defines it (ties -> None)."""
    if spacing is None:
        return int(size), False
    q = interval_ratio(start, stop, spacing)
    n = int(np.floor(float(q) + 0.5))
    n = max(n, 1)
    _, tie = intervals_ok(n, q)
    return n, tie


# --------------------------------------------------------------------------
# C01-C04: kernels and least squares
# --------------------------------------------------------------------------
def spline_green(r):
    """g(r) = r^2 (ln r - 1), g(0) = 0 (float64)."""
    r = np.asarray(r, dtype="float64")
    out = np.zeros_like(r)
    pos = r > 0
    rp = r[pos]
    out[pos] = rp * rp * (np.log(rp) - 1.0)
    return out


def spline_green_tol(r):
    r = np.asarray(r, dtype="float64")
    with np.errstate(divide="ignore", invalid="ignore"):
        mag = np.where(r > 0, r * r * (np.abs(np.log(np.where(r > 0, r, 1.0))) + 1.0), 0.0)
    return 16 * EPS * np.maximum(r, mag) + np.finfo("float64").tiny


def spline_jacobian(east, north, force_east, force_north, mindist):
    de = np.asarray(east, dtype="float64").reshape(-1, 1) - np.asarray(force_east, dtype="float64").reshape(1, -1)
    dn = np.asarray(north, dtype="float64").reshape(-1, 1) - np.asarray(force_north, dtype="float64").reshape(1, -1)
    r = np.hypot(de, dn) + float(mindist)
    return spline_green(r), r


def elastic_green(de, dn, mindist, poisson):
    r = np.hypot(de, dn) + float(mindist)
    with np.errstate(divide="ignore", invalid="ignore"):
        lnr = (3.0 - poisson) * np.log(r)
        over = (1.0 + poisson) / (r * r)
        gee = lnr + over * dn * dn
        gnn = lnr + over * de * de
        gne = -over * de * dn
    return gee, gnn, gne, r


def elastic_jacobian(east, north, force_east, force_north, mindist, poisson):
    de = np.asarray(east, dtype="float64").reshape(-1, 1) - np.asarray(force_east, dtype="float64").reshape(1, -1)
    dn = np.asarray(north, dtype="float64").reshape(-1, 1) - np.asarray(force_north, dtype="float64").reshape(1, -1)
    gee, gnn, gne, r = elastic_green(de, dn, mindist, poisson)
    top = np.hstack([gee, gne])
    bottom = np.hstack([gne, gnn])
    return np.vstack([top, bottom]), r


def trend_exponents(degree):
    """Documented order: by total degree, then decreasing power of easting."""
    out = []
    for total in range(degree + 1):
        for j in range(total + 1):
            out.append((total - j, j))
    return out


def trend_jacobian(east, north, degree):
    east = np.asarray(east, dtype="float64").ravel()
    north = np.asarray(north, dtype="float64").ravel()
    cols = [east ** i * north ** j for i, j in trend_exponents(degree)]
    return np.stack(cols, axis=1)


class LeastSquares:
    """
    Reference weighted, damped least squares in unit-variance-column scaling.

    minimise  sum w (J p - d)^2 + damping * |S p|^2   with S = diag(std of columns of J)
    """

    def __init__(self, jac, data, weights=None, damping=None):
        jac = np.asarray(jac, dtype="float64")
        data = np.asarray(data, dtype="float64").ravel()
        self.skip = None
        mean = jac.mean(axis=0)
        var = ((jac - mean) ** 2).mean(axis=0)
        scale = np.sqrt(var)
        colmag = np.max(np.abs(jac), axis=0) if jac.size else np.zeros(jac.shape[1])
        tiny = scale <= 1e-10 * np.maximum(colmag, np.finfo("float64").tiny)
        exact_const = np.all(jac == jac[0:1, :], axis=0) if jac.shape[0] else np.ones(jac.shape[1], bool)
        if np.any(tiny & ~exact_const):
            self.skip = "a column is constant only up to round-off (its scale is not well defined)"
        scale = np.where(exact_const, 1.0, scale)
        self.scale = scale
        js = jac / scale
        if weights is None:
            sw = np.ones(jac.shape[0])
        else:
            sw = np.sqrt(np.asarray(weights, dtype="float64").ravel())
        a = js * sw[:, None]
        b = data * sw
        if damping is not None:
            a = np.vstack([a, np.sqrt(damping) * np.eye(jac.shape[1])])
            b = np.concatenate([b, np.zeros(jac.shape[1])])
        self.a, self.b = a, b
        self.damped = damping is not None
        sv = np.linalg.svd(a, compute_uv=False)
        self.smax = float(sv[0]) if sv.size else 0.0
        smin = float(sv[min(a.shape) - 1]) if sv.size else 0.0
        self.cond = self.smax / smin if smin > 0 else np.inf
        self.underdetermined = a.shape[0] < a.shape[1]
        self._solution = None

    @property
    def kappa_eff(self):
        return self.cond ** 2 if self.damped else self.cond

    def solution_scaled(self):
        if self._solution is None:
            self._solution = np.linalg.lstsq(self.a, self.b, rcond=None)[0]
        return self._solution

    def params(self):
        return self.solution_scaled() / self.scale

    def gradient_norm(self, params):
        """Normalised first-order optimality residual of *params* (unscaled space)."""
        ps = np.asarray(params, dtype="float64") * self.scale
        res = self.a @ ps - self.b
        grad = self.a.T @ res
        denom = self.smax * (self.smax * np.linalg.norm(ps) + np.linalg.norm(self.b))
        if denom == 0:
            return 0.0
        return float(np.linalg.norm(grad) / denom)


# --------------------------------------------------------------------------
# C16: exact convex hull classification
# --------------------------------------------------------------------------
def convex_hull(points):
    """Andrew monotone chain with exact rational orientation. points: iterable of (x, y) floats."""
    pts = sorted(set((frac(x), frac(y)) for x, y in points))
    if len(pts) <= 2:
        return pts

    def cross(o, a, b):
        return (a[0] - o[0]) * (b[1] - o[1]) - (a[1] - o[1]) * (b[0] - o[0])

    lower = []
    for p in pts:
        while len(lower) >= 2 and cross(lower[-2], lower[-1], p) <= 0:
            lower.pop()
        lower.append(p)
    upper = []
    for p in reversed(pts):
        while len(upper) >= 2 and cross(upper[-2], upper[-1], p) <= 0:
            upper.pop()
        upper.append(p)
    return lower[:-1] + upper[:-1]


def hull_signed_distances(hull, qx, qy):
    """
    For a counter-clockwise hull (list of Fraction pairs) return, per query point, the
    minimum over edges of the signed distance to the edge line (positive = inside),
    in float64 (used with a margin; exactness is only needed for the hull itself).
    """
    hx = np.array([float(p[0]) for p in hull])
    hy = np.array([float(p[1]) for p in hull])
    qx = np.asarray(qx, dtype="float64").ravel()
    qy = np.asarray(qy, dtype="float64").ravel()
    best = np.full(qx.shape, np.inf)
    m = len(hull)
    for k in range(m):
        x0, y0 = hx[k], hy[k]
        x1, y1 = hx[(k + 1) % m], hy[(k + 1) % m]
        ex, ey = x1 - x0, y1 - y0
        length = np.hypot(ex, ey)
        if length == 0:
            continue
        dist = (ex * (qy - y0) - ey * (qx - x0)) / length
        best = np.minimum(best, dist)
    return best
