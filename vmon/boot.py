"""
Locate the repository under test, make the offline third-party helpers
(mpmath) importable and import ``verde`` from the repository's
*working tree* (never from a stale copy).
"""
import os
import subprocess
import sys

VERIF = os.path.dirname(os.path.dirname(os.path.abspath(__file__)))
DEPS = os.path.join(VERIF, ".deps")
WHEELS = "/opt/veriftools/wheels"
PACKAGES = ["mpmath"]  # icontract is supported by Tap.contract but no shipped monitor needs it


def repo_root():
    return os.path.abspath(os.environ.get("VERIF_REPO", "/repo"))


def ensure_deps():
    """Install mpmath offline into /verif/.deps when absent."""
    marker = os.path.join(DEPS, ".installed")
    if not os.path.exists(marker):
        os.makedirs(DEPS, exist_ok=True)
        cmd = [
            sys.executable, "-m", "pip", "install", "--quiet", "--no-index",
            "--find-links", WHEELS, "--target", DEPS, "--upgrade",
        ] + PACKAGES
        env = dict(os.environ, PIP_NO_INDEX="1", PIP_DISABLE_PIP_VERSION_CHECK="1")
        proc = subprocess.run(cmd, env=env, capture_output=True, text=True)
        if proc.returncode != 0:
            sys.stderr.write(proc.stdout + proc.stderr)
            raise SystemExit("setup: offline install of %s failed" % PACKAGES)
        with open(marker, "w") as fobj:
            fobj.write("ok\n")
    # After site-packages on purpose: /venv's own typing_extensions etc. win.
    if DEPS not in sys.path:
        sys.path.append(DEPS)


def import_verde():
    """Import verde from the repository working tree and prove it."""
    root = repo_root()
    os.environ.setdefault("VERDE_VERIF", "1")
    if root not in sys.path:
        sys.path.insert(0, root)
    for name in [m for m in sys.modules if m == "verde" or m.startswith("verde.")]:
        del sys.modules[name]
    import verde  # noqa: WPS433

    where = os.path.abspath(verde.__file__)
    if not where.startswith(root + os.sep):
        raise SystemExit(
            "boot: verde imported from %s, not from the tree under test %s" % (where, root)
        )
    return verde
