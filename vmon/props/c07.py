"""
C07 - regular coordinates honour region, spacing, shape and registration.

Monitors sit on ``spacing_to_size``, ``line_coordinates``, ``grid_coordinates``,
``shape_to_spacing`` and ``profile_coordinates`` and judge *every* return, direct
or nested (``BaseGridder.grid``, ``block_split``, ``rolling_window``,
``project_region`` ... all call ``grid_coordinates``).
"""
import collections
import itertools
import warnings
from fractions import Fraction

import numpy as np

from .. import ref

ID = "C07"
LEVEL = "exploration"
RULE = (
    "cases = (start, stop, spacing|size, adjust, registration) tuples: an exhaustive rational lattice "
    "(start in {-2,-1/2,0,1/8,3}, extent 0..5 step 1/8, spacing 1/8..6 1/8 step 1/8; thorough: step 1/16 and sizes 1..12) "
    "plus seeded random lines/grids/profiles (extents 1e-6..1e6, offsets up to 1e9, near-.5 ties, per-direction spacings) "
    "and nested uses through grid()/block_split/rolling_window. Non-trivial = extent/spacing not an integer, or an exact tie, "
    "or spacing > extent, or |offset|/extent > 1e3, or pixel registration; distinct = hash of the arguments."
)
ASSUMPTIONS = [
    "exact rational arithmetic (fractions) on the float arguments decides the interval count",
    "node positions compared in float64 with tolerance 8 eps * max(|start|,|stop|)",
    "spacings are positive and finite (the statement quantifies over positive spacings)",
]
FLOORS = {
    "quick": {"eval:line_coordinates": 20000, "eval:grid_coordinates": 1500, "eval:spacing_to_size": 20000,
              "eval:profile_coordinates": 100, "eval:shape_to_spacing": 100, "distinct_nontrivial": 5000, "class:long_line": 100, "class:long_line_50k": 15, "eval:ownership": 350, "eval:arguments_unmodified": 40000, "class:ndarray_shape_and_region": 50, "class:near_tie_not_at_tie": 100, "class:size_with_adjust_spelled": 800, "class:extra_coords_repeated_values": 60, "class:profile_extreme_magnitude": 40, "class:grid_near_tie": 50},
    "thorough": {"eval:line_coordinates": 200000, "eval:grid_coordinates": 10000, "distinct_nontrivial": 50000},
}
JOBS = {"quick": 1, "thorough": 16}

STARTS = [Fraction(-2), Fraction(-1, 2), Fraction(0), Fraction(1, 8), Fraction(3)]

CASE_TIMEOUT_S = 900
AMBIENT_FILES = ['test_coordinates.py', 'test_base.py', 'test_blockreduce.py', 'test_projections.py', 'test_synthetic.py']


def plan(tier):
    if tier == "quick":
        return collections.OrderedDict(lattice=41, random_line=40, long_line=30, grid=40, nested=12, profile=10, shape_spacing=10, ownership=20)
    return collections.OrderedDict(lattice=81, sizes=12, random_line=800, long_line=600, grid=600, nested=120, profile=100, shape_spacing=100, ownership=300, ambient=5)


# ----------------------------------------------------------------------
# monitors
# ----------------------------------------------------------------------
def install(tap, run):
    import verde
    import verde.coordinates as vc

    def finite(*vals):
        try:
            return all(v is None or np.all(np.isfinite(np.asarray(v, dtype="float64"))) for v in vals)
        except (TypeError, ValueError):
            return False

    def nontrivial(run, start, stop, size, spacing, adjust, pixel, info):
        extent = abs(float(stop) - float(start))
        flag = bool(pixel)
        if spacing is not None:
            q = info.get("q", 0.0)
            flag = flag or q != round(q) or info.get("tie", False) or float(spacing) > extent
        if extent > 0 and abs(float(start)) / extent > 1e3:
            flag = True
        if flag:
            run.mark_nontrivial("line", float(start), float(stop), size, None if spacing is None else float(spacing), adjust, bool(pixel))

    def post_line(ev):
        if ev.exc is not None:
            return
        a = ev.args
        start, stop, size, spacing = a["start"], a["stop"], a["size"], a["spacing"]
        if any(isinstance(v, (np.float32, np.float16)) for v in (start, stop, spacing)):
            run.count("skipped:line_single_precision_arguments")  # numpy then builds the line in single precision
            return
        if not finite(start, stop, spacing) or (spacing is not None and not float(spacing) > 0):
            run.count("skipped:line_nonfinite_or_nonpositive")
            return
        problem, info = ref.check_line(ev.result, start, stop, size, spacing, a["adjust"], a["pixel_register"])
        run.evaluated("line_coordinates")
        if info.get("tie"):
            run.count("either_way:tie")
        if "err_over_tol" in info:
            run.observe_max("line_node_error_over_tolerance", info["err_over_tol"])
        nontrivial(run, start, stop, size, spacing, a["adjust"], a["pixel_register"], info)
        if problem:
            run.violation(
                "line_coordinates", problem,
                {"start": start, "stop": stop, "size": size, "spacing": spacing, "adjust": a["adjust"],
                 "pixel_register": a["pixel_register"], "result": np.asarray(ev.result), "info": info},
                key="line:" + problem.split(" ")[0],
            )

    def post_s2s(ev):
        if ev.exc is not None:
            return
        a = ev.args
        start, stop, spacing, adjust = a["start"], a["stop"], a["spacing"], a["adjust"]
        if not finite(start, stop, spacing) or not float(spacing) > 0:
            return
        size, new_stop = ev.result
        q = ref.interval_ratio(start, stop, spacing)
        ok, tie = ref.intervals_ok(int(size) - 1, q)
        run.evaluated("spacing_to_size")
        problem = None
        if not ok:
            problem = "size %d is not round(extent/spacing)+1 for ratio %.17g" % (size, float(q))
        elif adjust == "spacing" and float(new_stop) != float(stop):
            problem = "adjust='spacing' moved the stop bound"
        elif adjust == "region":
            want = float(ref.frac(start) + (int(size) - 1) * ref.frac(spacing))
            if abs(float(new_stop) - want) > ref.line_tolerance(start, want):
                problem = "adjust='region' stop %r is not start + n*spacing = %r" % (float(new_stop), want)
        if problem:
            run.violation("spacing_to_size", problem,
                          {"start": start, "stop": stop, "spacing": spacing, "adjust": adjust, "result": [size, new_stop]},
                          key="s2s:" + problem.split(" ")[0])

    def post_grid(ev):
        if ev.exc is not None:
            return
        a = ev.args
        region, shape, spacing = a["region"], a["shape"], a["spacing"]
        if not finite(list(region), spacing):
            return
        if any(isinstance(v, (np.float32, np.float16)) for v in list(region) + list(np.atleast_1d(spacing) if spacing is not None else [])):
            run.count("skipped:grid_single_precision_arguments")
            return
        res = ev.result
        problems = []
        n_extra = 0 if a["extra_coords"] is None else np.atleast_1d(a["extra_coords"]).size
        if not isinstance(res, tuple):
            problems.append("result is not a tuple")
        elif len(res) != 2 + n_extra:
            problems.append("expected %d arrays, got %d" % (2 + n_extra, len(res)))
        else:
            if shape is not None:
                size_e, size_n, sp_e, sp_n = shape[1], shape[0], None, None
            else:
                sp = np.atleast_1d(spacing)
                sp_n, sp_e = (sp[0], sp[0]) if sp.size == 1 else (sp[0], sp[1])
                size_e = size_n = None
                if not (float(sp_e) > 0 and float(sp_n) > 0):
                    return
            east, north = np.asarray(res[0]), np.asarray(res[1])
            if a["meshgrid"]:
                if east.ndim != 2 or north.ndim != 2 or east.shape != north.shape:
                    problems.append("meshgrid arrays are not 2-D of equal shape: %s %s" % (east.shape, north.shape))
                else:
                    if not (east == east[0:1, :]).all():
                        problems.append("easting varies along rows (axis 0)")
                    if not (north == north[:, 0:1]).all():
                        problems.append("northing varies along columns (axis 1)")
                    east_vec, north_vec = east[0, :], north[:, 0]
            else:
                east_vec, north_vec = east, north
                if east.ndim != 1 or north.ndim != 1:
                    problems.append("meshgrid=False did not return 1-D vectors")
            if not problems:
                pe, info_e = ref.check_line(east_vec, region[0], region[1], size_e, sp_e, a["adjust"], a["pixel_register"])
                pn, info_n = ref.check_line(north_vec, region[2], region[3], size_n, sp_n, a["adjust"], a["pixel_register"])
                if pe:
                    problems.append("easting: " + pe)
                if pn:
                    problems.append("northing: " + pn)
                if a["meshgrid"] and not problems:
                    if east.shape != (north_vec.size, east_vec.size):
                        problems.append("grid shape %s is not (n_north, n_east)" % (east.shape,))
                if a["adjust"] == "region" and not a["pixel_register"] and not problems:
                    if float(east_vec[0]) != float(region[0]) or float(north_vec[0]) != float(region[2]):
                        problems.append("adjust='region' moved the west/south bound")
                for k in range(n_extra):
                    extra = np.asarray(res[2 + k])
                    value = np.atleast_1d(a["extra_coords"])[k]
                    if extra.shape != east.shape or not (extra == value).all():
                        problems.append("extra coordinate %d is not a constant array of the grid's shape" % k)
                if shape is not None and a["meshgrid"] and not problems and tuple(east.shape) != (int(shape[0]), int(shape[1])):
                    problems.append("shape %s requested, %s returned" % (tuple(shape), east.shape))
                if info_e.get("tie") or info_n.get("tie"):
                    run.count("either_way:grid_tie")
                rect = (shape is not None and shape[0] != shape[1]) or (spacing is not None and east.shape != east.T.shape)
                if rect or a["pixel_register"] or n_extra:
                    run.mark_nontrivial("grid", [float(r) for r in region], shape, spacing, a["adjust"], a["pixel_register"], n_extra, a["meshgrid"])
        run.evaluated("grid_coordinates")
        for problem in problems[:1]:
            run.violation("grid_coordinates", problem,
                          {"region": list(region), "shape": shape, "spacing": spacing, "adjust": a["adjust"],
                           "pixel_register": a["pixel_register"], "extra_coords": a["extra_coords"], "meshgrid": a["meshgrid"],
                           "result": [np.asarray(r) for r in res] if isinstance(res, tuple) else repr(res)},
                          key="grid:" + problem.split(" ")[0])

    def post_shape_to_spacing(ev):
        if ev.exc is not None:
            return
        a = ev.args
        region, shape, pixel = a["region"], a["shape"], a["pixel_register"]
        res = ev.result
        run.evaluated("shape_to_spacing")
        problems = []
        if len(res) != len(shape):
            problems.append("wrong number of spacings")
        else:
            for k, n_points in enumerate(shape):  # shape = (n_north, n_east[, ...]); region = W,E,S,N
                axis = len(shape) - 1 - k
                lo, hi = float(region[2 * axis]), float(region[2 * axis + 1])
                div = n_points if pixel else n_points - 1
                if div == 0:
                    continue
                want = (hi - lo) / div
                if abs(float(res[k]) - want) > 4 * ref.EPS * max(abs(want), abs(hi), abs(lo)):
                    problems.append("spacing[%d]=%r, expected %r" % (k, float(res[k]), want))
        for problem in problems[:1]:
            run.violation("shape_to_spacing", problem, {"region": list(region), "shape": shape, "pixel_register": pixel, "result": list(res)},
                          key="shape_to_spacing")

    def post_profile(ev):
        if ev.exc is not None:
            return
        a = ev.args
        p1, p2, size = a["point1"], a["point2"], a["size"]
        if not finite(list(p1[:2]), list(p2[:2])):
            return
        coords, dist = ev.result
        run.evaluated("profile_coordinates")
        problems = []
        n_extra = 0 if a["extra_coords"] is None else np.atleast_1d(a["extra_coords"]).size
        x1, y1, x2, y2 = (float(v) for v in (p1[0], p1[1], p2[0], p2[1]))
        sep = float(np.hypot(x2 - x1, y2 - y1))
        t = np.arange(size) / (size - 1) if size > 1 else np.zeros(1)
        tol = 32 * ref.EPS * (max(abs(x1), abs(y1), abs(x2), abs(y2)) + sep) + np.finfo("float64").tiny
        if len(coords) != 2 + n_extra:
            problems.append("expected %d coordinate arrays" % (2 + n_extra))
        else:
            east, north, dist = np.asarray(coords[0]), np.asarray(coords[1]), np.asarray(dist)
            if east.shape != (size,) or north.shape != (size,) or dist.shape != (size,):
                problems.append("profile arrays do not have `size` points")
            else:
                err = max(np.max(np.abs(east - (x1 + t * (x2 - x1)))), np.max(np.abs(north - (y1 + t * (y2 - y1)))),
                          np.max(np.abs(dist - t * sep)))
                run.observe_max("profile_error_over_tolerance", err / tol)
                if not err <= tol:
                    problems.append("profile points/distances off the even subdivision of the segment by %.3g (tol %.3g)" % (err, tol))
                for k in range(n_extra):
                    extra = np.asarray(coords[2 + k])
                    if extra.shape != east.shape or not (extra == np.atleast_1d(a["extra_coords"])[k]).all():
                        problems.append("profile extra coordinate %d wrong" % k)
        if size > 1 and sep > 0:
            run.mark_nontrivial("profile", x1, y1, x2, y2, size)
        for problem in problems[:1]:
            run.violation("profile_coordinates", problem,
                          {"point1": list(p1), "point2": list(p2), "size": size, "extra_coords": a["extra_coords"],
                           "coordinates": [np.asarray(c) for c in coords], "distances": np.asarray(dist)}, key="profile")

    from .. import core

    def pre(ev):
        return (core.digest(ev.args), {k: (np.array(v, copy=True) if isinstance(v, np.ndarray) else v) for k, v in ev.args.items()})

    def pure(post):
        def wrapper(ev):
            digest_before, kept = ev.pre
            run.evaluated("arguments_unmodified")
            if core.digest(ev.args) != digest_before:
                run.violation("arguments_unmodified", "%s modified one of its arguments in place" % ev.name,
                              {"callable": ev.name, "arguments_before": kept, "arguments_after": dict(ev.args)}, key="purity:" + ev.name)
                ev.args = kept  # judge the result against what the caller passed
            post(ev)
        return wrapper

    # documented defaults: an argument the caller leaves out is judged by these, not by the signature found in the tree
    tap.function(vc, "line_coordinates", pre=pre, post=pure(post_line), documented={"size": None, "spacing": None, "adjust": "spacing", "pixel_register": False})
    tap.function(vc, "spacing_to_size", pre=pre, post=pure(post_s2s))
    tap.function(vc, "grid_coordinates", pre=pre, post=pure(post_grid),
                 documented={"shape": None, "spacing": None, "adjust": "spacing", "pixel_register": False, "extra_coords": None, "meshgrid": True})
    tap.function(vc, "shape_to_spacing", pre=pre, post=pure(post_shape_to_spacing), documented={"pixel_register": False})
    tap.function(vc, "profile_coordinates", pre=pre, post=pure(post_profile), documented={"extra_coords": None})


# ----------------------------------------------------------------------
# workloads
# ----------------------------------------------------------------------
def _lattice_axes(tier):
    den = 8 if tier == "quick" else 16
    extents = [Fraction(k, den) for k in range(0, 5 * den + 1)]
    spacings = [Fraction(k, den) for k in range(1, 6 * den + 2)]
    starts = STARTS if tier == "quick" else STARTS + [Fraction(-7, 16), Fraction(1000), Fraction(-123456789, 1024)]
    return starts, extents, spacings


def run_case(run, tap, stream, index, rng):
    if stream == "ambient":
        from .. import core as _core

        return _core.ambient_tests(run, AMBIENT_FILES[index])
    import verde
    import verde.coordinates as vc

    tier = run.tier
    if stream == "lattice":
        starts, extents, spacings = _lattice_axes(tier)
        total = len(starts) * len(extents) * len(spacings) * 4
        chunks = plan(tier)["lattice"]
        mine = [e for k, e in enumerate(extents) if k % chunks == index]
        done = 0
        for extent in mine:
            for start, spacing, adjust, pixel in itertools.product(starts, spacings, ("spacing", "region"), (False, True)):
                s, e, sp = float(start), float(start + extent), float(spacing)
                vc.line_coordinates(s, e, spacing=sp, adjust=adjust, pixel_register=pixel)
                done += 1
        run.exhaustive.setdefault("rational_lattice_spacing", {"size": total, "done": 0})["done"] += done
        if index == 0:
            run.sample("lattice", {"start": float(starts[1]), "stop": float(starts[1] + extents[5]), "spacing": float(spacings[2]),
                                   "adjust": "region", "pixel_register": True,
                                   "result": vc.line_coordinates(float(starts[1]), float(starts[1] + extents[5]), spacing=float(spacings[2]), adjust="region", pixel_register=True)})
    elif stream == "sizes":
        starts, extents, _ = _lattice_axes(tier)
        size = index + 1
        done = 0
        for start, extent, pixel in itertools.product(starts, extents, (False, True)):
            vc.line_coordinates(float(start), float(start + extent), size=size, pixel_register=pixel)
            done += 1
        total = len(starts) * len(extents) * 2 * plan(tier)["sizes"]
        run.exhaustive.setdefault("rational_lattice_sizes", {"size": total, "done": 0})["done"] += done
    elif stream == "random_line":
        for _ in range(60):
            extent = 10 ** rng.uniform(-6, 6)
            offset = rng.choice([0.0, 1.0, 1e3, 1e6, 1e9]) * rng.choice([-1, 1]) * rng.uniform(0.1, 1) * (extent if rng.random() < 0.5 else 1.0)
            start = offset
            stop = start + extent
            extent = stop - start  # what is representable
            if extent <= 0:
                continue
            mode = rng.integers(0, 4)
            if mode == 0:
                spacing = extent / rng.uniform(0.2, 1000)
            elif mode == 1:  # at, or near (a few ulp up to 1e-5 relative, either side of), a .5 tie; k odd and even
                k = int(rng.integers(0, 200))
                spacing = extent / (k + 0.5)
                if rng.random() < 0.5:
                    spacing = np.nextafter(spacing, spacing * rng.choice([0.5, 2.0])) if rng.random() < 0.7 else spacing
                    for _ in range(int(rng.integers(0, 3))):
                        spacing = np.nextafter(spacing, np.inf if rng.random() < 0.5 else 0.0)
                else:
                    delta = float(rng.choice([-1, 1])) * 10 ** rng.uniform(-15, -5)
                    spacing = extent / ((k + 0.5) * (1 + delta))
                    run.count("class:near_tie_not_at_tie")
            elif mode == 2:  # spacing larger than the extent
                spacing = extent * rng.uniform(1.0, 4.0)
            else:  # divides the extent exactly or almost
                spacing = extent / int(rng.integers(1, 300))
            spacing = float(spacing)
            adjust = str(rng.choice(["spacing", "region"]))
            pixel = bool(rng.random() < 0.5)
            vals = vc.line_coordinates(start, stop, spacing=spacing, adjust=adjust, pixel_register=pixel)
            vc.spacing_to_size(start, stop, spacing, adjust)
            vc.line_coordinates(start, stop, spacing=spacing)  # relying on the documented defaults (adjust="spacing", no pixel registration)
            vc.grid_coordinates((start, stop, start, stop), spacing=spacing)
            size = int(rng.integers(1, 41))
            vc.line_coordinates(start, stop, size=size, pixel_register=pixel)
            # `adjust` is documented as ignored when a size / shape is given: every combination must still return the count asked for
            vc.line_coordinates(start, stop, size=size, adjust=adjust, pixel_register=pixel)
            vc.grid_coordinates((start, stop, start, stop), shape=(size, max(1, size // 2)), adjust="region", pixel_register=True, meshgrid=bool(rng.random() < 0.5))
            run.count("class:size_with_adjust_spelled")
        run.sample("random_line", {"start": start, "stop": stop, "spacing": spacing, "adjust": adjust, "pixel_register": pixel, "n_nodes": int(vals.size)})
    elif stream == "long_line":
        # many intervals: relative tolerances that are harmless for ten nodes become whole spacings for 1e4..3e5 nodes
        for _ in range(4):
            n = int(10 ** rng.uniform(3, 5.5))
            spacing = float(rng.choice([1.0, 0.25, 0.1, 10 ** rng.uniform(-3, 3)]))
            frac = float(rng.choice([0.0, 1e-9, 1e-6, 1e-4, 0.015, 0.25, 0.4, 0.499999, 0.5, 0.500001, 0.75, 0.999]))
            start = float(rng.choice([0.0, -50.0, rng.normal() * 1e3]))
            stop = start + (n + frac) * spacing
            adjust = str(rng.choice(["spacing", "region"]))
            pixel = bool(rng.random() < 0.5)
            vals = vc.line_coordinates(start, stop, spacing=spacing, adjust=adjust, pixel_register=pixel)
            vc.spacing_to_size(start, stop, spacing, "region")
            run.count("class:long_line")
            if n >= 50000:
                run.count("class:long_line_50k")
        # a long axis inside a grid (the other axis short)
        n = int(10 ** rng.uniform(3, 4.7))
        region = [0.0, n + float(rng.choice([0.015, 0.4, 0.25])), -50.0, 50.3]
        vc.grid_coordinates(region, spacing=(0.25 * 10, 1.0), adjust="region", meshgrid=bool(rng.random() < 0.3))
        run.sample("long_line", {"start": start, "stop": stop, "spacing": spacing, "adjust": adjust, "pixel_register": pixel, "n_nodes": int(vals.size)})
    elif stream == "ownership":
        # call histories: the caller edits the returned arrays in place, then asks for the same coordinates again (and for
        # other coordinates in between); every return is judged by the monitors against its own arguments
        for _ in range(6):
            region = _random_region(rng, degenerate=False)
            if rng.random() < 0.4:  # square region, scalar spacing: east and north vectors have equal values
                region = [region[0], region[1], region[0], region[1]]
            w, e, s_, n = region
            spacing = float((e - w) / rng.uniform(1.5, 12))
            calls = [
                lambda: vc.line_coordinates(w, e, spacing=spacing),
                lambda: vc.line_coordinates(w, e, size=int(7)),
                lambda: vc.line_coordinates(w, e, spacing=spacing, adjust="region", pixel_register=True),
                lambda: vc.grid_coordinates(region, spacing=spacing, meshgrid=False),
                lambda: vc.grid_coordinates(region, shape=(5, 5), meshgrid=False),
                lambda: vc.grid_coordinates(region, spacing=spacing),
                lambda: vc.grid_coordinates(region, shape=(4, 6), pixel_register=True, extra_coords=[1.0]),
                lambda: vc.profile_coordinates((w, s_), (e, n), 9)[0],
            ]
            for k in rng.permutation(len(calls)):
                first = calls[k]()
                arrays = [first] if isinstance(first, np.ndarray) else list(first)
                if len(arrays) >= 2 and arrays[0].ndim == 1 and np.shares_memory(arrays[0], arrays[1]):
                    run.violation("ownership", "easting and northing vectors returned by one call share memory", {"region": region}, key="shared-buffers")
                for arr in arrays:
                    if isinstance(arr, np.ndarray) and arr.flags.writeable:
                        arr *= -2.0
                        arr += 17.0
                calls[k]()  # judged by the monitors: must again start at the west/south bound etc.
                run.evaluated("ownership")
        run.sample("ownership", {"region": region, "spacing": spacing})
    elif stream == "grid":
        for _ in range(40):
            region = _random_region(rng)
            kwargs = {}
            if rng.random() < 0.5:
                kwargs["shape"] = (int(rng.integers(1, 30)), int(rng.integers(1, 30)))
            else:
                w, h = region[1] - region[0], region[3] - region[2]
                if w <= 0 or h <= 0:
                    kwargs["spacing"] = float((max(w, h) or 1.0) / rng.uniform(0.3, 25))
                elif rng.random() < 0.25:  # both ratios close to (not at) a .5 tie
                    ke, kn = int(rng.integers(1, 12)), int(rng.integers(1, 12))
                    de, dn = (float(rng.choice([-1, 1])) * 10 ** rng.uniform(-14, -6) for _ in range(2))
                    kwargs["spacing"] = (float(h / ((kn + 0.5) * (1 + dn))), float(w / ((ke + 0.5) * (1 + de))))
                    run.count("class:grid_near_tie")
                elif rng.random() < 0.4:
                    kwargs["spacing"] = float(min(w, h) / rng.uniform(0.3, 25))
                else:
                    kwargs["spacing"] = (float(h / rng.uniform(0.3, 25)), float(w / rng.uniform(0.3, 25)))
                kwargs["adjust"] = str(rng.choice(["spacing", "region"]))
            kwargs["pixel_register"] = bool(rng.random() < 0.5)
            if rng.random() < 0.3:
                kwargs["meshgrid"] = False
            elif rng.random() < 0.5:
                # the same value spelled in every accepted way: bare scalar (incl. exactly zero), numpy scalar, list, tuple, ndarray
                spell = int(rng.integers(0, 11))
                # ... and sequences in which values repeat (height 0 and time 0): one array per given value, in the order given
                kwargs["extra_coords"] = [0, 0.0, np.float64(0.0), float(rng.normal()), [0.0], (float(rng.normal()), 0.0), np.array([1.5, 0.0, -2.0]),
                                          [0.0, 0.0], [7, 7.0, 7], (1.0, 2.0, 1.0), np.array([0.0, -0.0, 3.0, 3.0])][spell]
                if spell >= 7:
                    run.count("class:extra_coords_repeated_values")
                run.count("class:extra_coords_spelling_%d" % spell)
            res = vc.grid_coordinates(region, **kwargs)
        run.sample("grid", {"region": region, "kwargs": kwargs, "shapes": [np.shape(r) for r in res]})
    elif stream == "nested":
        _nested(run, rng, verde)
    elif stream == "profile":
        for _ in range(30):
            scale = 10 ** rng.uniform(-3, 6)
            if rng.random() < 0.3:  # extreme magnitudes: squares of the coordinate differences under- or overflow, the differences do not
                scale = 10 ** float(rng.choice([rng.uniform(-250, -150), rng.uniform(-150, -20), rng.uniform(20, 150), rng.uniform(150, 250)]))
                run.count("class:profile_extreme_magnitude")
            p1 = tuple(float(v) for v in rng.normal(size=2) * scale)
            p2 = tuple(float(v) for v in rng.normal(size=2) * scale + rng.choice([0, 1e3]) * scale)
            if rng.random() < 0.15:
                p2 = (p1[0], p2[1])  # vertical
            if rng.random() < 0.15:
                p2 = (p2[0], p1[1])  # horizontal
            size = int(rng.integers(1, 60))
            extra = None if rng.random() < 0.6 else [float(rng.normal())]
            coords, dist = vc.profile_coordinates(p1, p2, size, extra_coords=extra)
        run.sample("profile", {"point1": p1, "point2": p2, "size": size, "distances": dist})
    elif stream == "shape_spacing":
        for _ in range(30):
            region = _random_region(rng, degenerate=False)
            pixel = bool(rng.random() < 0.5)
            shape = (int(rng.integers(2, 40)), int(rng.integers(2, 40)))
            if rng.random() < 0.5:  # containers the caller keeps using: ndarray shape / region, reused for the calls below
                shape = np.array(shape)
                region = np.array(region)
                run.count("class:ndarray_shape_and_region")
            spacing = vc.shape_to_spacing(region, shape, pixel_register=pixel)
            by_shape = vc.grid_coordinates(region, shape=shape, pixel_register=pixel)
            by_spacing = vc.grid_coordinates(region, spacing=spacing, pixel_register=pixel)
            run.evaluated("shape_spacing_roundtrip")
            tol = max(ref.line_tolerance(region[0], region[1]), ref.line_tolerance(region[2], region[3]))
            same = all(a.shape == b.shape and np.max(np.abs(a - b)) <= 2 * tol for a, b in zip(by_shape, by_spacing))
            region, shape = [float(v) for v in region], tuple(int(v) for v in shape)
            run.mark_nontrivial("roundtrip", region, shape, pixel)
            if not same:
                run.violation("shape_spacing_roundtrip", "grid_coordinates(spacing=shape_to_spacing(shape)) differs from grid_coordinates(shape=shape)",
                              {"region": region, "shape": shape, "pixel_register": pixel, "spacing": list(spacing),
                               "by_shape_shapes": [a.shape for a in by_shape], "by_spacing_shapes": [b.shape for b in by_spacing]}, key="roundtrip")
        run.sample("shape_spacing", {"region": region, "shape": shape, "pixel_register": pixel, "spacing": list(spacing)})


def _random_region(rng, degenerate=True):
    scale = 10 ** rng.uniform(-3, 6)
    off = rng.choice([0.0, 1.0, 1e3]) * scale * rng.normal(size=2)
    w = float(off[0] + rng.uniform(-1, 0) * scale)
    s = float(off[1] + rng.uniform(-1, 0) * scale)
    e = float(w + rng.uniform(0.05, 2) * scale)
    n = float(s + rng.uniform(0.05, 2) * scale)
    if degenerate and rng.random() < 0.05:
        e = w
    if degenerate and rng.random() < 0.05:
        n = s
    return [w, e, s, n]


def _nested(run, rng, verde):
    """grid_coordinates as called by other verde code: every nested return is judged too."""
    import verde.base

    class Plane(verde.base.BaseGridder):
        def predict(self, coordinates):
            return 2.0 * np.asarray(coordinates[0]) - 3.0 * np.asarray(coordinates[1])

    for _ in range(6):
        region = _random_region(rng, degenerate=False)
        w, e, s, n = region
        spacing = float(min(e - w, n - s) / rng.uniform(1.5, 12))
        grd = Plane()
        with warnings.catch_warnings():
            warnings.simplefilter("ignore")
            grd.grid(region=region, spacing=(spacing, spacing * 1.7), adjust=str(rng.choice(["spacing", "region"])),
                     pixel_register=bool(rng.random() < 0.5))
            grd.grid(region=region, shape=(int(rng.integers(2, 12)), int(rng.integers(2, 12))))
            pts = (rng.uniform(w, e, 60), rng.uniform(s, n, 60))
            verde.block_split(pts, spacing=spacing, adjust=str(rng.choice(["spacing", "region"])))
            verde.block_split(pts, shape=(int(rng.integers(1, 6)), int(rng.integers(1, 6))), region=region)
            size = min(e - w, n - s) * rng.uniform(0.1, 0.5)
            verde.rolling_window(pts, size=size, spacing=size * rng.uniform(0.3, 0.9), region=region)
            verde.project_region(region, lambda x, y: (x * 2.0, y + 1.0))
            verde.BlockReduce(np.median, spacing=spacing * 2).filter(pts, pts[0] + pts[1])
    run.count("nested_batches")


LEVEL_TEXT = (
    "Every return of line_coordinates / spacing_to_size / grid_coordinates / shape_to_spacing / profile_coordinates produced by the "
    "workload (direct or nested inside grid(), block_split, rolling_window, project_region, BlockReduce) is judged by an exact-rational "
    "oracle; the rational lattice named in the property is enumerated completely, the rest is seeded random exploration. Held means "
    "'no refutation among the monitored executions', not a proof."
)
LEVEL_NOTE = "Trusted: CPython fractions, numpy float64 arithmetic for node positions (8 eps tolerance); spacings positive and finite."
TECHNIQUE = "runtime postcondition monitors with an exact-rational reference model on every (nested) call; exhaustive rational lattice + seeded random workload"
