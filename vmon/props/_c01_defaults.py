"""
Documented defaults of the estimators monitored by C01 / C02 (shared helper).

The monitors of C01 and C02 read constructor parameters from the estimator instance, so a changed DEFAULT would be followed
silently. This stream closes that gap: an estimator built with NO optional arguments (and fitted without the optional
``weights`` argument) must behave exactly like one built with the documented defaults spelled out - ``get_params()`` shows the
documented values and the predictions are equal bit for bit. The documented values are taken from the class docstrings.
"""
import warnings

import numpy as np

from .. import gen

# class name -> (required positional arguments, documented optional arguments)
DOCUMENTED = {
    "Spline": ((), {"mindist": None, "damping": None, "force_coords": None, "engine": "auto"}),
    "VectorSpline2D": ((), {"poisson": 0.5, "mindist": 10e3, "damping": None, "force_coords": None, "engine": "auto"}),
    "KNeighbors": ((), {"k": 1, "reduction": np.mean}),
    "Linear": ((), {"rescale": False}),
    "Cubic": ((), {"rescale": False}),
    "ScipyGridder": ((), {"method": "cubic", "extra_args": None}),
    "Trend": ((2,), {}),
}
# what get_params() shows for a documented value that the constructor is documented to translate
SHOWN = {("Spline", "mindist"): 0}


def _same(a, b):
    if a is b:
        return True
    try:
        return bool(type(a) is type(b) and a == b)
    except Exception:  # noqa: BLE001
        return False


def defaults_case(run, rng, verde, index, names):
    name = names[index % len(names)]
    cls = getattr(verde, name)
    required, documented = DOCUMENTED[name]
    n = int(rng.integers(12, 90))
    # coordinates of tens of kilometres: the documented VectorSpline2D mindist of 10e3 is then a sensible fudge factor
    east, north = gen.cloud(rng, n, scale=gen.log_uniform(rng, 5e4, 5e5), offset_factor=float(rng.choice([0.0, 1.0])))
    vector = name == "VectorSpline2D"
    data = gen.smooth_field(rng, east, north)
    data = (data, gen.smooth_field(rng, east, north, amplitude=float(np.abs(data).max()))) if vector else data
    qe = rng.uniform(east.min(), east.max(), 25)
    qn = rng.uniform(north.min(), north.max(), 25)
    with warnings.catch_warnings():
        warnings.simplefilter("ignore")
        bare = cls(*required)
        spelled = cls(*required, **documented)
        shown = bare.get_params()  # before fitting: VectorSpline2D.fit is documented to fill in force_coords
        bare.fit((east, north), data)                    # relies on the documented fit(..., weights=None)
        spelled.fit((east, north), data, None)
        preds = []
        for est in (bare, spelled):
            out = [est.predict((east, north)), est.predict((qe, qn))]
            preds.append(np.concatenate([np.ravel(c) for o in out for c in (o if isinstance(o, tuple) else (o,))]))
    run.count("defaults:" + name)
    run.evaluated("documented_defaults")
    problems = []
    for key, value in documented.items():
        want = SHOWN.get((name, key), value)
        if key not in shown:
            problems.append("get_params() of %s() has no %r" % (name, key))
        elif not _same(shown[key], want):
            problems.append("%s() has %s=%r, the documented default is %r" % (name, key, shown[key], want))
    if preds[0].shape != preds[1].shape or not np.array_equal(preds[0], preds[1], equal_nan=True):
        differ = float(np.nanmax(np.abs(preds[0] - preds[1]))) if preds[0].shape == preds[1].shape else float("nan")
        problems.append("%s(%s) built without optional arguments predicts differently from the documented defaults spelled out (max difference %.3g)"
                        % (name, ", ".join(repr(r) for r in required), differ))
    if problems:
        run.violation("documented_defaults", "; ".join(problems),
                      {"estimator": name, "documented": {k: repr(v) for k, v in documented.items()}, "get_params": {k: repr(v) for k, v in shown.items()},
                       "easting": east, "northing": north, "data": list(data) if isinstance(data, tuple) else data,
                       "prediction_bare": preds[0], "prediction_documented_defaults": preds[1]}, key="defaults:" + name)
    else:
        run.mark_nontrivial("defaults", name, east, north, list(data) if isinstance(data, tuple) else data)
    run.sample("defaults", {"estimator": name, "documented": {k: repr(v) for k, v in documented.items()}, "n": n})
