"""
C18 - grid <-> table conversions preserve every value at its own coordinates.

Monitors sit on ``make_xarray_grid``, ``grid_to_table``, ``meshgrid_to_1d``,
``meshgrid_from_1d`` and ``check_meshgrid`` (module functions of ``verde.utils``,
every alias rebound) and judge every return *and* every raise, direct or nested
(``BaseGridder.grid`` builds its Dataset with ``make_xarray_grid`` and validates
explicit coordinates with ``meshgrid_from_1d`` / ``check_meshgrid``;
``project_grid`` flattens its input with ``grid_to_table``).

The oracle is cell-by-cell: the workload fills every array with values that
encode their own (variable, row, column), so a transposed, flipped, shifted or
mis-paired assignment changes at least one compared cell.  Nothing here calls
``numpy.meshgrid`` or any verde helper to build an expectation.
"""
import collections
import warnings

import numpy as np

ID = "C18"
LEVEL = "exploration"
RULE = (
    "cases = seeded random grids: shapes 1xn, nx1, 1x1, non-square and square (1..14 nodes per axis), non-uniform axis vectors "
    "(ascending, descending or shuffled; scales 1e-2..1e5, offsets up to 1e3 spacings), 1..4 data variables and 0..3 extra coordinates "
    "whose cell values encode (variable, row, column), float64/float32/int64 data with optional NaN holes, default or custom dims, "
    "1-D axis vectors or 2-D meshgrids (C/F order, read-only), Dataset / named / unnamed DataArray inputs with coordinates declared in either "
    "order; plus clear non-meshgrids (deviation >= 10 % of the node spacing, transposed or ij-indexed arrays), wrong name counts, and nested uses "
    "through BaseGridder.grid and project_grid; non-meshgrids on non-uniform axes spanning 5+ orders of magnitude with ONE small-valued node "
    "displaced by 30-60 % of its local spacing (tiny against the largest coordinate); int64 / uint64 variables and extra coordinates beyond "
    "2**53; grids whose variables / extra coordinates are dask arrays with >= 2 chunks along the second "
    "dimension (even, uneven, both dimensions, only some members chunked); non-meshgrids of projected size that drift gradually (sheared / "
    "rotated so that neighbouring rows agree within numpy.allclose's tolerance while first and last differ by 12..40 times it; drifts of 0.5 and "
    "2 times the tolerance are counted either-way); name collisions (a DataArray pulled out of a grid by the name of one of its 1..3 extra coordinates, "
    "variables / extra coordinates called easting or northing in grids with other dims); data and extra coordinates as numpy.ma.MaskedArray (some / no cells masked, -99999 stored under "
    "the mask: masked cells must come out as NaN in grid and table) and as lists of lists; large grids of >= 2**18 cells (450x600, 512x512, "
    "300x1000, ...) through make_xarray_grid -> grid_to_table for Dataset and DataArray inputs with every row compared; make_xarray_grid called with dims / extra_coords_names by keyword, POSITIONALLY (4th / 5th "
    "argument, default and custom dims, with and without extra coordinates) and all-keyword, each grid also compared with what the workload "
    "asked for; equivalent spellings (axis vectors as float / int64 arrays or Python lists, names as bare string, "
    "list, tuple of 1..4, DataArray names 0 and \"\", extra coordinates / variables that are exactly zero, one bare string offered for several "
    "variables); plus call histories: consecutive calls on twin inputs (same sizes, same first and last axis "
    "values, same shapes and names; other interior nodes - uniform then non-uniform, non-uniform then another non-uniform, mirrored - and other "
    "values), the same ndarray / Dataset objects edited in place between calls, and returned arrays overwritten before an identical call. Non-trivial = the grid has at least 2 cells with position-encoding values and is not a "
    "square grid with default names (n_north != n_east, or custom dims, or extra coordinates, or >= 2 variables); distinct = hash of the "
    "coordinate vectors, shape and configuration."
)
ASSUMPTIONS = [
    "cell values, coordinates and extra coordinates must be copied, so they are compared exactly (NaN position-wise)",
    "a 2-D input is a *clear* non-meshgrid when it deviates from its first row/column by >= 10 % of the smallest node spacing and by "
    ">= 10 x (1e-8 + 1e-5 |coordinate|) of THAT node (decided per element), ten times numpy.allclose's default tolerance (the verdict then does not depend on the tolerance "
    "convention; this includes arrays that drift gradually, every row within tolerance of its neighbour); inputs that deviate less are "
    "either-way (counted, not failed) and the returned axis value may be any of the column's values",
    "grid_to_table is judged on grids whose variables and extra coordinates all use the dimension order of the first variable "
    "(mixed dimension orders are outside the quantifier; they are probed and counted under observed:*, see JUDGE_MIXED_DIM_ORDER)",
    "column order of the returned DataFrame is not part of the statement (names and values are)",
]
_QUICK_FLOORS = {
    "eval:make_xarray_grid": 1300, "eval:grid_to_table": 1800, "eval:meshgrid_to_1d": 2100, "eval:meshgrid_from_1d": 690,
    "eval:check_meshgrid": 3400, "eval:roundtrip_arrays_grid_table": 830, "eval:roundtrip_1d_2d": 640,
    "eval:rejects_non_meshgrid": 280, "eval:rejects_name_count": 280, "distinct_nontrivial": 2950,
    # input classes that must keep being reached (about 40 % of what the unchanged tree produces)
    "class:make_coords_1d": 500, "class:make_coords_2d": 700, "class:make_custom_dims": 600, "class:make_extra_coords=3": 200,
    "class:make_n_vars=4": 140, "class:shape_1xn": 250, "class:shape_nx1": 250, "class:shape_non_square": 2000,
    "class:table_dataset": 1400, "class:table_dataarray_named": 250, "class:table_dataarray_unnamed": 60,
    "class:table_coords_declared_northing_first": 300, "class:table_coords_declared_easting_first": 300,
    # call forms of make_xarray_grid (dims / extra_coords_names positionally)
    "eval:make_grid_as_intended": 1000, "class:make_call_positional_dims_custom_dims": 80,
    "class:make_call_positional_dims_and_extra_coords_names_custom_dims": 150, "class:make_call_positional_with_extra_coordinates": 200,
    "class:make_call_positional_without_extra_coordinates": 150, "class:make_call_all_keywords": 140,
    # one displaced small node on axes spanning orders of magnitude; integers beyond 2**53
    "class:check_meshgrid_displacement_small_against_largest_coordinate": 200, "refused:wide_range_non_meshgrid_clear": 200,
    "class:table_integers_beyond_2**53": 60,
    # calls that rely on the documented defaults of make_xarray_grid
    "defaulted_argument:make_xarray_grid.dims": 300, "defaulted_argument:make_xarray_grid.extra_coords_names": 400,
    # lazily evaluated grids, gradually drifting non-meshgrids
    "class:table_dask_arrays": 200, "class:table_dask_two_or_more_chunks_along_second_dimension": 170,
    "class:table_dask_and_in_memory_members_mixed": 25, "class:check_meshgrid_drifting_non_meshgrid": 60,
    "refused:drifting_non_meshgrid_clear": 60,
    # name collisions
    "class:table_dataarray_named_after_its_own_coordinate": 200, "class:table_own_coordinate_with_1_other_extra_coordinates": 50,
    "class:table_own_coordinate_with_2_other_extra_coordinates": 50, "class:table_variable_or_extra_named_easting_with_other_dims": 40,
    "class:table_variable_or_extra_named_northing_with_other_dims": 40,
    # containers: masked arrays (masked cells must come out as NaN), lists of lists
    "spelling:make_data=masked_some": 120, "spelling:make_data=masked_none": 50, "spelling:make_data=list_of_lists": 80,
    "spelling:make_extra_coordinate=masked_some": 80,
    # equivalent spellings
    "spelling:make_axis=list": 75, "spelling:make_axis=ndarray_int64": 130, "spelling:make_data_names=tuple_of_1": 120,
    "spelling:make_data_names=str_of_1": 85, "spelling:make_extra_coords_names=tuple_of_2": 100, "spelling:make_extra_coords_names=str_of_1": 100,
    "spelling:make_extra_coordinate_exactly_zero": 120, "spelling:table_falsy_name=0": 12, "spelling:table_falsy_name=''": 12,
    "spelling:bare_string_name_for_several_variables": 30, "spelling:bare_string_name_for_several_extra_coordinates": 8,
    "spelling:table_integer_axes": 200,
    # call histories (twins, in-place edits, overwritten results)
    "class:twin_uniform_then_nonuniform": 14, "class:twin_nonuniform_then_uniform": 35, "class:twin_nonuniform_then_nonuniform": 25,
    "class:twin_mirrored": 35, "class:twin_inputs_edited_in_place": 128, "class:twin_returned_arrays_overwritten": 640,
    "class:twin_calls_meshgrid_from_1d": 128, "class:twin_calls_meshgrid_to_1d": 128, "class:twin_calls_make_xarray_grid_1d": 128,
    "class:twin_calls_make_xarray_grid_2d": 128, "class:twin_calls_grid_to_table": 128,
    "class:check_meshgrid_clear": 1100, "refused:non_meshgrid": 1100, "refused:name_count": 280,
}
FLOORS = {"quick": dict(_QUICK_FLOORS, **{"class:large_grids_of_2**18_cells_or_more": 2}),
          "thorough": dict({k: 20 * v for k, v in _QUICK_FLOORS.items()}, **{"class:large_grids_of_2**18_cells_or_more": 12})}
JOBS = {"quick": 1, "thorough": 8}
CASE_TIMEOUT_S = 120

# Datasets whose variables / extra coordinates are declared with *different* dimension orders are outside the
# quantifier of the statement as registered. On the current tree grid_to_table mis-pairs them (each array is raveled in its
# own order). The probe stream records that under observed:*; set this to True to turn those observations into violations
# (key "mixed-dim-order", classifier below) once the finding is registered.
JUDGE_MIXED_DIM_ORDER = False

PER_CASE = 8  # grids per case


def plan(tier):
    if tier == "quick":
        return collections.OrderedDict(make=260, table=220, convert=100, reject=90, nested=40, probe=6, twin=40, large=3)
    return collections.OrderedDict(make=5200, table=4400, convert=2000, reject=1800, nested=800, probe=40, twin=800, large=30)


# ----------------------------------------------------------------------
# small reference helpers (numpy only)
# ----------------------------------------------------------------------
def same(a, b):
    """Exact equality of two arrays, NaN position-wise."""
    a, b = np.asarray(a), np.asarray(b)
    if a.shape != b.shape:
        return False
    if a.dtype.kind in "fc" or b.dtype.kind in "fc":
        with np.errstate(invalid="ignore"):
            return bool(np.all((a == b) | (np.isnan(a.astype("float64")) & np.isnan(b.astype("float64")))))
    return bool(np.all(a == b))


def _names(value):
    if value is None:
        return None
    if isinstance(value, str):
        return [value]
    try:
        return list(value)
    except TypeError:
        return None


def _smallest_spacing(*vectors):
    best = None
    for vec in vectors:
        vec = np.sort(np.asarray(vec, dtype="float64").ravel())
        if vec.size > 1:
            diff = np.diff(vec)
            diff = diff[diff > 0]
            if diff.size and (best is None or diff.min() < best):
                best = float(diff.min())
    return best


def mesh_class(coordinates):
    """
    Classify the two horizontal arrays: 'exact' meshgrid, 'clear' non-meshgrid, 'gray' (tolerance-level deviation)
    or 'invalid' (not two equal-shape finite 2-D numeric arrays).
    """
    try:
        east, north = np.asarray(coordinates[0]), np.asarray(coordinates[1])
    except Exception:  # noqa: BLE001
        return "invalid", {}
    if east.ndim != 2 or north.ndim != 2 or east.shape != north.shape or east.size == 0:
        return "invalid", {}
    if east.dtype.kind not in "fiu" or north.dtype.kind not in "fiu":
        return "invalid", {}
    east, north = east.astype("float64"), north.astype("float64")
    if not (np.all(np.isfinite(east)) and np.all(np.isfinite(north))):
        return "invalid", {}
    dev_e = float(np.max(np.abs(east - east[0:1, :])))
    dev_n = float(np.max(np.abs(north - north[:, 0:1])))
    info = {"dev_east": dev_e, "dev_north": dev_n}
    if dev_e == 0.0 and dev_n == 0.0:
        return "exact", info
    spacing = _smallest_spacing(east[0, :], north[:, 0])
    if spacing is None:
        spacing = _smallest_spacing(east, north)
    mag = float(max(np.max(np.abs(east)), np.max(np.abs(north))))
    info.update(spacing=spacing, magnitude=mag)
    if spacing:
        info["deviation_over_spacing"] = max(dev_e, dev_n) / spacing
    if spacing is not None:
        # clearly not a meshgrid, decided PER ELEMENT: some node is off the node of its column in the first row (of its row in the
        # first column) by >= 10 % of the local node spacing AND by >= 10 times the loosest reading of "equal" for a coordinate of
        # that magnitude (1e-8 + 1e-5 |coordinate|, numpy.allclose's defaults)
        def local_spacing(axis):
            if axis.size < 2:
                return np.full(axis.shape, spacing)
            order = np.argsort(axis)
            gaps = np.diff(axis[order])
            nearest = np.minimum(np.concatenate([[np.inf], gaps]), np.concatenate([gaps, [np.inf]]))
            out = np.empty(axis.shape)
            out[order] = np.where(nearest > 0, nearest, spacing)
            return out

        d_e, d_n = np.abs(east - east[0:1, :]), np.abs(north - north[:, 0:1])
        loose_e = 10 * (1e-8 + 1e-5 * np.maximum(np.abs(east), np.abs(east[0:1, :])))
        loose_n = 10 * (1e-8 + 1e-5 * np.maximum(np.abs(north), np.abs(north[:, 0:1])))
        clear_e = (d_e >= 0.1 * local_spacing(east[0, :])[None, :]) & (d_e >= loose_e)
        clear_n = (d_n >= 0.1 * local_spacing(north[:, 0])[:, None]) & (d_n >= loose_n)
        info.update(deviation_over_loose_tolerance=float(max(np.max(d_e / loose_e), np.max(d_n / loose_n)) * 10))
        if np.any(clear_e) or np.any(clear_n):
            # drifting: every row / column within the loose tolerance of its NEIGHBOUR although far from the first one
            step_e = np.abs(np.diff(east, axis=0)) if east.shape[0] > 1 else np.zeros((1, 1))
            step_n = np.abs(np.diff(north, axis=1)) if north.shape[1] > 1 else np.zeros((1, 1))
            info["drifting"] = bool(np.all(step_e <= loose_e[1:] / 10 if east.shape[0] > 1 else True) and
                                    np.all(step_n <= loose_n[:, 1:] / 10 if north.shape[1] > 1 else True) and
                                    (east.shape[0] > 2 or north.shape[1] > 2))
            # a displacement that is tiny against the largest coordinate of its axis (a single tolerance per axis would miss it)
            big_e, big_n = 1e-5 * float(np.max(np.abs(east))), 1e-5 * float(np.max(np.abs(north)))
            info["small_against_largest_coordinate"] = bool(
                (not np.any(clear_e) or float(np.max(d_e[clear_e])) < big_e) and (not np.any(clear_n) or float(np.max(d_n[clear_n])) < big_n)
                and not (np.any(d_e >= big_e) or np.any(d_n >= big_n)))
            return "clear", info
    return "gray", info


def shape_class(run, n_north, n_east):
    if n_north == 1 and n_east == 1:
        run.count("class:shape_1x1")
    elif n_north == 1:
        run.count("class:shape_1xn")
    elif n_east == 1:
        run.count("class:shape_nx1")
    elif n_north != n_east:
        run.count("class:shape_non_square")
    else:
        run.count("class:shape_square")


# ----------------------------------------------------------------------
# monitors
# ----------------------------------------------------------------------
def install(tap, run):
    import pandas as pd
    import verde.utils as vu
    import xarray as xr

    def report(monitor, problem, witness, key):
        run.violation(monitor, problem, witness, key=key)

    # -- check_meshgrid -------------------------------------------------
    def post_check(ev):
        coords = ev.args.get("coordinates")
        kind, info = mesh_class(coords) if coords is not None else ("invalid", {})
        if kind == "invalid":
            run.count("skipped:check_meshgrid_invalid_input")
            return
        if kind == "gray":
            run.count("either_way:tolerance_level_meshgrid")
            run.observe_max("either_way_deviation_over_node_spacing", info.get("deviation_over_spacing", 0.0))
            return
        if kind == "clear":
            run.observe_max("rejected_deviation_over_node_spacing", info.get("deviation_over_spacing", 0.0))
        run.evaluated("check_meshgrid")
        run.count("class:check_meshgrid_" + kind)
        if info.get("drifting"):
            run.count("class:check_meshgrid_drifting_non_meshgrid")
        if info.get("small_against_largest_coordinate"):
            run.count("class:check_meshgrid_displacement_small_against_largest_coordinate")
        witness = {"easting": np.asarray(coords[0]), "northing": np.asarray(coords[1]), "class": kind, "info": info,
                   "raised": repr(ev.exc)}
        if kind == "exact" and ev.exc is not None:
            report("check_meshgrid", "an exact meshgrid was rejected: %r" % (ev.exc,), witness, "check:rejects-exact")
        elif kind == "clear" and ev.exc is None:
            report("check_meshgrid", "a clear non-meshgrid (deviation %.3g / %.3g, node spacing %.3g) was accepted"
                   % (info["dev_east"], info["dev_north"], info["spacing"]), witness, "check:accepts-non-meshgrid")
        elif kind == "clear" and not isinstance(ev.exc, ValueError):
            report("check_meshgrid", "a non-meshgrid raised %s instead of ValueError" % type(ev.exc).__name__, witness,
                   "check:wrong-exception")

    def axis_values_ok(vec, full, axis):
        """vec[k] must be one of the values of the k-th column (axis=0: easting) / row (axis=1: northing) of the 2-D input."""
        vec, full = np.asarray(vec), np.asarray(full)
        if vec.ndim != 1:
            return False, False
        if axis == 0:
            if vec.shape[0] != full.shape[1]:
                return False, False
            exact = bool(np.all(full == vec[None, :]))
            lo, hi = full.min(axis=0), full.max(axis=0)
        else:
            if vec.shape[0] != full.shape[0]:
                return False, False
            exact = bool(np.all(full == vec[:, None]))
            lo, hi = full.min(axis=1), full.max(axis=1)
        return exact, bool(np.all((vec >= lo) & (vec <= hi)))

    # -- meshgrid_to_1d -------------------------------------------------
    def post_to1d(ev):
        coords = ev.args.get("coordinates")
        kind, info = mesh_class(coords)
        if kind == "invalid":
            run.count("skipped:meshgrid_to_1d_invalid_input")
            return
        shapes_equal = all(np.shape(c) == np.shape(coords[0]) for c in coords)
        witness = {"coordinates": [np.asarray(c) for c in coords], "class": kind, "info": info, "raised": repr(ev.exc),
                   "result": None if ev.exc is not None else [np.asarray(c) for c in ev.result]}
        if ev.exc is not None:
            if kind == "exact" and shapes_equal:
                run.evaluated("meshgrid_to_1d")
                report("meshgrid_to_1d", "an exact meshgrid was rejected: %r" % (ev.exc,), witness, "to1d:rejects-exact")
            elif kind == "clear":
                run.evaluated("meshgrid_to_1d")
                run.count("class:to1d_rejected_non_meshgrid")
            return
        if kind == "clear":
            run.evaluated("meshgrid_to_1d")
            report("meshgrid_to_1d", "a clear non-meshgrid was converted instead of rejected", witness, "to1d:accepts-non-meshgrid")
            return
        res = ev.result
        problems = []
        if not isinstance(res, tuple) or len(res) != len(coords):
            problems.append("result is not a tuple of %d arrays" % len(coords))
        else:
            e_exact, e_ok = axis_values_ok(res[0], coords[0], 0)
            n_exact, n_ok = axis_values_ok(res[1], coords[1], 1)
            if kind == "exact":
                if not e_exact:
                    problems.append("easting vector is not the common row of the easting meshgrid")
                if not n_exact:
                    problems.append("northing vector is not the common column of the northing meshgrid")
            else:
                run.count("either_way:tolerance_level_meshgrid")
                if not e_ok:
                    problems.append("easting vector has values that occur nowhere in their column")
                if not n_ok:
                    problems.append("northing vector has values that occur nowhere in their row")
            for k in range(2, len(coords)):
                if not same(res[k], coords[k]):
                    problems.append("extra coordinate %d was modified" % (k - 2))
        run.evaluated("meshgrid_to_1d")
        shape = np.shape(coords[0])
        if shape[0] != shape[1]:
            run.count("class:to1d_non_square")
        for problem in problems[:1]:
            report("meshgrid_to_1d", problem, witness, "to1d:" + problem.split(" ")[0])

    # -- meshgrid_from_1d -----------------------------------------------
    def post_from1d(ev):
        coords = ev.args.get("coordinates")
        try:
            east, north = np.asarray(coords[0]), np.asarray(coords[1])
        except Exception:  # noqa: BLE001
            return
        witness = {"coordinates": [np.asarray(c) for c in coords], "raised": repr(ev.exc),
                   "result": None if ev.exc is not None else [np.asarray(c) for c in ev.result]}
        if east.ndim != 1 or north.ndim != 1:
            if ev.exc is None:
                run.count("observed:from_1d_accepted_non_1d_input")
            else:
                run.count("class:from1d_rejected_non_1d")
            return
        extras_ok = all(np.shape(c) == (north.size, east.size) for c in coords[2:])
        if ev.exc is not None:
            if extras_ok:
                run.evaluated("meshgrid_from_1d")
                report("meshgrid_from_1d", "valid 1-D axis vectors were rejected: %r" % (ev.exc,), witness, "from1d:rejects-valid")
            return
        if not extras_ok:
            run.count("observed:from_1d_accepted_misshaped_extra")
            return
        res = ev.result
        problems = []
        if not isinstance(res, tuple) or len(res) != len(coords):
            problems.append("result is not a tuple of %d arrays" % len(coords))
        else:
            big_e, big_n = np.asarray(res[0]), np.asarray(res[1])
            want = (north.size, east.size)
            if big_e.shape != want or big_n.shape != want:
                problems.append("meshgrid shape %s / %s is not (n_north, n_east) = %s" % (big_e.shape, big_n.shape, want))
            else:
                if not np.all(big_e == east[None, :]):
                    problems.append("easting[i, j] is not the j-th easting value")
                if not np.all(big_n == north[:, None]):
                    problems.append("northing[i, j] is not the i-th northing value")
            for k in range(2, len(coords)):
                if not same(res[k], coords[k]):
                    problems.append("extra coordinate %d was modified" % (k - 2))
        run.evaluated("meshgrid_from_1d")
        if east.size != north.size:
            run.count("class:from1d_non_square")
        for problem in problems[:1]:
            report("meshgrid_from_1d", problem, witness, "from1d:" + problem.split(" ")[0])

    # -- make_xarray_grid -----------------------------------------------
    def post_make(ev):
        a = ev.args
        coords, data, data_names = a.get("coordinates"), a.get("data"), a.get("data_names")
        dims, extra_names = a.get("dims"), a.get("extra_coords_names")
        try:
            dims = list(dims)
            ndims = [np.ndim(c) for c in coords[:2]]
        except Exception:  # noqa: BLE001
            run.count("skipped:make_unreadable_arguments")
            return
        if len(dims) != 2 or len(coords) < 2 or ndims[0] != ndims[1] or ndims[0] not in (1, 2):
            run.count("skipped:make_outside_domain")
            return
        datas = None if data is None else (list(data) if isinstance(data, tuple) else [data])
        dnames = _names(data_names) if datas is not None else []
        n_extra = len(coords) - 2
        enames = _names(extra_names) if n_extra else []
        witness = {"coordinates": [np.asarray(c) for c in coords], "data": None if datas is None else [np.asarray(d) for d in datas],
                   "data_names": data_names, "dims": dims, "extra_coords_names": extra_names, "raised": repr(ev.exc)}
        # ---- mismatched name counts must be rejected
        bad_counts = (datas is not None and (dnames is None or len(dnames) != len(datas))) or \
                     (n_extra and (enames is None or len(enames) != n_extra))
        if bad_counts:
            run.evaluated("rejects_name_count")
            if ev.exc is None:
                report("make_xarray_grid", "mismatched name counts were accepted (data %s names %r; extra coordinates %d names %r)"
                       % (None if datas is None else len(datas), data_names, n_extra, extra_names), witness, "make:accepts-name-count")
            elif not isinstance(ev.exc, ValueError):
                report("make_xarray_grid", "mismatched name counts raised %s, not ValueError" % type(ev.exc).__name__, witness,
                       "make:name-count-exception")
            return
        # ---- 2-D inputs that are not meshgrids must be rejected
        kind = "1d"
        if ndims[0] == 2:
            kind, info = mesh_class(coords)
            witness["class"], witness["info"] = kind, info
            if kind == "invalid":
                run.count("skipped:make_invalid_2d_input")
                return
            if kind == "clear":
                run.evaluated("rejects_non_meshgrid")
                if ev.exc is None:
                    report("make_xarray_grid", "2-D coordinates that are clearly not a meshgrid were accepted", witness,
                           "make:accepts-non-meshgrid")
                elif not isinstance(ev.exc, ValueError):
                    report("make_xarray_grid", "a non-meshgrid raised %s, not ValueError" % type(ev.exc).__name__, witness,
                           "make:non-meshgrid-exception")
                return
        # ---- expected axis vectors and grid shape
        if ndims[0] == 1:
            e_vec, n_vec = np.asarray(coords[0]), np.asarray(coords[1])
            shape = (n_vec.size, e_vec.size)
        else:
            shape = np.shape(coords[0])
        arrays_ok = all(np.shape(c) == shape for c in coords[2:]) and (datas is None or all(np.shape(d) == shape for d in datas))
        all_names = [str(d) for d in dims] + [str(n) for n in (enames or [])] + [str(n) for n in (dnames or [])]
        names_ok = len(set(all_names)) == len(all_names)
        if not (arrays_ok and names_ok):
            run.count("skipped:make_misshaped_or_clashing_names")
            return
        if ev.exc is not None:
            run.evaluated("make_xarray_grid")
            if kind == "gray":
                run.count("either_way:tolerance_level_meshgrid")
                return
            report("make_xarray_grid", "a valid input (%s coordinates, shape %s) was rejected: %r" % (kind, shape, ev.exc), witness,
                   "make:rejects-valid")
            return
        ds = ev.result
        problems = []
        if not isinstance(ds, xr.Dataset):
            problems.append("result is not an xarray.Dataset")
        else:
            try:
                out_e, out_n = ds.coords[dims[1]], ds.coords[dims[0]]
            except KeyError:
                out_e = out_n = None
                problems.append("coordinates are not named after dims %r" % (dims,))
            if out_e is not None:
                if tuple(out_e.dims) != (dims[1],) or tuple(out_n.dims) != (dims[0],):
                    problems.append("axis coordinates do not span their own dimension: %s=%s %s=%s"
                                    % (dims[1], out_e.dims, dims[0], out_n.dims))
                elif out_e.values.shape != (shape[1],) or out_n.values.shape != (shape[0],):
                    problems.append("axis sizes (%d northing, %d easting) do not match the grid shape %s"
                                    % (out_n.values.size, out_e.values.size, shape))
                elif ndims[0] == 1:
                    if not same(out_e.values, e_vec):
                        problems.append("easting coordinate differs from the easting vector given")
                    if not same(out_n.values, n_vec):
                        problems.append("northing coordinate differs from the northing vector given")
                else:
                    # every source cell (i, j) must sit at (northing[i], easting[j]) of the output
                    e_exact, e_ok = axis_values_ok(out_e.values, coords[0], 0)
                    n_exact, n_ok = axis_values_ok(out_n.values, coords[1], 1)
                    if kind == "exact":
                        if not e_exact:
                            problems.append("easting[j] is not the easting of the source cells in column j")
                        if not n_exact:
                            problems.append("northing[i] is not the northing of the source cells in row i")
                    else:
                        run.count("either_way:tolerance_level_meshgrid")
                        if not (e_ok and n_ok):
                            problems.append("axis coordinates take values that occur nowhere in their row/column")
            if not problems:
                if datas is None:
                    if len(ds.data_vars):
                        problems.append("data=None produced data variables %r" % (list(ds.data_vars),))
                else:
                    if [str(v) for v in ds.data_vars] != [str(n) for n in dnames]:
                        problems.append("data variables %r, requested %r" % (list(ds.data_vars), dnames))
                    else:
                        for name, value in zip(dnames, datas):
                            var = ds[name]
                            if tuple(var.dims) != tuple(dims):
                                problems.append("variable %r has dims %s, requested %s" % (name, var.dims, tuple(dims)))
                            elif not same(var.values, visible(value)):
                                bad = _first_bad_cell(var.values, visible(value))
                                problems.append("variable %r: cell %s holds %r, its source cell shows %r%s" % (
                                    (name,) + bad + (" (a masked cell must show NaN)" if isinstance(value, np.ma.MaskedArray) else "",)))
                got_extra = [str(c) for c in ds.coords if str(c) not in (str(dims[0]), str(dims[1]))]
                if sorted(got_extra) != sorted(str(n) for n in enames):
                    problems.append("extra coordinates %r, expected %r" % (got_extra, list(enames)))
                else:
                    for name, value in zip(enames, coords[2:]):
                        var = ds.coords[name]
                        if tuple(var.dims) != tuple(dims):
                            problems.append("extra coordinate %r has dims %s, requested %s" % (name, var.dims, tuple(dims)))
                        elif not same(var.values, visible(value)):
                            bad = _first_bad_cell(var.values, visible(value))
                            problems.append("extra coordinate %r: cell %s holds %r, its source cell shows %r%s" % (
                                (name,) + bad + (" (a masked cell must show NaN)" if isinstance(value, np.ma.MaskedArray) else "",)))
        run.evaluated("make_xarray_grid")
        run.observe_max("largest_grid_cells_compared", shape[0] * shape[1])
        for value in (datas or []):
            if container_of(value) != "ndarray":
                run.count("spelling:make_data=" + container_of(value))
        for value in coords[2:]:
            if container_of(value) != "ndarray":
                run.count("spelling:make_extra_coordinate=" + container_of(value))
        run.observe_max("mismatching_cells_tolerated", 0)
        run.count("class:make_coords_%s" % ("1d" if ndims[0] == 1 else "2d"))
        run.count("spelling:make_axis=%s" % ("list" if isinstance(coords[0], list) else "ndarray_" + str(np.asarray(coords[0]).dtype)))
        if datas is not None:
            run.count("spelling:make_data_names=%s_of_%d" % (type(data_names).__name__, len(dnames)))
        if n_extra:
            run.count("spelling:make_extra_coords_names=%s_of_%d" % (type(extra_names).__name__, len(enames)))
            if any(not np.any(np.asarray(c)) for c in coords[2:]):
                run.count("spelling:make_extra_coordinate_exactly_zero")
        if datas is not None and any(not np.any(np.nan_to_num(np.asarray(v, dtype="float64"), nan=1.0)) for v in datas):
            run.count("spelling:make_variable_exactly_zero")
        run.count("class:make_extra_coords=%d" % n_extra)
        run.count("class:make_n_vars=%d" % (0 if datas is None else len(datas)))
        if [str(d) for d in dims] != ["northing", "easting"]:
            run.count("class:make_custom_dims")
        shape_class(run, shape[0], shape[1])
        if shape[0] * shape[1] >= 2 and (shape[0] != shape[1] or n_extra or (datas and len(datas) > 1) or
                                         [str(d) for d in dims] != ["northing", "easting"]):
            run.mark_nontrivial("make", [np.asarray(c) for c in coords[:2]], shape, dims, dnames, enames)
        for problem in problems[:1]:
            witness["result"] = ds
            report("make_xarray_grid", problem, witness, "make:" + problem.split(" ")[0])

    # -- grid_to_table --------------------------------------------------
    def post_table(ev):
        grid = ev.args.get("grid")
        if isinstance(grid, xr.Dataset):
            names = [n for n in grid.data_vars]
            if not names:
                run.count("skipped:table_dataset_without_variables")
                return
            arrays = [grid[n] for n in names]
            kind = "dataset"
        elif isinstance(grid, xr.DataArray):
            names = [grid.name if grid.name is not None else "scalars"]
            arrays = [grid]
            kind = "dataarray_named" if grid.name is not None else "dataarray_unnamed"
        else:
            run.count("skipped:table_not_an_xarray_grid")
            return
        dims = tuple(arrays[0].dims)
        in_domain = len(dims) == 2 and all(tuple(arr.dims) == dims for arr in arrays) and all(d in grid.coords for d in dims)
        extras = [c for c in grid.coords if c not in dims]
        if in_domain:
            in_domain = all(tuple(grid.coords[c].dims) == dims for c in extras) and \
                all(tuple(grid.coords[d].dims) == (d,) for d in dims)
            # a DataArray that IS one of its own non-index coordinates (grid.upward, grid["time"]): one column serves as both
            own = kind != "dataset" and names[0] in extras and same(np.asarray(grid.values), np.asarray(grid.coords[names[0]].values))
            all_names = [str(d) for d in dims] + [str(c) for c in extras] + [str(n) for n in names if not (own and n == names[0])]
            in_domain = in_domain and len(set(all_names)) == len(all_names)
        if not in_domain:
            run.count("skipped:table_grid_outside_domain")
            return
        witness = {"grid": grid, "kind": kind, "dims": list(dims), "raised": repr(ev.exc)}
        if own:
            run.count("class:table_dataarray_named_after_its_own_coordinate")
            run.count("class:table_own_coordinate_with_%d_other_extra_coordinates" % (len(extras) - 1))
        for clash in ("easting", "northing"):
            if clash in [str(n) for n in names] + [str(c) for c in extras] and clash not in dims:
                run.count("class:table_variable_or_extra_named_%s_with_other_dims" % clash)
        run.evaluated("grid_to_table")
        run.count("class:table_" + kind)
        if kind == "dataarray_named" and not grid.name:
            run.count("spelling:table_falsy_name=%r" % (grid.name,))
        if np.asarray(grid.coords[dims[0]].values).dtype.kind in "iu":
            run.count("spelling:table_integer_axes")
        if any(arr.dtype.kind in "iu" and arr.size and float(np.abs(np.asarray(arr.values).astype("float64")).max()) > 2.0 ** 53
               for arr in arrays + [grid.coords[c] for c in extras]):
            run.count("class:table_integers_beyond_2**53")
        lazy = [arr for arr in arrays + [grid.coords[c] for c in extras] if hasattr(arr.data, "chunks")]
        if lazy:
            run.count("class:table_dask_arrays")
            if any(len(arr.data.chunks[1]) >= 2 for arr in lazy):
                run.count("class:table_dask_two_or_more_chunks_along_second_dimension")
            if len(lazy) < len(arrays) + len(extras):
                run.count("class:table_dask_and_in_memory_members_mixed")
        run.count("class:table_extra_coords=%d" % len(extras))
        run.count("class:table_n_vars=%d" % len(names))
        order = [str(c) for c in grid.coords if c in dims]
        run.count("class:table_coords_declared_%s_first" % ("northing" if order and order[0] == str(dims[0]) else "easting"))
        if [str(d) for d in dims] != ["northing", "easting"]:
            run.count("class:table_custom_dims")
        n0, n1 = arrays[0].shape
        shape_class(run, n0, n1)
        if ev.exc is not None:
            report("grid_to_table", "a valid %s grid was rejected: %r" % (kind, ev.exc), witness, "table:rejects-valid")
            return
        table = ev.result
        problems = []
        if not isinstance(table, pd.DataFrame):
            problems.append("result is not a pandas.DataFrame")
        else:
            witness["table"] = table
            want_cols = [dims[0], dims[1]] + list(extras) + [n for n in names if not (own and n == names[0])]
            if sorted(str(c) for c in table.columns) != sorted(str(c) for c in want_cols):
                problems.append("columns %r, expected (in any order) %r" % (list(table.columns), want_cols))
            elif len(table) != n0 * n1:
                problems.append("%d rows for %d cells" % (len(table), n0 * n1))
            else:
                # row k = i * n1 + j must describe cell [i, j]
                rows = np.arange(n0 * n1)
                i, j = rows // n1, rows % n1
                c0 = np.asarray(grid.coords[dims[0]].values)
                c1 = np.asarray(grid.coords[dims[1]].values)
                if not same(table[dims[0]].to_numpy(), c0[i]):
                    problems.append("column %r is not the %s coordinate of cell [row // n_east, row %% n_east]" % (dims[0], dims[0]))
                elif not same(table[dims[1]].to_numpy(), c1[j]):
                    problems.append("column %r is not the %s coordinate of cell [row // n_east, row %% n_east]" % (dims[1], dims[1]))
                else:
                    for name in extras:
                        if not same(table[name].to_numpy(), np.asarray(grid.coords[name].values)[i, j]):
                            problems.append("extra coordinate column %r does not hold its cell's value in row-major order" % (name,))
                    for name, arr in zip(names, arrays):
                        if not same(table[name].to_numpy(), np.asarray(arr.values)[i, j]):
                            problems.append("variable column %r does not hold its cell's value in row-major order" % (name,))
        if n0 * n1 >= 2 and (n0 != n1 or extras or len(names) > 1 or [str(d) for d in dims] != ["northing", "easting"]):
            run.mark_nontrivial("table", grid.coords[dims[0]].values, grid.coords[dims[1]].values, dims, names, extras, kind)
        for problem in problems[:1]:
            report("grid_to_table", problem, witness, "table:" + problem.split(" ")[0])

    tap.function(vu, "check_meshgrid", post=post_check)
    tap.function(vu, "meshgrid_to_1d", post=post_to1d)
    tap.function(vu, "meshgrid_from_1d", post=post_from1d)
    # arguments the caller leaves out are judged by their DOCUMENTED defaults (the other four functions have no optional arguments)
    tap.function(vu, "make_xarray_grid", post=post_make, documented={"dims": ("northing", "easting"), "extra_coords_names": None})
    tap.function(vu, "grid_to_table", post=post_table)


def visible(value):
    """
    What a container shows: a numpy.ma.MaskedArray shows NaN at its masked cells (never the number stored under the mask) and its
    data elsewhere; lists of lists show their numbers.
    """
    if isinstance(value, np.ma.MaskedArray):
        dtype = value.dtype if value.dtype.kind == "f" else np.dtype("float64")
        return np.ma.filled(value.astype(dtype), np.nan)
    return np.asarray(value)


def container_of(value):
    if isinstance(value, np.ma.MaskedArray):
        return "masked_some" if np.any(np.ma.getmaskarray(value)) else "masked_none"
    if isinstance(value, list):
        return "list_of_lists"
    return "ndarray"


def _first_bad_cell(got, want):
    got, want = np.asarray(got), np.asarray(want)
    with np.errstate(invalid="ignore"):
        bad = ~((got == want) | (np.isnan(got.astype("float64")) & np.isnan(want.astype("float64"))))
    idx = tuple(int(v) for v in np.argwhere(bad)[0])
    return idx, got[idx].item(), want[idx].item()


# ----------------------------------------------------------------------
# generators
# ----------------------------------------------------------------------
DIM_CHOICES = [("northing", "easting"), ("latitude", "longitude"), ("y", "x"), ("lat", "lon"), ("rows", "cols"), ("easting", "northing")]
VAR_NAMES = ["scalars", "temperature", "wind", "east_component", "north_component", "h2o", "gravity", "x_velocity"]
EXTRA_NAMES = ["upward", "time", "height", "extra_coord", "extra_coord_1", "depth"]


def gen_shape(rng):
    kind = rng.integers(0, 10)
    if kind == 0:
        return 1, int(rng.integers(2, 15))
    if kind == 1:
        return int(rng.integers(2, 15)), 1
    if kind == 2:
        n = int(rng.integers(2, 10))
        return n, n
    if kind == 3 and rng.random() < 0.3:
        return 1, 1
    while True:
        shape = int(rng.integers(2, 15)), int(rng.integers(2, 15))
        if shape[0] != shape[1]:
            return shape


def gen_axis(rng, n, scale):
    """Non-uniform axis vector of n distinct nodes: ascending, descending or shuffled; offset up to ~1e3 spacings."""
    steps = rng.uniform(0.2, 3.0, n) * scale
    if rng.random() < 0.2:
        steps[:] = scale  # uniform axis
    vec = np.cumsum(steps)
    offset = float(rng.choice([0.0, -0.5, 1.0, 30.0, 150.0])) * scale * float(rng.choice([-1.0, 1.0]))
    vec = vec + offset
    mode = rng.random()
    if mode < 0.2:
        vec = vec[::-1].copy()
    elif mode < 0.3:
        vec = rng.permutation(vec)
    return np.ascontiguousarray(vec, dtype="float64")


def gen_int_axis(rng, n):
    """Integer-valued (int64) non-uniform axis: ascending, descending or shuffled."""
    vec = np.cumsum(rng.integers(1, 6, n)) + int(rng.integers(-500, 500))
    mode = rng.random()
    if mode < 0.2:
        vec = vec[::-1].copy()
    elif mode < 0.3:
        vec = rng.permutation(vec)
    return np.ascontiguousarray(vec, dtype="int64")


def encode(kind, k, shape, rng, dtype=None, holes=False):
    """Values that encode (kind, k, row, column): sign/magnitude separate variables from extra coordinates."""
    i, j = np.indices(shape)
    base = (k + 1) * 1_000_000 + i * 1000 + j
    if kind == "extra":
        base = -base
    if dtype is None:
        dtype = "float64"
    if dtype == "int64":
        return base.astype("int64")
    vals = (base + 0.25).astype(dtype)
    if holes and vals.size > 2:
        n_holes = int(rng.integers(1, max(2, vals.size // 6)))
        flat = rng.choice(vals.size, size=n_holes, replace=False)
        vals.ravel()[flat] = np.nan
    return vals


def gen_grid_inputs(rng, shape=None, force_2d=None):
    """Axis vectors, encoded data arrays, extra coordinates and a naming configuration for one grid."""
    if shape is None:
        shape = gen_shape(rng)
    nn, ne = shape
    scale = float(10 ** rng.uniform(-2, 5))
    e_vec = gen_axis(rng, ne, scale)
    n_vec = gen_axis(rng, nn, scale * float(rng.uniform(0.3, 3)))
    if rng.random() < 0.12:
        e_vec, n_vec, scale = gen_int_axis(rng, ne), gen_int_axis(rng, nn), 1.0
    n_vars = int(rng.choice([1, 1, 2, 3, 4]))
    n_extra = int(rng.choice([0, 0, 1, 2, 3]))
    datas = []
    for k in range(n_vars):
        dtype = str(rng.choice(["float64", "float64", "float64", "float32", "int64"]))
        datas.append(encode("data", k, shape, rng, dtype=dtype, holes=(dtype == "float64" and rng.random() < 0.15)))
    extras = [encode("extra", k, shape, rng) for k in range(n_extra)]
    if rng.random() < 0.08:
        # integers beyond 2**53 (nanosecond timestamps, uint64 ids): must come back exactly, next to float coordinates
        ii, jj = np.indices(shape)
        if rng.random() < 0.5:
            datas[0] = (np.int64(1_700_000_000_000_000_000) + (ii * 1000 + jj).astype("int64") * np.int64(int(rng.integers(1, 1000))))
        else:
            datas[0] = (np.uint64(2 ** 63 + 12345) + (ii * 1000 + jj).astype("uint64"))
        if extras and rng.random() < 0.5:
            extras[0] = np.int64(1_699_999_999_000_000_007) - (ii * 1000 + jj).astype("int64")
    if rng.random() < 0.1:
        # contents that are falsy but valid: an extra coordinate / a variable that is exactly zero everywhere
        if extras:
            extras[-1] = np.zeros(shape)
        elif n_vars > 1:
            datas[-1] = np.zeros(shape)
    dims = DIM_CHOICES[0] if rng.random() < 0.45 else DIM_CHOICES[int(rng.integers(1, len(DIM_CHOICES)))]
    var_names = [str(v) for v in rng.choice(VAR_NAMES, size=n_vars, replace=False)]
    extra_names = [str(v) for v in rng.choice(EXTRA_NAMES, size=n_extra, replace=False)]
    # names that collide with the DEFAULT dimension names while the grid uses other dims (accepted by the unchanged code)
    if "easting" not in dims and rng.random() < 0.12:
        clash = str(rng.choice(["easting", "northing"]))
        if rng.random() < 0.6 or not extra_names:
            var_names[0] = clash
        else:
            extra_names[0] = clash
    two_d = bool(rng.random() < 0.5) if force_2d is None else force_2d
    return dict(shape=shape, e_vec=e_vec, n_vec=n_vec, datas=datas, extras=extras, dims=dims, var_names=var_names,
                extra_names=extra_names, two_d=two_d, scale=scale)


def broadcast_mesh(e_vec, n_vec, rng=None):
    """Meshgrid by explicit broadcasting (no numpy.meshgrid): east[i, j] = e[j], north[i, j] = n[i]."""
    nn, ne = n_vec.size, e_vec.size
    east = np.empty((nn, ne), dtype=e_vec.dtype)
    north = np.empty((nn, ne), dtype=n_vec.dtype)
    for i in range(nn):
        east[i, :] = e_vec
        north[i, :] = n_vec[i]
    if rng is not None:
        mode = rng.random()
        if mode < 0.15:
            east, north = np.asfortranarray(east), np.asfortranarray(north)
        elif mode < 0.3:
            east.setflags(write=False)
            north.setflags(write=False)
    return east, north


def contain(rng, cfg, key, k, lists=True):
    """
    cfg[key][k] in another container: a MaskedArray with some cells masked (the number stored under the mask is -99999; the
    expectation kept in cfg becomes NaN there), a MaskedArray with nothing masked, or a plain list of lists.
    """
    base = cfg[key][k]
    roll = rng.random()
    if base.dtype.kind in "iu" and base.size and int(np.abs(base.astype("float64")).max()) > 2 ** 53:
        return base  # exact integers beyond 2**53 have no float / NaN representation: keep the container
    if roll < 0.12 and base.size >= 2:
        mask = rng.random(base.shape) < 0.25
        mask.ravel()[int(rng.integers(0, base.size))] = True
        mask.ravel()[int(rng.integers(0, base.size))] = False
        hidden = base.copy()
        hidden[mask] = -99999
        expected = base.astype(base.dtype if base.dtype.kind == "f" else "float64")
        expected[mask] = np.nan
        cfg[key][k] = expected
        return np.ma.MaskedArray(hidden, mask=mask)
    if roll < 0.17:
        return np.ma.MaskedArray(base.copy())
    if lists and roll < 0.25:
        return base.tolist()
    return base


def make_arguments(cfg, rng):
    """Positional/keyword arguments of make_xarray_grid in one of the accepted spellings."""
    extras_in = tuple(contain(rng, cfg, "extras", k, lists=False) for k in range(len(cfg["extras"])))
    if cfg["two_d"]:
        east, north = broadcast_mesh(cfg["e_vec"], cfg["n_vec"], rng)
        coords = (east, north) + extras_in
    else:
        coords = (cfg["e_vec"], cfg["n_vec"]) + extras_in
        if rng.random() < 0.15:
            # axis vectors as plain Python lists of numbers
            coords = (cfg["e_vec"].tolist(), cfg["n_vec"].tolist()) + extras_in
    if rng.random() < 0.2:
        coords = list(coords)
    datas = [contain(rng, cfg, "datas", k) for k in range(len(cfg["datas"]))]
    if len(datas) == 1 and rng.random() < 0.5:
        roll = rng.random()
        data = datas[0]
        names = cfg["var_names"][0] if roll < 0.5 else ([cfg["var_names"][0]] if roll < 0.75 else (cfg["var_names"][0],))
    else:
        data, names = tuple(datas), (list(cfg["var_names"]) if rng.random() < 0.5 else tuple(cfg["var_names"]))
    kwargs = {}
    if tuple(cfg["dims"]) != ("northing", "easting") or rng.random() < 0.3:
        kwargs["dims"] = list(cfg["dims"]) if rng.random() < 0.5 else tuple(cfg["dims"])
    if cfg["extras"]:
        if len(cfg["extras"]) == 1 and rng.random() < 0.5:
            kwargs["extra_coords_names"] = cfg["extra_names"][0]
        else:
            kwargs["extra_coords_names"] = list(cfg["extra_names"]) if rng.random() < 0.5 else tuple(cfg["extra_names"])
    elif rng.random() < 0.2:
        kwargs["extra_coords_names"] = "ignored_name"
    return coords, data, names, kwargs


def build_xarray(cfg, rng, xr):
    """A hand-made Dataset / DataArray (no verde involved) with the coordinates declared in either order."""
    d0, d1 = cfg["dims"]
    entries = [(d0, cfg["n_vec"]), (d1, cfg["e_vec"])]
    if rng.random() < 0.5:
        entries.reverse()
    extra_entries = [(name, ((d0, d1), arr)) for name, arr in zip(cfg["extra_names"], cfg["extras"])]
    if extra_entries and rng.random() < 0.4:
        entries = extra_entries + entries
    else:
        entries = entries + extra_entries
    coords = collections.OrderedDict(entries)
    form = rng.integers(0, 4)
    if form == 0 or len(cfg["datas"]) > 1:
        order = list(rng.permutation(len(cfg["datas"])))
        data_vars = collections.OrderedDict((cfg["var_names"][k], ((d0, d1), cfg["datas"][k])) for k in order)
        return xr.Dataset(data_vars, coords=coords), "dataset"
    if form == 1:
        roll = rng.random()
        # names may be any hashable: 0 and "" are falsy but valid names
        name = 0 if roll < 0.2 else ("" if roll < 0.4 else cfg["var_names"][0])
        return xr.DataArray(cfg["datas"][0], coords=coords, dims=(d0, d1), name=name), "dataarray_named"
    if form == 2:
        return xr.DataArray(cfg["datas"][0], coords=coords, dims=(d0, d1)), "dataarray_unnamed"
    # a DataArray pulled out of a Dataset keeps the Dataset's coordinates
    ds = xr.Dataset({cfg["var_names"][0]: ((d0, d1), cfg["datas"][0])}, coords=coords)
    return ds[cfg["var_names"][0]], "dataarray_from_dataset"


# ----------------------------------------------------------------------
# workloads
# ----------------------------------------------------------------------
def run_case(run, tap, stream, index, rng):
    import verde as vd
    import verde.utils as vu
    import xarray as xr

    with warnings.catch_warnings():
        warnings.simplefilter("ignore")
        if stream == "make":
            _stream_make(run, rng, vu)
        elif stream == "table":
            _stream_table(run, rng, vu, xr)
        elif stream == "convert":
            _stream_convert(run, rng, vu)
        elif stream == "reject":
            _stream_reject(run, rng, vu, vd)
        elif stream == "nested":
            _stream_nested(run, rng, vd, xr)
        elif stream == "probe":
            _stream_probe(run, rng, vu, xr)
        elif stream == "twin":
            _stream_twin(run, rng, vu, xr)
        elif stream == "large":
            _stream_large(run, rng, vu, xr, index)


def call_make(run, rng, vu, cfg, coords, data, names, kwargs):
    """
    make_xarray_grid(coordinates, data, data_names, dims, extra_coords_names) in one of its call forms: optional arguments by
    keyword, dims / extra_coords_names POSITIONALLY (4th / 5th argument, in the documented order), or everything by keyword.
    """
    custom = tuple(cfg["dims"]) != ("northing", "easting")
    roll = rng.random()
    if roll < 0.4:
        args = [coords, data, names, kwargs.get("dims", tuple(cfg["dims"]))]
        label = "positional_dims"
        if "extra_coords_names" in kwargs and rng.random() < 0.8:
            args.append(kwargs["extra_coords_names"])
            label = "positional_dims_and_extra_coords_names"
            rest = {}
        else:
            rest = {k: v for k, v in kwargs.items() if k == "extra_coords_names"}
        run.count("class:make_call_%s%s" % (label, "_custom_dims" if custom else "_default_dims"))
        if label.endswith("names") and cfg["extras"]:
            run.count("class:make_call_positional_with_extra_coordinates")
        elif not cfg["extras"]:
            run.count("class:make_call_positional_without_extra_coordinates")
        return vu.make_xarray_grid(*args, **rest)
    if roll < 0.55:
        run.count("class:make_call_all_keywords")
        return vu.make_xarray_grid(coordinates=coords, data=data, data_names=names, **kwargs)
    run.count("class:make_call_optional_by_keyword")
    return vu.make_xarray_grid(coords, data, names, **kwargs)


def check_intent(run, cfg, grid, kwargs, with_data=True):
    """
    The grid against what the WORKLOAD asked for (not against the arguments as the function bound them): requested dimension /
    index-coordinate names, extra-coordinate names, variables, every value at its cell.
    """
    d0, d1 = cfg["dims"]
    problem = None
    run.evaluated("make_grid_as_intended")
    if d0 not in grid.coords or d1 not in grid.coords:
        problem = "index coordinates %r, requested dims %r" % ([str(c) for c in grid.coords], [d0, d1])
    elif tuple(grid.coords[d0].dims) != (d0,) or tuple(grid.coords[d1].dims) != (d1,):
        problem = "index coordinates do not span the requested dims %r" % ([d0, d1],)
    elif not same(grid.coords[d0].values, cfg["n_vec"]) or not same(grid.coords[d1].values, cfg["e_vec"]):
        problem = "coordinate %r / %r is not the northing / easting vector given" % (d0, d1)
    else:
        got_extra = sorted(str(c) for c in grid.coords if c not in (d0, d1))
        if got_extra != sorted(cfg["extra_names"]):
            problem = "extra coordinates %r, requested %r" % (got_extra, cfg["extra_names"])
        else:
            for name, arr in zip(cfg["extra_names"], cfg["extras"]):
                if tuple(grid.coords[name].dims) != (d0, d1) or not same(grid.coords[name].values, arr):
                    problem = "extra coordinate %r is not in place on dims %r" % (name, (d0, d1))
        if problem is None and with_data:
            if [str(v) for v in grid.data_vars] != list(cfg["var_names"]):
                problem = "variables %r, requested %r" % (list(grid.data_vars), cfg["var_names"])
            else:
                for name, arr in zip(cfg["var_names"], cfg["datas"]):
                    if tuple(grid[name].dims) != (d0, d1) or not same(grid[name].values, arr):
                        problem = "variable %r is not in place on dims %r" % (name, (d0, d1))
        elif problem is None and len(grid.data_vars):
            problem = "data=None produced variables %r" % (list(grid.data_vars),)
    if problem:
        run.violation("make_grid_as_intended", problem,
                      {"config": {k: v for k, v in cfg.items() if k not in ("datas", "extras")}, "optional_arguments": kwargs, "grid": grid},
                      key="intent:" + problem.split(" ")[0])


def _stream_make(run, rng, vu):
    """arrays -> grid -> table returns the raveled inputs (the monitors judge both conversions on the way)."""
    for _ in range(PER_CASE):
        cfg = gen_grid_inputs(rng)
        coords, data, names, kwargs = make_arguments(cfg, rng)
        grid = call_make(run, rng, vu, cfg, coords, data, names, kwargs)
        check_intent(run, cfg, grid, kwargs)
        if rng.random() < 0.1:
            grid = lazily(run, rng, grid)  # the grid converted afterwards to dask arrays, then to a table
        table = vu.grid_to_table(grid)
        run.evaluated("roundtrip_arrays_grid_table")
        nn, ne = cfg["shape"]
        d0, d1 = cfg["dims"]
        want = collections.OrderedDict()
        want[d0] = np.repeat(cfg["n_vec"], ne)
        want[d1] = np.concatenate([cfg["e_vec"]] * nn)
        for name, arr in zip(cfg["extra_names"], cfg["extras"]):
            want[name] = arr.reshape(-1)
        for name, arr in zip(cfg["var_names"], cfg["datas"]):
            want[name] = arr.reshape(-1)
        problem = None
        if sorted(table.columns) != sorted(want):
            problem = "columns %r, expected %r" % (list(table.columns), list(want))
        else:
            for name, values in want.items():
                if not same(table[name].to_numpy(), values):
                    problem = "column %r of the table is not the raveled input" % name
                    break
        if problem:
            run.violation("roundtrip_arrays_grid_table", problem,
                          {"config": {k: v for k, v in cfg.items() if k not in ("datas", "extras")}, "data": cfg["datas"],
                           "extras": cfg["extras"], "table": table, "kwargs": kwargs}, key="roundtrip:" + problem.split(" ")[0])
        if rng.random() < 0.25:
            # data=None builds a coordinates-only grid
            only = call_make(run, rng, vu, cfg, coords, None, None, kwargs)
            check_intent(run, cfg, only, kwargs, with_data=False)
            run.count("class:make_data_none")
            del only
    run.sample("make_xarray_grid", {"shape": cfg["shape"], "two_d_coordinates": cfg["two_d"], "dims": cfg["dims"], "easting": cfg["e_vec"],
                                    "northing": cfg["n_vec"], "data_names": cfg["var_names"], "extra_coords_names": cfg["extra_names"],
                                    "first_variable": cfg["datas"][0], "table_head": table.head(4)})


def lazily(run, rng, grid):
    """
    The same grid with dask arrays for its variables and extra coordinates: two or more chunks along the SECOND (easting)
    dimension where the grid has at least two columns - even or uneven chunks, chunked along both dimensions, or only some of the
    variables chunked while the others stay in memory.
    """
    dims = tuple(grid.dims) if hasattr(grid, "name") else tuple(grid[list(grid.data_vars)[0]].dims)
    n0, n1 = (grid.sizes[dims[0]], grid.sizes[dims[1]])
    if n1 < 2:
        return grid.chunk({dims[0]: max(1, n0 // 2)})
    mode = str(rng.choice(["second_only", "both", "uneven", "some_variables"]))
    cut = int(rng.integers(1, n1))
    if mode == "second_only":
        out = grid.chunk({dims[1]: max(1, n1 // int(rng.integers(2, 5)))})
    elif mode == "both":
        out = grid.chunk({dims[0]: max(1, n0 // 2), dims[1]: max(1, n1 // int(rng.integers(2, 4)))})
    elif mode == "uneven" or hasattr(grid, "name"):
        mode = "uneven"
        out = grid.chunk({dims[1]: (cut, n1 - cut)})
    else:
        out = grid.copy()
        first = list(grid.data_vars)[0]
        out[first] = grid[first].chunk({dims[1]: (cut, n1 - cut)})
    run.count("class:dask_chunks_" + mode)
    return out


def _stream_table(run, rng, vu, xr):
    for _ in range(PER_CASE):
        cfg = gen_grid_inputs(rng)
        grid, form = build_xarray(cfg, rng, xr)
        if rng.random() < 0.15:
            grid = lazily(run, rng, grid)
        table = vu.grid_to_table(grid)
        run.count("class:built_" + form)
        if cfg["extra_names"] and rng.random() < 0.6:
            # an extra coordinate pulled out of the grid (grid.upward, grid["time"]): a DataArray named after one of its own
            # non-index coordinates; every other extra coordinate must still be a column
            pulled = grid[str(rng.choice(cfg["extra_names"]))]
            vu.grid_to_table(pulled)
    run.sample("grid_to_table", {"form": form, "shape": cfg["shape"], "dims": cfg["dims"], "coords_declared": [str(c) for c in grid.coords],
                                 "table_columns": [str(c) for c in table.columns], "table_head": table.head(4)})


def _stream_convert(run, rng, vu):
    """The 1-D <-> 2-D conversions are mutually inverse; check_meshgrid accepts what they produce."""
    for _ in range(PER_CASE):
        cfg = gen_grid_inputs(rng)
        e_vec, n_vec, extras = cfg["e_vec"], cfg["n_vec"], cfg["extras"]
        # 1-D -> 2-D -> 1-D
        two = vu.meshgrid_from_1d((e_vec, n_vec) + tuple(extras))
        vu.check_meshgrid(two)
        one = vu.meshgrid_to_1d(two)
        run.evaluated("roundtrip_1d_2d")
        ok = len(one) == 2 + len(extras) and same(one[0], e_vec) and same(one[1], n_vec) and \
            all(same(a, b) for a, b in zip(one[2:], extras))
        if not ok:
            run.violation("roundtrip_1d_2d", "meshgrid_to_1d(meshgrid_from_1d(c)) != c",
                          {"easting": e_vec, "northing": n_vec, "back": [np.asarray(c) for c in one]}, key="roundtrip:1d-2d-1d")
        # 2-D -> 1-D -> 2-D (meshgrid built by broadcasting, independent of numpy.meshgrid)
        east, north = broadcast_mesh(e_vec, n_vec, rng)
        vu.check_meshgrid((east, north))
        back = vu.meshgrid_from_1d(vu.meshgrid_to_1d((east, north) + tuple(extras)))
        run.evaluated("roundtrip_1d_2d")
        ok = len(back) == 2 + len(extras) and same(back[0], east) and same(back[1], north) and \
            all(same(a, b) for a, b in zip(back[2:], extras))
        if not ok:
            run.violation("roundtrip_1d_2d", "meshgrid_from_1d(meshgrid_to_1d(C)) != C",
                          {"easting": east, "northing": north, "back": [np.asarray(c) for c in back]}, key="roundtrip:2d-1d-2d")
        if rng.random() < 0.15:
            # tolerance-level deviation: an either-way input (counted, never failed)
            wobble = east.copy()
            wobble.setflags(write=True)
            k = int(rng.integers(0, wobble.size))
            wobble.ravel()[k] = np.nextafter(wobble.ravel()[k], np.inf)
            try:
                vu.meshgrid_to_1d((wobble, north))
            except ValueError:
                run.count("refused:tolerance_level_meshgrid")
    run.sample("conversions", {"easting": e_vec, "northing": n_vec, "meshgrid_shape": list(east.shape)})


def clear_non_meshgrid(cfg, rng):
    """A 2-D coordinate pair that is clearly not a meshgrid (>= 10 % of the node spacing away), and how it was made."""
    nn, ne = cfg["shape"]
    e_vec, n_vec = cfg["e_vec"], cfg["n_vec"]
    east, north = broadcast_mesh(e_vec, n_vec)
    east, north = east.astype("float64"), north.astype("float64")
    spacing = _smallest_spacing(e_vec, n_vec) or cfg["scale"]
    size = float(rng.choice([0.11, 0.5, 1.0, 5.0])) * spacing * float(rng.choice([-1.0, 1.0]))
    modes = []
    if nn > 1:
        modes += ["cell_east", "shear_east", "row_shift_east"]
    if ne > 1:
        modes += ["cell_north", "shear_north"]
    if nn > 1 and ne > 1:
        modes += ["swapped_arrays"]
        if nn == ne:
            modes += ["ij_indexing"]
    mode = str(rng.choice(modes))
    if mode == "cell_east":
        i = int(rng.integers(1, nn))
        east[i, int(rng.integers(0, ne))] += size
    elif mode == "cell_north":
        north[int(rng.integers(0, nn)), int(rng.integers(1, ne))] += size
    elif mode == "shear_east":
        east = east + size * np.arange(nn)[:, None]
    elif mode == "shear_north":
        north = north + size * np.arange(ne)[None, :]
    elif mode == "row_shift_east":
        east[int(rng.integers(1, nn)), :] += size
    elif mode == "swapped_arrays":
        east, north = north, east
    elif mode == "ij_indexing":
        east, north = east.T.copy(), north.T.copy()
    return east, north, mode


def drifting_non_meshgrid(rng):
    """
    2-D coordinates of projected size (5e5 .. 7.5e6) that are slightly sheared or rotated: every row (column) lies within
    numpy.allclose's tolerance of its NEIGHBOUR, but the last one is `level` times that tolerance away from the first.
    Returns (east, north, mode, level).
    """
    nn, ne = int(rng.integers(50, 301)), int(rng.integers(40, 121))
    e0, n0 = float(rng.uniform(5e5, 9e5)), float(rng.uniform(5e5, 7.5e6))
    level = float(rng.choice([0.5, 2.0, 12.0, 25.0, 40.0]))
    mode = str(rng.choice(["shear_east", "shear_north", "rotation"]))
    tol_e, tol_n = 1e-8 + 1e-5 * e0, 1e-8 + 1e-5 * n0
    drift_e, drift_n = level * tol_e, level * tol_n
    sp_e = float(rng.uniform(0.3, 0.9)) * max(drift_e, tol_e) if level >= 10 else float(rng.uniform(100, 500))
    sp_n = float(rng.uniform(0.3, 0.9)) * max(drift_n, tol_n) if level >= 10 else float(rng.uniform(100, 500))
    sp_e, sp_n = min(sp_e, 0.4 * e0 / ne), min(sp_n, 0.4 * n0 / nn)
    rows, cols = np.arange(nn, dtype="float64")[:, None], np.arange(ne, dtype="float64")[None, :]
    east = e0 + sp_e * cols + np.zeros((nn, 1))
    north = n0 + sp_n * rows + np.zeros((1, ne))
    if mode in ("shear_east", "rotation"):
        east = east + drift_e * rows / (nn - 1)
    if mode in ("shear_north", "rotation"):
        north = north - drift_n * cols / (ne - 1)
    return east, north, mode, level


def wide_range_non_meshgrid(rng):
    """
    Non-uniform axes spanning five or more orders of magnitude (a few small-valued nodes, then nodes up to 2e5 .. 5e6, possibly
    crossing zero); ONE small-valued node of one row (column) is displaced by 30-60 % of its local spacing - large against its own
    value, tiny against the largest coordinate of the axis. Returns (east, north, which).
    """
    def axis(n_small, n_big):
        small = np.cumsum(rng.uniform(0.3, 1.0, n_small)) - float(rng.choice([0.0, 1.0]))
        big = np.sort(10 ** rng.uniform(2.5, float(rng.uniform(5.3, 6.7)), n_big))
        vec = np.concatenate([small, big])
        if rng.random() < 0.4:
            vec = np.concatenate([-np.sort(10 ** rng.uniform(2.5, 6.0, 2))[::-1], vec])  # a long axis crossing zero
        return vec, small

    e_vec, e_small = axis(int(rng.integers(2, 5)), int(rng.integers(1, 4)))
    n_vec, n_small = axis(int(rng.integers(2, 5)), int(rng.integers(1, 4)))
    east, north = broadcast_mesh(e_vec, n_vec)
    which = str(rng.choice(["easting", "northing"]))
    if which == "easting":
        j = int(np.argmin(np.abs(e_vec - e_small[int(rng.integers(0, e_small.size))])))
        gap = np.min(np.abs(np.delete(e_vec, j) - e_vec[j]))
        east[int(rng.integers(1, n_vec.size)), j] += float(rng.uniform(0.3, 0.6)) * gap * float(rng.choice([-1.0, 1.0]))
    else:
        i = int(np.argmin(np.abs(n_vec - n_small[int(rng.integers(0, n_small.size))])))
        gap = np.min(np.abs(np.delete(n_vec, i) - n_vec[i]))
        north[i, int(rng.integers(1, e_vec.size))] += float(rng.uniform(0.3, 0.6)) * gap * float(rng.choice([-1.0, 1.0]))
    return east, north, which


def _stream_reject(run, rng, vu, vd):
    from verde.base import BaseGridder

    # one small node displaced on axes spanning several orders of magnitude (two per case)
    for _ in range(2):
        east, north, which = wide_range_non_meshgrid(rng)
        kind, info = mesh_class((east, north))
        run.count("class:wide_range_axis_displaced_%s_classified_%s" % (which, kind))
        ii, jj = np.indices(east.shape)
        for target, call in (("check_meshgrid", lambda: vu.check_meshgrid((east, north))),
                             ("meshgrid_to_1d", lambda: vu.meshgrid_to_1d((east, north))),
                             ("make_xarray_grid", lambda: vu.make_xarray_grid((east, north), 4096.0 * ii + jj, "field"))):
            try:
                call()
                run.count("accepted_wide_range_%s:%s" % (kind, target))
            except ValueError:
                run.count("refused:wide_range_non_meshgrid_%s" % kind)
    # gradually drifting non-meshgrids (one per case)
    east, north, mode, level = drifting_non_meshgrid(rng)
    kind = mesh_class((east, north))[0]
    run.count("class:drifting_%s_level_%gx_tolerance_classified_%s" % (mode, level, kind))
    ii, jj = np.indices(east.shape)
    values = 4096.0 * ii + jj
    for target, call in (("check_meshgrid", lambda: vu.check_meshgrid((east, north))),
                         ("meshgrid_to_1d", lambda: vu.meshgrid_to_1d((east, north, values))),
                         ("make_xarray_grid", lambda: vu.make_xarray_grid((east, north), values, "field"))):
        try:
            call()
            run.count("accepted_drifting_%s:%s" % (kind, target))
        except ValueError:
            run.count("refused:drifting_non_meshgrid_%s" % kind)

    class Plane(BaseGridder):
        def predict(self, coordinates):
            return 1.5 * np.asarray(coordinates[0]) - 0.75 * np.asarray(coordinates[1])

    for _ in range(PER_CASE):
        shape = gen_shape(rng)
        while shape == (1, 1):
            shape = gen_shape(rng)
        # offsets are kept within 1e3 spacings by the generator; re-draw if the classifier calls the case gray
        for _attempt in range(20):
            cfg = gen_grid_inputs(rng, shape=shape, force_2d=True)
            east, north, mode = clear_non_meshgrid(cfg, rng)
            if mesh_class((east, north))[0] == "clear":
                break
        else:
            run.count("skipped:no_clear_non_meshgrid_drawn")
            continue
        run.count("class:non_meshgrid_" + mode)
        calls = [
            ("check_meshgrid", lambda: vu.check_meshgrid((east, north))),
            ("meshgrid_to_1d", lambda: vu.meshgrid_to_1d((east, north) + tuple(cfg["extras"]))),
            ("make_xarray_grid", lambda: vu.make_xarray_grid((east, north) + tuple(cfg["extras"]), tuple(cfg["datas"]), list(cfg["var_names"]),
                                                             dims=cfg["dims"], extra_coords_names=list(cfg["extra_names"]) or None)),
            ("grid", lambda: Plane().grid(coordinates=(east, north))),
        ]
        for target, call in calls:
            try:
                call()
                run.count("accepted_non_meshgrid:" + target)  # the monitors have already recorded the violation
            except ValueError:
                run.count("refused:non_meshgrid")
        # wrong name counts
        cfg = gen_grid_inputs(rng)
        coords, data, names, kwargs = make_arguments(cfg, rng)
        n_vars, n_extra = len(cfg["datas"]), len(cfg["extras"])
        which = rng.integers(0, 3) if n_extra else 0
        if which == 0:
            wrong = int(rng.choice([k for k in range(0, 6) if k != n_vars]))
            bad_names = ["v%d" % k for k in range(wrong)]
            if n_vars >= 2 and rng.random() < 0.3:
                # ONE bare string with as many characters as there are variables is still one name
                bad_names = "abcdef"[:n_vars]
                run.count("spelling:bare_string_name_for_several_variables")
            elif rng.random() < 0.4:
                bad_names = tuple(bad_names)
            call = lambda: vu.make_xarray_grid(coords, tuple(cfg["datas"]), bad_names, **kwargs)  # noqa: E731
            run.count("class:wrong_data_name_count")
        elif which == 1:
            wrong = int(rng.choice([k for k in range(0, 5) if k != n_extra]))
            kwargs["extra_coords_names"] = ["c%d" % k for k in range(wrong)]
            if n_extra >= 2 and rng.random() < 0.3:
                kwargs["extra_coords_names"] = "uvw"[:n_extra]
                run.count("spelling:bare_string_name_for_several_extra_coordinates")
            elif rng.random() < 0.4:
                kwargs["extra_coords_names"] = tuple(kwargs["extra_coords_names"])
            call = lambda: vu.make_xarray_grid(coords, data, names, **kwargs)  # noqa: E731
            run.count("class:wrong_extra_name_count")
        else:
            kwargs.pop("extra_coords_names", None)
            call = lambda: vu.make_xarray_grid(coords, data, names, **kwargs)  # noqa: E731
            run.count("class:missing_extra_names")
        try:
            call()
        except ValueError:
            run.count("refused:name_count")
        # documented refusals that the statement does not name: counted only
        if rng.random() < 0.3:
            east2, north2 = broadcast_mesh(cfg["e_vec"], cfg["n_vec"])
            try:
                vu.meshgrid_from_1d((east2, north2))
            except ValueError:
                run.count("refused:from_1d_given_2d")
            try:
                vu.make_xarray_grid((cfg["e_vec"], north2), tuple(cfg["datas"]), list(cfg["var_names"]))
            except ValueError:
                run.count("refused:mixed_1d_2d")
    run.sample("rejections", {"non_meshgrid_kind": mode, "easting": east, "northing": north})


def _stream_nested(run, rng, vd, xr):
    """The conversions as verde itself calls them."""
    from verde.base import BaseGridder

    class Field(BaseGridder):
        "two components so that data names and variables are paired"

        def predict(self, coordinates):
            east, north = np.asarray(coordinates[0]), np.asarray(coordinates[1])
            return 3.0 * east - 7.0 * north + 0.011 * east * north, -2.0 * east + 5.0 * north

    for _ in range(PER_CASE):
        cfg = gen_grid_inputs(rng)
        e_vec, n_vec = cfg["e_vec"], cfg["n_vec"]
        gridder = Field()
        if cfg["two_d"]:
            coordinates = broadcast_mesh(e_vec, n_vec, rng) + tuple(cfg["extras"])
        else:
            coordinates = (e_vec, n_vec) + tuple(cfg["extras"])
        grid = gridder.grid(coordinates=coordinates, dims=cfg["dims"], data_names=["alpha", "beta"])
        vd.grid_to_table(grid)
        region = (float(e_vec.min()), float(e_vec.max()) + cfg["scale"], float(n_vec.min()), float(n_vec.max()) + cfg["scale"])
        grid = gridder.grid(region=region, shape=(cfg["shape"][0] + 1, cfg["shape"][1] + 1), extra_coords=[7.5] if rng.random() < 0.5 else None)
        vd.grid_to_table(grid["north_component"])
        run.count("nested:grid")
    # project_grid flattens its input with grid_to_table and grids the result again
    nn, ne = int(rng.integers(4, 9)), int(rng.integers(4, 9))
    e_vec = np.linspace(-3.0, 4.0, ne) * float(rng.uniform(0.5, 2.0))
    n_vec = np.linspace(10.0, 16.0, nn) * float(rng.uniform(0.5, 2.0))
    values = encode("data", 0, (nn, ne), rng)
    name = None if rng.random() < 0.5 else "topography"
    dims = ("latitude", "longitude") if rng.random() < 0.5 else ("northing", "easting")
    array = xr.DataArray(values, coords={dims[0]: n_vec, dims[1]: e_vec}, dims=dims, name=name)

    def projection(east, north):
        return 2.0 * east + 0.25 * north, 1.5 * north - 0.1 * east

    vd.project_grid(array, projection, method=str(rng.choice(["nearest", "linear"])), antialias=bool(rng.random() < 0.5))
    run.count("nested:project_grid")


LARGE_SHAPES = [(450, 600), (512, 512), (300, 1000), (1001, 263), (263, 1001), (700, 431)]


def _stream_large(run, rng, vu, xr, index):
    """
    Large counts (>= 2**18 cells): arrays -> make_xarray_grid -> grid_to_table for Dataset and DataArray inputs; the monitors and the
    round trip compare EVERY cell / row (values 4096 * row + column, so row-major order and pairing are unambiguous).
    """
    nn, ne = LARGE_SHAPES[index % len(LARGE_SHAPES)]
    scale = float(10 ** rng.uniform(-2, 4))
    e_vec, n_vec = gen_axis(rng, ne, scale), gen_axis(rng, nn, scale * 1.7)
    i, j = np.indices((nn, ne))
    n_vars = int(rng.choice([1, 2]))
    datas = [(k + 1) * 1e7 + 4096.0 * i + j + 0.25 for k in range(n_vars)]
    extras = [-(5e7 + 4096.0 * i + j)] if rng.random() < 0.6 else []
    names = ["first", "second"][:n_vars]
    dims = DIM_CHOICES[int(rng.integers(0, len(DIM_CHOICES)))]
    if rng.random() < 0.5:
        coords = (e_vec, n_vec) + tuple(extras)
    else:
        coords = broadcast_mesh(e_vec, n_vec) + tuple(extras)
    grid = vu.make_xarray_grid(coords, tuple(datas), names, dims=dims, extra_coords_names=["height"] if extras else None)
    if index % 2 == 1:
        grid = lazily(run, rng, grid)
        run.count("class:large_grid_as_dask_arrays")
    table = vu.grid_to_table(grid)
    run.evaluated("roundtrip_arrays_grid_table")
    want = {dims[0]: np.repeat(n_vec, ne), dims[1]: np.concatenate([e_vec] * nn)}
    want.update({name: arr.reshape(-1) for name, arr in zip(names, datas)})
    if extras:
        want["height"] = extras[0].reshape(-1)
    problem = None
    if sorted(table.columns) != sorted(want) or len(table) != nn * ne:
        problem = "columns %r / %d rows, expected %r / %d rows" % (list(table.columns), len(table), sorted(want), nn * ne)
    else:
        for name, values in want.items():
            if not same(table[name].to_numpy(), values):
                bad = int(np.argmax(table[name].to_numpy() != values))
                problem = "column %r of the table is not the raveled input (first at row %d = cell [%d, %d])" % (name, bad, bad // ne, bad % ne)
                break
    if problem:
        run.violation("roundtrip_arrays_grid_table", problem, {"shape": [nn, ne], "dims": list(dims), "names": names, "table_tail": table.tail(5)},
                      key="roundtrip-large:" + problem.split(" ")[0])
    # DataArray inputs: one pulled out of the Dataset, one made by hand (unnamed)
    vu.grid_to_table(grid[names[-1]])
    hand = xr.DataArray(datas[0], coords={dims[1]: e_vec, dims[0]: n_vec}, dims=dims)
    vu.grid_to_table(hand)
    run.count("class:large_grid_%dx%d" % (nn, ne))
    run.count("class:large_grids_of_2**18_cells_or_more" if nn * ne >= 2 ** 18 else "class:large_grid_smaller_than_intended")
    run.sample("large", {"shape": [nn, ne], "dims": list(dims), "variables": names, "table_rows": len(table), "table_tail": table.tail(3)})


def twin_axis(rng, vec, mode):
    """Another axis vector with the same size and the same first and last value (mirrored: the same values backwards)."""
    n = vec.size
    if mode == "mirrored":
        return vec[::-1].copy()
    if n < 3:
        return vec.copy()
    first, last = float(vec[0]), float(vec[-1])
    if mode == "uniform":
        out = first + (last - first) * (np.arange(n) / (n - 1))
    else:
        pos = np.sort(rng.uniform(0.02, 0.98, n - 2))
        for _ in range(10):
            if np.all(np.diff(np.concatenate([[0.0], pos, [1.0]])) > 1e-3):
                break
            pos = np.sort(rng.uniform(0.02, 0.98, n - 2))
        out = first + (last - first) * np.concatenate([[0.0], pos, [1.0]])
    out[0], out[-1] = vec[0], vec[-1]
    return np.ascontiguousarray(out, dtype="float64")


def scribble(run, result):
    """Overwrite everything a call returned (a cached buffer handed out twice would carry this into the next result)."""
    import pandas as pd
    import xarray as xr

    if isinstance(result, tuple):
        for arr in result[:2]:
            arr = np.asarray(arr)
            if arr.flags.writeable:
                arr[...] = 7 if arr.dtype.kind == "u" else -4.25e7
    elif isinstance(result, xr.Dataset):
        for name in list(result.variables):
            values = result[name].values
            if values.flags.writeable:
                values[...] = 7 if values.dtype.kind == "u" else -4.25e7
    elif isinstance(result, pd.DataFrame):
        for column in result.columns:
            result[column] = 7 if result[column].dtype.kind == "u" else -4.25e7
    run.count("class:twin_returned_arrays_overwritten")


def _stream_twin(run, rng, vu, xr):
    """
    Call histories: two consecutive calls whose inputs share summary statistics (sizes, first and last axis value, shapes, names)
    but differ in content; the same ndarray objects edited in place between calls; returned arrays overwritten before an
    identical call. Every return is judged by the monitors against its own arguments.
    """
    for _ in range(PER_CASE):
        a = gen_grid_inputs(rng)
        while a["shape"][0] < 3 and a["shape"][1] < 3:
            a = gen_grid_inputs(rng)
        a["e_vec"], a["n_vec"] = a["e_vec"].astype("float64"), a["n_vec"].astype("float64")
        uniform = bool(np.allclose(np.diff(a["e_vec"], 2), 0, atol=1e-9 * abs(a["scale"])) and a["e_vec"].size > 2)
        if uniform:
            kind = "uniform_then_nonuniform"
            modes = ("nonuniform", "nonuniform")
        else:
            kind = str(rng.choice(["nonuniform_then_uniform", "nonuniform_then_nonuniform", "mirrored"]))
            modes = {"nonuniform_then_uniform": ("uniform", "uniform"), "nonuniform_then_nonuniform": ("nonuniform", "nonuniform"),
                     "mirrored": ("mirrored", "mirrored")}[kind]
        b = dict(a)
        b["e_vec"], b["n_vec"] = twin_axis(rng, a["e_vec"], modes[0]), twin_axis(rng, a["n_vec"], modes[1])
        # same shapes, dtypes and names; other values (still encoding their own cell, of another variable index)
        b["datas"] = [encode("data", k + 4, a["shape"], rng, dtype=str(d.dtype)) for k, d in enumerate(a["datas"])]
        b["extras"] = [encode("extra", k + 4, a["shape"], rng) for k in range(len(a["extras"]))]
        run.count("class:twin_" + kind)

        def fresh(cfg):
            east, north = broadcast_mesh(cfg["e_vec"], cfg["n_vec"])
            return dict(e=cfg["e_vec"].copy(), n=cfg["n_vec"].copy(), east=east, north=north,
                        datas=[d.copy() for d in cfg["datas"]], extras=[x.copy() for x in cfg["extras"]])

        names, enames, dims = list(a["var_names"]), list(a["extra_names"]) or None, tuple(a["dims"])

        def hand_made(arrs):
            coords = collections.OrderedDict([(dims[0], arrs["n"]), (dims[1], arrs["e"])])
            for name, arr in zip(a["extra_names"], arrs["extras"]):
                coords[name] = (dims, arr)
            return xr.Dataset(collections.OrderedDict((name, (dims, arr)) for name, arr in zip(names, arrs["datas"])), coords=coords)

        calls = collections.OrderedDict([
            ("meshgrid_from_1d", lambda r: vu.meshgrid_from_1d((r["e"], r["n"]) + tuple(r["extras"]))),
            ("meshgrid_to_1d", lambda r: vu.meshgrid_to_1d((r["east"], r["north"]) + tuple(r["extras"]))),
            ("make_xarray_grid_1d", lambda r: vu.make_xarray_grid((r["e"], r["n"]) + tuple(r["extras"]), tuple(r["datas"]), names, dims=dims,
                                                                  extra_coords_names=enames)),
            ("make_xarray_grid_2d", lambda r: vu.make_xarray_grid((r["east"], r["north"]) + tuple(r["extras"]), tuple(r["datas"]), names,
                                                                  dims=dims, extra_coords_names=enames)),
            ("grid_to_table", lambda r: vu.grid_to_table(hand_made(r))),
        ])
        # (1) twins through fresh objects, (2) identical call after the result was overwritten
        for label, call in calls.items():
            call(fresh(a))
            result = call(fresh(b))
            scribble(run, result)
            call(fresh(b))
            run.count("class:twin_calls_" + label)
        # (3) the SAME ndarray objects, edited in place between the calls
        shared = fresh(a)
        grid = hand_made(shared)
        for label, call in calls.items():
            if label != "grid_to_table":
                call(shared)
        vu.grid_to_table(grid)
        other = fresh(b)
        for key in ("e", "n", "east", "north"):
            shared[key][...] = other[key]
        for key in ("datas", "extras"):
            for mine, theirs in zip(shared[key], other[key]):
                mine[...] = theirs
        for label, call in calls.items():
            if label != "grid_to_table":
                call(shared)
        # the Dataset object itself: its variables edited in place (index coordinates are immutable, so they stay A's)
        for name in names:
            grid[name].values[...] = -grid[name].values - 3
        vu.grid_to_table(grid)
        run.count("class:twin_inputs_edited_in_place")
    run.sample("twin_history", {"kind": kind, "shape": a["shape"], "easting_first": a["e_vec"], "easting_second": b["e_vec"],
                                "northing_first": a["n_vec"], "northing_second": b["n_vec"]})


def _stream_probe(run, rng, vu, xr):
    """
    Outside the quantifier: Datasets whose members are declared with different dimension orders. Counted, and judged only when
    JUDGE_MIXED_DIM_ORDER is set (the monitor on grid_to_table skips such grids as outside its domain).
    """
    for _ in range(PER_CASE):
        cfg = gen_grid_inputs(rng, shape=(int(rng.integers(2, 6)), int(rng.integers(6, 9))))
        d0, d1 = cfg["dims"]
        first = cfg["datas"][0]
        other = encode("data", 5, cfg["shape"], rng)
        as_extra = bool(rng.random() < 0.5)
        coords = {d0: cfg["n_vec"], d1: cfg["e_vec"]}
        if as_extra:
            coords["upward_t"] = ((d1, d0), other.T.copy())
            grid = xr.Dataset({"first": ((d0, d1), first)}, coords=coords)
            column = "upward_t"
        else:
            grid = xr.Dataset({"first": ((d0, d1), first), "second_t": ((d1, d0), other.T.copy())}, coords=coords)
            column = "second_t"
        try:
            table = vu.grid_to_table(grid)
        except Exception as exc:  # noqa: BLE001
            run.count("observed:mixed_dim_order_raised_" + type(exc).__name__)
            continue
        paired = same(table[column].to_numpy(), other.reshape(-1))
        run.count("observed:mixed_dim_order_%s" % ("paired_correctly" if paired else "MISPAIRED"))
        if not paired:
            note = ("grid_to_table mis-pairs variables / extra coordinates declared with the dimension order opposite to the first variable's: "
                    "each array is raveled in its own order (outside the registered quantifier; counted under observed:*, not judged)")
            if note not in run.notes:
                run.notes.append(note)
            if JUDGE_MIXED_DIM_ORDER:
                run.evaluated("grid_to_table_mixed_dim_order")
                run.violation("grid_to_table_mixed_dim_order",
                              "column %r does not hold the value of the cell whose coordinates the row shows" % column,
                              {"mixed_dim_order": True, "grid": grid, "table": table, "dims_first": [d0, d1], "dims_member": [d1, d0]},
                              key="mixed-dim-order")


def classify_mixed_dim_order(violation):
    return bool(violation.get("witness", {}).get("mixed_dim_order"))


CLASSIFIERS = {"mixed_dim_order": classify_mixed_dim_order}

LEVEL_TEXT = (
    "Every return and raise of make_xarray_grid / grid_to_table / meshgrid_to_1d / meshgrid_from_1d / check_meshgrid produced by the workload "
    "(direct, or nested inside BaseGridder.grid and project_grid) is judged cell by cell against the source arrays, whose values encode their "
    "own (variable, row, column); round trips arrays -> grid -> table and 1-D <-> 2-D are compared exactly; clear non-meshgrids and wrong name "
    "counts must raise ValueError. Held means 'no refutation among the monitored executions', not a proof."
)
LEVEL_NOTE = (
    "Trusted: xarray/pandas accessors used to read the results (.values, .dims, .coords, DataFrame columns). Tolerance-level non-meshgrids are "
    "either-way; mixed dimension orders inside one Dataset are outside the quantifier (probed, counted, not judged)."
)
TECHNIQUE = ("runtime postcondition monitors (return and raise) with a cell-by-cell reference on position-encoding grids; "
             "seeded random workload incl. rejection classes and nested uses")
