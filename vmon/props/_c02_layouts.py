"""
Memory layouts / containers for the fit arguments of C01 and C02 (shared helper, imports nothing from verde).

One *logical* array (an element sequence in C / row-major order plus a logical shape) is presented in different
containers. verde documents that coordinates, data and weights are flattened in C order of the logical arrays
(``check_fit_input`` / ``n_1d_arrays`` use ``np.ravel``), so weight k belongs to datum k of that sequence whatever the
memory layout. Every argument of a fit gets its layout independently, so a layout-dependent flattening of one of them
(``order="K"/"A"/"F"``) pairs values with the wrong points and shows up in the monitors.
"""
import numpy as np

LAYOUTS_2D = ("c", "fortran", "transposed_view", "strided", "negative_stride", "readonly", "readonly_fortran")
LAYOUTS_1D = ("c", "strided", "negative_stride", "readonly", "series")
FILL = -777.0


def logical_shape(rng, size, p_2d=0.6):
    """A logical shape for *size* elements: 1-D, or a non-square 2-D grid with both dimensions > 1 when one exists."""
    if size >= 6 and rng.random() < p_2d:
        divisors = [r for r in range(2, size // 2 + 1) if size % r == 0 and r != size // r]
        if divisors:
            rows = int(rng.choice(divisors))
            return (rows, size // rows)
    return (size,)


def present(rng, flat, shape, allow=None):
    """
    Present the logical array ``flat.reshape(shape)`` in a randomly chosen layout. Returns (layout name, container).
    ``np.asarray(container).ravel()`` (C order) is always the sequence *flat*.
    """
    flat = np.asarray(flat, dtype="float64")
    names = LAYOUTS_1D if len(shape) == 1 else LAYOUTS_2D
    if allow is not None:
        names = tuple(n for n in names if n in allow) or ("c",)
    name = str(rng.choice(names))
    logical = flat.reshape(shape)
    if name == "c":
        out = np.array(logical, order="C", copy=True)
    elif name == "fortran":
        out = np.asfortranarray(logical)
    elif name == "transposed_view":  # x.T of the C-ordered transposed array: same logical array, F-contiguous, does not own its memory
        out = np.ascontiguousarray(logical.T).T
    elif name == "strided":
        if len(shape) == 1:
            big = np.full(shape[0] * 3 + 2, FILL)
            out = big[1:1 + 3 * shape[0]:3]
        else:
            order = "C" if rng.random() < 0.5 else "F"
            big = np.full((shape[0] * 2 + 1, shape[1] * 3 + 2), FILL, order=order)
            out = big[1:1 + 2 * shape[0]:2, 2:2 + 3 * shape[1]:3]
        out[...] = logical
    elif name == "negative_stride":
        if len(shape) == 1:
            out = np.ascontiguousarray(logical[::-1])[::-1]
        else:
            which = int(rng.integers(0, 3))
            sl = [(slice(None, None, -1), slice(None)), (slice(None), slice(None, None, -1)), (slice(None, None, -1), slice(None, None, -1))][which]
            out = np.ascontiguousarray(logical[sl])[sl]
    elif name == "readonly":
        out = np.array(logical, order="C", copy=True)
        out.setflags(write=False)
    elif name == "readonly_fortran":
        out = np.asfortranarray(logical).copy(order="F")
        out.setflags(write=False)
    elif name == "series":
        import pandas as pd

        out = pd.Series(flat.copy(), index=rng.permutation(flat.size) + 1000)
    else:
        raise ValueError(name)
    assert np.array_equal(np.asarray(out).ravel(), flat)
    return name, out


def layout_class(name, shape):
    return ("1d_" if len(shape) == 1 else "2d_") + name
