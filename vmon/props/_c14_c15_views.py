"""
Argument aliasing shared by the C14 and C15 workloads: easting and northing handed over as column views of ONE common
table (the way a file loaded with np.loadtxt / a structured table is usually split), in every order and direction.
The views hold exactly the given values in the given order; only the memory they live in is shared.
"""
import numpy as np

KINDS = ["columns_0_1", "columns_1_0_northing_stored_first", "unpacked_transpose_northing_first", "reversed_rows", "columns_of_a_wider_table",
         "fortran_ordered_table", "fortran_ordered_table_northing_first", "last_axis_of_a_3d_table"]


def table_views(rng, east, north, kind=None):
    """Returns (easting view, northing view, kind, table). east/north: equal-shape float arrays (1-D, or 2-D for the 3-D table)."""
    east, north = np.asarray(east, dtype="float64"), np.asarray(north, dtype="float64")
    if kind is None:
        kind = KINDS[int(rng.integers(0, len(KINDS)))]
    if east.ndim != 1 and kind != "last_axis_of_a_3d_table":
        kind = "last_axis_of_a_3d_table"
    if east.ndim == 1 and kind == "last_axis_of_a_3d_table":
        kind = "columns_1_0_northing_stored_first"
    if kind == "columns_0_1":
        table = np.column_stack([east, north])
        views = table[:, 0], table[:, 1]
    elif kind == "columns_1_0_northing_stored_first":
        table = np.column_stack([north, east])
        views = table[:, 1], table[:, 0]
    elif kind == "unpacked_transpose_northing_first":
        table = np.column_stack([north, east])
        northing, easting = table.T
        views = easting, northing
    elif kind == "reversed_rows":
        table = np.column_stack([east[::-1], north[::-1]])
        views = table[::-1, 0], table[::-1, 1]
    elif kind == "columns_of_a_wider_table":
        table = np.column_stack([np.arange(east.size, dtype="float64"), north, np.full(east.size, -999.0), east])
        views = table[:, 3], table[:, 1]
    elif kind == "fortran_ordered_table":
        table = np.asfortranarray(np.column_stack([east, north]))
        views = table[:, 0], table[:, 1]
    elif kind == "fortran_ordered_table_northing_first":
        table = np.asfortranarray(np.column_stack([north, east]))
        views = table[:, 1], table[:, 0]
    else:
        table = np.stack([north, east], axis=-1)
        views = table[..., 1], table[..., 0]
    assert np.array_equal(views[0], east) and np.array_equal(views[1], north)
    return views[0], views[1], kind, table


def share_a_table(first, second):
    """Are the two arrays views of one common base array?"""
    return isinstance(first, np.ndarray) and isinstance(second, np.ndarray) and first.base is not None and first.base is second.base
