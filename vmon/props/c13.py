"""
C13 - regions, bounds and point-in-region tests are tight and consistent.

Postcondition monitors on check_region, get_region, inside, pad_region,
scatter_points, project_region, maxabs and (for the "every node lies inside the
requested region" clause) grid_coordinates. Nested uses are judged too: every
``fit`` calls get_region, every grid builder check_region.
"""
import collections
import warnings

import numpy as np

from .. import gen, ref

ID = "C13"
LEVEL = "exploration"
RULE = (
    "cases = calls of get_region / inside / pad_region / scatter_points / project_region / maxabs / check_region with seeded inputs: arrays of "
    "any shape (0-d, 1-D, 2-D, 3-D, lists, pandas Series), points exactly on each bound and one ulp beyond it, degenerate regions (W = E), "
    "scalar / tuple / negative pads, sizes 0..1000, integer seeds, monotone and non-monotone projections, invalid regions (W > E, S > N, wrong "
    "length) through every entry point, plus nested calls made by gridders, grid builders and block reductions. Non-trivial = at least one point "
    "on or within one ulp of a bound, or a degenerate region, or a non-monotone projection, or asymmetric pads, or NaN present (maxabs); "
    "distinct = hash of the arguments."
)
ASSUMPTIONS = [
    "the closed-box predicate, min/max and pads are recomputed with plain numpy comparisons / arithmetic (exact equality demanded)",
    "project_region is recomputed on an independently built 101x101 lattice; tolerance 1e-9 of the projected extent (node round-off)",
]
LEVEL_TEXT = (
    "Every return (or raise) of the listed functions produced by the workload, nested calls included, is compared with an exact numpy "
    "recomputation of the documented predicate / bounds; check_region is monitored in both directions (accepts exactly the valid regions). "
    "Held = no refutation among the monitored executions."
)
LEVEL_NOTE = "Trusted: numpy comparisons and min/max; sklearn's check_random_state only as the seed mechanism (reproducibility is compared run against run)."
TECHNIQUE = "runtime postcondition monitors (closed-box predicate, tight bounds, pad algebra, accept/reject equivalence of check_region) on every direct and nested call; seeded boundary-heavy workload"
FLOORS = {
    "quick": {"eval:inside": 600, "eval:get_region": 350, "eval:pad_region": 380, "eval:scatter_points": 600, "eval:project_region": 60,
              "eval:maxabs": 160, "eval:check_region": 2400, "eval:rejection": 900, "eval:grid_nodes_inside": 200, "distinct_nontrivial": 1300, "eval:arguments_unmodified": 5000, "class:get_region_wide_dtype": 40, "class:region_as_ndarray": 60, "class:inside_nan_coordinates": 70, "class:projection_polar": 12, "class:maxabs_masked_array": 40, "class:zero_stride_coordinates": 25, "class:project_zero_extent_region": 100, "class:concurrent_calls": 12},
    "thorough": {"eval:inside": 8000, "eval:get_region": 4500, "eval:check_region": 30000, "eval:rejection": 10000, "distinct_nontrivial": 15000},
}
JOBS = {"quick": 1, "thorough": 16}

CASE_TIMEOUT_S = 900
AMBIENT_FILES = ['test_coordinates.py', 'test_projections.py', 'test_base.py', 'test_synthetic.py', 'test_utils.py', 'test_blockreduce.py']


def plan(tier):
    if tier == "quick":
        return collections.OrderedDict(inside=80, get_region=60, pad=40, scatter=40, project=30, maxabs=40, reject=40, nodes=40, nested=12, threads=6)
    return collections.OrderedDict(inside=1200, get_region=900, pad=600, scatter=500, project=300, maxabs=600, reject=500, nodes=500, nested=150, threads=120, ambient=6)


def _valid_region(region):
    try:
        if len(region) != 4:
            return False
        w, e, s, n = region
        return not (w > e) and not (s > n)
    except Exception:  # noqa: BLE001
        return False


def _box(east, north, region):
    w, e, s, n = region
    east, north = np.asarray(east), np.asarray(north)
    return (east >= w) & (east <= e) & (north >= s) & (north <= n)


def install(tap, run):
    import verde.coordinates as vc
    import verde.projections as vp
    import verde.utils as vu

    def post_check_region(ev):
        region = ev.args["region"]
        run.evaluated("check_region")
        valid = _valid_region(region)
        if ev.exc is None and not valid:
            run.violation("check_region", "an invalid region was accepted", {"region": region}, key="accepted-invalid")
        elif ev.exc is not None and valid:
            run.violation("check_region", "a valid region was rejected: %r" % (ev.exc,), {"region": region}, key="rejected-valid")
        elif ev.exc is not None and not isinstance(ev.exc, ValueError):
            run.violation("check_region", "invalid region rejected with %s instead of ValueError" % type(ev.exc).__name__, {"region": region}, key="wrong-error")
        if ev.exc is not None:
            run.count("check_region:rejected")

    def post_get_region(ev):
        if ev.exc is not None:
            return
        coords = ev.args["coordinates"]
        east, north = np.asarray(coords[0]), np.asarray(coords[1])
        if east.size == 0 or east.dtype.kind not in "iuf" or north.dtype.kind not in "iuf":
            return
        if np.any(np.isnan(east.astype("float64"))) or np.any(np.isnan(north.astype("float64"))):
            run.count("skipped:get_region_nan")
            return
        run.evaluated("get_region")
        res = ev.result
        want = (east.min(), east.max(), north.min(), north.max())

        def same(a, b):  # exact in the coordinates' own arithmetic (int64 beyond 2**53 and long double do not fit float64)
            if np.asarray(b).dtype.kind in "iu":
                try:
                    return float(a).is_integer() and int(a) == int(b)
                except (TypeError, ValueError, OverflowError):
                    return False
            if np.asarray(b).dtype == np.longdouble:
                return bool(np.longdouble(a) == b)
            return float(a) == float(b)

        ok = len(res) == 4 and all(same(a, b) for a, b in zip(res, want))
        if east.dtype.kind in "iu" or east.dtype == np.longdouble:
            run.count("class:get_region_wide_dtype")
        if not ok:
            run.violation("get_region", "not the tight bounding box (W, E, S, N) of the first two coordinates",
                          {"easting": east, "northing": north, "result": list(res), "expected": list(want)}, key="get_region")
            return
        if not _box(east, north, res).all():
            run.violation("get_region", "a point is outside its own region", {"easting": east, "northing": north, "result": list(res)}, key="own-region")
        if len(coords) > 2 or east.ndim != 1:
            run.mark_nontrivial("get_region", east, north, len(coords))

    def post_inside(ev):
        if ev.exc is not None:
            return
        coords, region = ev.args["coordinates"], ev.args["region"]
        east, north = np.asarray(coords[0]), np.asarray(coords[1])
        run.evaluated("inside")
        res = ev.result
        want = _box(east, north, [float(v) for v in region])
        res_arr = np.asarray(res)
        problem = None
        if res_arr.dtype != bool:
            problem = "result dtype %s is not bool" % res_arr.dtype
        elif res_arr.shape != east.shape:
            problem = "result shape %s differs from the input shape %s" % (res_arr.shape, east.shape)
        elif not np.array_equal(res_arr, want):
            problem = "differs from the closed-box predicate W <= e <= E and S <= n <= N at %d element(s)" % int(np.count_nonzero(res_arr != want))
        if problem:
            run.violation("inside", problem, {"easting": east, "northing": north, "region": list(region), "result": res_arr, "expected": want}, key="inside:" + problem.split(" ")[0])
        w, e, s, n = (float(v) for v in region)
        ef, nf = east.astype("float64").ravel(), north.astype("float64").ravel()
        near = False
        for vals, lo, hi in ((ef, w, e), (nf, s, n)):
            for bound in (lo, hi):
                near = near or bool(np.any(np.abs(vals - bound) <= 4 * ref.EPS * max(abs(bound), np.finfo(float).tiny)))
        if near or w == e or s == n:
            run.mark_nontrivial("inside", east, north, list(region))
            run.count("class:inside_boundary_points")

    def post_pad(ev):
        if ev.exc is not None:
            return
        region, pad = ev.args["region"], ev.args["pad"]
        run.evaluated("pad_region")
        pn, pe = (pad, pad) if np.isscalar(pad) else (pad[0], pad[1])
        w, e, s, n = region
        want = (w - pe, e + pe, s - pn, n + pn)
        res = ev.result
        if len(res) != 4 or any(not (float(a) == float(b)) for a, b in zip(res, want)):
            run.violation("pad_region", "bounds not moved outwards by (pad_north, pad_east)",
                          {"region": list(region), "pad": pad, "result": list(res), "expected": list(want)}, key="pad")
        if not np.isscalar(pad) and pad[0] != pad[1]:
            run.mark_nontrivial("pad", list(region), list(pad))

    def post_scatter(ev):
        if ev.exc is not None:
            return
        a = ev.args
        region, size = a["region"], a["size"]
        run.evaluated("scatter_points")
        res = ev.result
        n_extra = 0 if a["extra_coords"] is None else np.atleast_1d(a["extra_coords"]).size
        problem = None
        if not isinstance(res, tuple) or len(res) != 2 + n_extra:
            problem = "expected a tuple of %d arrays" % (2 + n_extra)
        else:
            east, north = np.asarray(res[0]), np.asarray(res[1])
            if east.shape != (size,) or north.shape != (size,):
                problem = "expected %d points, got shapes %s %s" % (size, east.shape, north.shape)
            elif not _box(east, north, [float(v) for v in region[:4]]).all():
                problem = "scatter point outside the requested region"
            else:
                for k in range(n_extra):
                    extra = np.asarray(res[2 + k])
                    if extra.shape != east.shape or not (extra == np.atleast_1d(a["extra_coords"])[k]).all():
                        problem = "extra coordinate %d is not a constant array" % k
        if problem:
            run.violation("scatter_points", problem, {"region": list(region), "size": size, "random_state": repr(a["random_state"]),
                                                     "extra_coords": a["extra_coords"], "result": [np.asarray(r) for r in res]}, key="scatter:" + problem.split(" ")[0])

    def post_project_region(ev):
        if ev.exc is not None:
            return
        region, projection = ev.args["region"], ev.args["projection"]
        run.evaluated("project_region")
        w, e, s, n = (float(v) for v in region)
        ee, nn = np.meshgrid(ref.line_nodes(w, e, 100, False), ref.line_nodes(s, n, 100, False))
        pe, pn = projection(ee.ravel(), nn.ravel())
        want = (np.min(pe), np.max(pe), np.min(pn), np.max(pn))
        res = ev.result
        ext = max(want[1] - want[0], want[3] - want[2], abs(want[0]), abs(want[2]), np.finfo(float).tiny)
        tol = 1e-9 * ext
        if len(res) != 4 or any(abs(float(a) - float(b)) > tol for a, b in zip(res, want)):
            run.violation("project_region", "not the bounding box (W, E, S, N) of the projected 101x101 lattice of the region",
                          {"region": list(region), "result": [float(r) for r in res], "expected": [float(v) for v in want]}, key="project_region")
            return
        fe, fn = np.meshgrid(np.linspace(w, e, 1001), np.linspace(s, n, 1001))
        qe, qn = projection(fe.ravel(), fn.ravel())
        if res[0] < qe.min() - tol or res[1] > qe.max() + tol or res[2] < qn.min() - tol or res[3] > qn.max() + tol:
            run.violation("project_region", "projected region exceeds the box of a 1001x1001 sampling of the region",
                          {"region": list(region), "result": [float(r) for r in res]}, key="project_region_fine")

    def post_maxabs(ev):
        if ev.exc is not None:
            return
        arrays, nan = ev.args["args"], ev.args["nan"]
        run.evaluated("maxabs")
        def visible(a):  # the values of an array: for a masked array those that are not masked
            if isinstance(a, np.ma.MaskedArray):
                return np.asarray(np.ma.getdata(a), dtype="float64")[~np.ma.getmaskarray(a)]
            return np.asarray(a, dtype="float64").ravel()

        if any(isinstance(a, np.ma.MaskedArray) for a in arrays):
            run.count("class:maxabs_masked_array")
            if any(visible(a).size == 0 for a in arrays):
                return  # an entirely masked array has no values
        flat = np.concatenate([np.abs(visible(a)) for a in arrays])
        has_nan = bool(np.isnan(flat).any())
        if nan:
            if np.isnan(flat).all():
                return  # nothing but NaN: the largest absolute value is undefined
            want = np.nanmax(flat)  # NaN-aware: NaNs (even a whole array of them, in any position) are ignored
            if any(np.isnan(visible(a)).all() for a in arrays):
                run.count("class:maxabs_all_nan_array")
        else:
            want = np.max(flat)
        got = float(ev.result)
        same = (np.isnan(got) and np.isnan(want)) or got == float(want)
        if not same:
            run.violation("maxabs", "not the largest absolute value over all arrays (nan=%s)" % nan,
                          {"arrays": [np.asarray(a) for a in arrays], "nan": nan, "result": got, "expected": float(want)}, key="maxabs")
        if has_nan or len(arrays) > 1:
            run.mark_nontrivial("maxabs", [np.asarray(a) for a in arrays], nan)

    def post_grid(ev):
        if ev.exc is not None:
            return
        a = ev.args
        if not (a["shape"] is not None or a["adjust"] == "spacing"):
            return
        region = [float(v) for v in a["region"]]
        east, north = np.asarray(ev.result[0]), np.asarray(ev.result[1])
        if not a["meshgrid"]:
            east, north = np.meshgrid(east, north)
        run.evaluated("grid_nodes_inside")
        mine = _box(east, north, region)
        theirs = np.asarray(vc.inside((east, north), region))
        if not mine.all() or not theirs.all():
            run.violation("grid_nodes_inside", "grid_coordinates produced %d node(s) outside the requested region" % int(np.count_nonzero(~mine)),
                          {"region": region, "shape": a["shape"], "spacing": a["spacing"], "adjust": a["adjust"],
                           "pixel_register": a["pixel_register"], "easting": east, "northing": north}, key="node-outside")

    from .. import core

    def pre(ev):
        return (core.digest(ev.args), {k: (np.array(v, copy=True) if isinstance(v, np.ndarray) else v) for k, v in ev.args.items()})

    def pure(post):
        def wrapper(ev):
            digest_before, kept = ev.pre
            run.evaluated("arguments_unmodified")
            if core.digest(ev.args) != digest_before:
                run.violation("arguments_unmodified", "%s modified one of its arguments in place" % ev.name,
                              {"callable": ev.name, "arguments_before": kept, "arguments_after": dict(ev.args)}, key="purity:" + ev.name)
                ev.args = kept  # judge the result against what the caller passed
            post(ev)
        return wrapper

    tap.function(vc, "check_region", pre=pre, post=pure(post_check_region))
    tap.function(vc, "get_region", pre=pre, post=pure(post_get_region))
    tap.function(vc, "inside", pre=pre, post=pure(post_inside))
    tap.function(vc, "pad_region", pre=pre, post=pure(post_pad))
    tap.function(vc, "scatter_points", pre=pre, post=pure(post_scatter), documented={"random_state": None, "extra_coords": None})
    tap.function(vp, "project_region", pre=pre, post=pure(post_project_region))
    tap.function(vu, "maxabs", pre=pre, post=pure(post_maxabs), documented={"nan": True})
    tap.function(vc, "grid_coordinates", pre=pre, post=pure(post_grid),
                 documented={"shape": None, "spacing": None, "adjust": "spacing", "pixel_register": False, "extra_coords": None, "meshgrid": True})


# ----------------------------------------------------------------------
def _region(rng, degenerate_ok=True):
    scale = gen.log_uniform(rng, 1e-3, 1e6)
    off = float(rng.choice([0.0, 1.0, 1e3])) * scale * rng.normal(size=2)
    w = float(off[0] - rng.uniform(0, 1) * scale)
    s = float(off[1] - rng.uniform(0, 1) * scale)
    e = float(w + rng.uniform(0.05, 2) * scale)
    n = float(s + rng.uniform(0.05, 2) * scale)
    if degenerate_ok and rng.random() < 0.08:
        e = w
    if degenerate_ok and rng.random() < 0.08:
        n = s
    if rng.random() < 0.15:
        w, e, s, n = float(np.floor(w)), float(np.floor(w) + max(1, np.ceil(e - w))), float(np.floor(s)), float(np.floor(s) + max(1, np.ceil(n - s)))
    return [w, e, s, n]


def _shaped(rng, values):
    """Give a flat array one of many shapes / containers."""
    import pandas as pd

    kind = rng.integers(0, 7)
    size = values.size
    if kind == 0 or size < 2:
        return values
    if kind == 1:
        for rows in range(2, 9):
            if size % rows == 0:
                return values.reshape(rows, size // rows)
        return values
    if kind == 2:
        for rows in range(2, 6):
            if size % (rows * 2) == 0:
                return values.reshape(rows, 2, size // (rows * 2))
        return values
    if kind == 3:  # genuinely Fortran-ordered 2-D (or a transposed view): F-contiguous and not C-contiguous
        for rows in range(2, 9):
            if size % rows == 0 and size // rows > 1:
                c2d = values.reshape(rows, size // rows)
                return np.asfortranarray(c2d) if rng.random() < 0.5 else np.ascontiguousarray(c2d.T).T
        return values
    if kind == 4:
        return values[::-1].copy()[::-1]
    if kind == 5:
        return pd.Series(values, index=rng.permutation(size) + 5)
    ro = values.copy()
    ro.setflags(write=False)
    return ro


def _projections(rng, region=None):
    a, b = rng.uniform(0.5, 3, 2) * rng.choice([-1, 1], 2)
    c, d = rng.normal(size=2) * 10

    def affine(x, y):
        return a * x + c, b * y + d

    def shear(x, y):
        return x + 0.5 * y, y - 0.25 * x

    def cubic(x, y):
        return x ** 3 + x, np.arctan(y)

    def fold(x, y):  # non-monotone: the extreme values are in the interior
        return (x - x.mean()) ** 2, np.sin(3 * (y - y.min()) / max(np.ptp(y), 1e-300))

    def swirl(x, y):
        xm, ym = x - x.mean(), y - y.mean()
        r = np.hypot(xm, ym) / max(np.hypot(np.ptp(x), np.ptp(y)), 1e-300)
        return xm * np.cos(3 * r) - ym * np.sin(3 * r), xm * np.sin(3 * r) + ym * np.cos(3 * r)

    out = [("affine", affine, True), ("shear", shear, False), ("cubic", cubic, True), ("fold", fold, False), ("swirl", swirl, False)]
    if region is not None:
        # pointwise maps that fold the region and couple both coordinates: an extreme of a projected coordinate is reached
        # strictly inside the region, not on its border
        w, e, s, n = region
        cx, cy = w + rng.uniform(0.2, 0.8) * (e - w), s + rng.uniform(0.2, 0.8) * (n - s)
        sx, sy = max(e - w, 1e-300), max(n - s, 1e-300)

        def polar(x, y):
            return np.hypot((x - cx) / sx, (y - cy) / sy), np.arctan2((y - cy) / sy, (x - cx) / sx)

        def bowl(x, y):
            return ((x - cx) / sx) ** 2 + ((y - cy) / sy) ** 2, y

        def dome(x, y):
            return x, 1.0 - ((x - cx) / sx) ** 2 - ((y - cy) / sy) ** 2

        def orthographic(x, y):  # past the horizon: longitudes -100..100 mapped onto the region
            lon = np.radians(-100 + 200 * (x - w) / sx)
            lat = np.radians(-10 + 20 * (y - s) / sy)
            return np.cos(lat) * np.sin(lon), np.sin(lat)

        out += [("polar", polar, False), ("bowl", bowl, False), ("dome", dome, False), ("orthographic", orthographic, False)]
    return out


def run_case(run, tap, stream, index, rng):
    if stream == "ambient":
        from .. import core as _core

        return _core.ambient_tests(run, AMBIENT_FILES[index])
    import verde as vd
    import verde.coordinates as vc

    with warnings.catch_warnings():
        warnings.simplefilter("ignore")
        if stream == "inside":
            for _ in range(8):
                region = _region(rng)
                w, e, s, n = region
                k = int(rng.choice([1, 2, 6, 24, 120]))
                east = rng.uniform(w - 0.3 * (e - w) - 1e-9, e + 0.3 * (e - w) + 1e-9, k)
                north = rng.uniform(s - 0.3 * (n - s) - 1e-9, n + 0.3 * (n - s) + 1e-9, k)
                # plant boundary points: exactly on a bound, one ulp inside, one ulp outside
                for j in range(min(k, 8)):
                    which = rng.integers(0, 4)
                    bound = region[which]
                    val = [bound, np.nextafter(bound, np.inf), np.nextafter(bound, -np.inf)][rng.integers(0, 3)]
                    if which < 2:
                        east[j] = val
                    else:
                        north[j] = val
                if rng.random() < 0.35:  # undefined coordinates (survey gaps, points a projection cannot map): never inside
                    for arr in (east, north):
                        if rng.random() < 0.7:
                            arr[rng.random(k) < rng.choice([0.2, 0.6, 1.0])] = np.nan
                    if k >= 2 and rng.random() < 0.5:
                        east[0], north[0] = np.nan, 0.5 * (s + n)
                        east[1], north[1] = 0.5 * (w + e), np.nan
                    if np.isnan(east).any() or np.isnan(north).any():
                        run.count("class:inside_nan_coordinates")
                perm = rng.permutation(k)
                east, north = east[perm], north[perm]
                if k == 1 and rng.random() < 0.5:
                    ce, cn = np.array(east[0]), np.array(north[0])  # 0-d arrays
                elif rng.random() < 0.1:
                    ce, cn = list(east), list(north)
                else:
                    ce = _shaped(rng, east)
                    cn = np.asarray(north).reshape(np.shape(ce)) if not hasattr(ce, "index") else type(ce)(north, index=ce.index)
                    if isinstance(ce, np.ndarray) and ce.ndim == 2 and not ce.flags.c_contiguous:
                        run.count("class:inside_fortran_2d")
                coords = (ce, cn) if rng.random() < 0.7 else (ce, cn, ce)
                res = vd.inside(coords, [region, tuple(region), np.array(region)][int(rng.integers(0, 3))])
            run.sample("inside", {"region": region, "easting": np.asarray(ce), "northing": np.asarray(cn), "result": np.asarray(res)})
        elif stream == "get_region":
            for _ in range(8):
                k = int(rng.choice([1, 2, 7, 30, 200]))
                east, north = gen.cloud(rng, k, offset_factor=float(rng.choice([0, 1, 1e3]))) if k > 1 else (rng.normal(size=1), rng.normal(size=1))
                pick = rng.random()
                if pick < 0.2:
                    east = np.round(east).astype("int64")
                    north = np.round(north).astype("int32")
                elif pick < 0.3:  # integers that float64 cannot represent
                    east = (2 ** 53 + 1 + 2 * rng.integers(0, 50, k)).astype("int64") * int(rng.choice([-1, 1]))
                    north = (2 ** 62 + 1 + rng.integers(0, 1000, k)).astype("uint64")
                elif pick < 0.4:  # extended precision
                    east = np.longdouble(1) + np.arange(1, k + 1).astype(np.longdouble) * np.finfo(np.longdouble).eps * int(rng.integers(1, 7))
                    north = east[::-1] * np.longdouble(3)
                ce = _shaped(rng, east)
                cn = np.asarray(north).reshape(np.shape(ce)) if not hasattr(ce, "index") else type(ce)(north, index=ce.index)
                if pick >= 0.4 and k > 1 and rng.random() < 0.3:
                    # zero-stride views (numpy.meshgrid(copy=False), numpy.broadcast_to, a constant broadcast from a scalar): the two
                    # arrays have the same shape but not the same memory layout
                    e1, n1 = np.unique(east)[: int(rng.integers(2, 7))], np.unique(north)[: int(rng.integers(2, 6))]
                    form = int(rng.integers(0, 4))
                    if form == 0:
                        ce, cn = np.meshgrid(e1, n1, copy=False)
                    elif form == 1:
                        ce, cn = np.broadcast_arrays(e1[np.newaxis, :], n1[:, np.newaxis])
                    elif form == 2:
                        ce, cn = np.broadcast_to(e1[0], (n1.size, e1.size)), np.ascontiguousarray(np.add.outer(n1, e1 * 1e-3))
                    else:
                        ce, cn = np.ascontiguousarray(np.add.outer(n1 * 1e-3, e1)), np.broadcast_to(n1[:, np.newaxis], (n1.size, e1.size))
                    run.count("class:zero_stride_coordinates")
                coords = (ce, cn) if rng.random() < 0.6 else (ce, cn, np.asarray(ce) * 0 + 7)
                region = vd.get_region(coords)
                if np.asarray(coords[0]).dtype.kind in "iu" and np.abs(np.asarray(coords[0], dtype="float64")).max() > 2 ** 52 or np.asarray(coords[0]).dtype == np.longdouble:
                    continue  # the comparison arithmetic of `inside` itself is only float64-exact
                inside = vd.inside(coords[:2], region)
                run.evaluated("own_region")
                if not np.all(np.asarray(inside)):
                    run.violation("own_region", "a point is not inside the region returned by get_region for it",
                                  {"easting": np.asarray(ce), "northing": np.asarray(cn), "region": list(region), "inside": np.asarray(inside)}, key="own-region")
            run.sample("get_region", {"easting": np.asarray(ce), "northing": np.asarray(cn), "region": [float(r) for r in region]})
        elif stream == "pad":
            for _ in range(12):
                region = _region(rng)
                scale = max(region[1] - region[0], region[3] - region[2], 1e-6)
                mode = rng.integers(0, 4)
                if mode == 0:
                    pad = float(rng.uniform(0, 1) * scale)
                elif mode == 1:
                    pad = (float(rng.uniform(0, 1) * scale), float(rng.uniform(0, 1) * scale))
                elif mode == 2:
                    pad = (float(-rng.uniform(0, 0.2) * (region[3] - region[2])), float(rng.uniform(0, 1) * scale))
                else:
                    region = [float(np.round(v)) for v in region]
                    region[1] = max(region[1], region[0] + 1)
                    region[3] = max(region[3], region[2] + 1)
                    region = [int(v) for v in region]
                    pad = (int(rng.integers(0, 50)), int(rng.integers(0, 50)))
                given = region
                if mode != 3 and rng.random() < 0.5:  # the region as a float64 ndarray (or a row view of a table of regions), reused below
                    table = np.array([region, region], dtype="float64")
                    given = table[1] if rng.random() < 0.5 else np.array(region, dtype="float64")
                    run.count("class:region_as_ndarray")
                padded = vd.pad_region(given, pad)
                if given is not region:
                    padded_again = vd.pad_region(given, pad)  # same object, second call
                    if tuple(float(v) for v in padded_again) != tuple(float(v) for v in padded):
                        run.violation("pad_roundtrip", "two identical pad_region calls on the same region array differ", {"region": region, "pad": pad, "first": list(padded), "second": list(padded_again)}, key="pad-repeat")
                back = vd.pad_region(padded, -pad if np.isscalar(pad) else (-pad[0], -pad[1]))
                run.evaluated("pad_roundtrip")
                if mode == 3:
                    ok = all(a == b for a, b in zip(back, region))
                else:
                    ok = all(abs(a - b) <= 4 * ref.EPS * max(abs(a), abs(b), abs(p), 1e-300) for a, b, p in zip(back, region, padded))
                if not ok:
                    run.violation("pad_roundtrip", "the opposite pad does not restore the region", {"region": region, "pad": pad, "padded": list(padded), "back": list(back)}, key="pad-roundtrip")
                if mode != 2 and not (padded[0] <= region[0] and padded[1] >= region[1] and padded[2] <= region[2] and padded[3] >= region[3]):
                    run.violation("pad_roundtrip", "a positive pad moved a bound inwards", {"region": region, "pad": pad, "padded": list(padded)}, key="pad-inwards")
            run.sample("pad", {"region": region, "pad": pad, "padded": [float(v) for v in padded]})
        elif stream == "scatter":
            for _ in range(8):
                region = _region(rng)
                size = int(rng.choice([0, 1, 2, 17, 300, 1000]))
                seed = int(rng.integers(0, 2 ** 31 - 1))
                extra = None if rng.random() < 0.5 else ([float(rng.normal())] if rng.random() < 0.5 else [1.5, -2.0])
                first = vd.scatter_points(region, size, random_state=seed, extra_coords=extra)
                second = vd.scatter_points(region, size, random_state=seed, extra_coords=extra)
                other = vd.scatter_points(region, size, random_state=seed + 1, extra_coords=extra)
                rs = vd.scatter_points(region, size, random_state=np.random.RandomState(seed), extra_coords=extra)
                run.evaluated("scatter_reproducible")
                same = all(np.array_equal(a, b) for a, b in zip(first, second)) and all(np.array_equal(a, b) for a, b in zip(first, rs))
                if not same:
                    run.violation("scatter_reproducible", "scatter_points is not reproducible for a fixed seed", {"region": region, "size": size, "seed": seed}, key="scatter-repro")
                if size >= 17 and region[1] > region[0] and np.array_equal(first[0], other[0]):
                    run.violation("scatter_reproducible", "scatter_points ignores the seed (two seeds, same points)", {"region": region, "size": size, "seed": seed}, key="scatter-seed-ignored")
                if size > 0:
                    run.mark_nontrivial("scatter", region, size, seed, extra)
            run.sample("scatter", {"region": region, "size": size, "seed": seed, "easting_head": first[0][:5]})
        elif stream == "project":
            region0 = _region(rng, degenerate_ok=False)
            # a meridian or parallel segment (exactly one zero-extent dimension), and a single point
            w0, e0, s0, n0 = region0
            for seg in ([w0, w0, s0, n0], [w0, e0, n0, n0], [e0, e0, s0, s0]):
                for name, proj, _ in _projections(rng, None)[:3]:
                    vd.project_region(seg, proj)
                    run.count("class:project_zero_extent_region")
            for name, proj, monotone in _projections(rng, region0):
                region = region0 if name in ("polar", "bowl", "dome", "orthographic") else _region(rng, degenerate_ok=False)
                res = vd.project_region(region, proj)
                run.count("class:projection_" + name)
                if monotone:
                    w, e, s, n = region
                    ce, cn = proj(np.array([w, e, w, e]), np.array([s, s, n, n]))
                    want = (ce.min(), ce.max(), cn.min(), cn.max())
                    ext = max(want[1] - want[0], want[3] - want[2], 1e-300)
                    run.evaluated("project_corners")
                    if any(abs(a - b) > 1e-9 * max(ext, abs(b)) for a, b in zip(res, want)):
                        run.violation("project_corners", "monotone projection: projected region differs from the box of the projected corners",
                                      {"region": region, "projection": name, "result": [float(v) for v in res], "expected": [float(v) for v in want]}, key="project-corners")
                else:
                    run.mark_nontrivial("project", region, name)
            run.sample("project", {"region": region, "projection": name, "result": [float(v) for v in res]})
        elif stream == "maxabs":
            for _ in range(10):
                k = int(rng.integers(1, 4))
                arrays = []
                for _ in range(k):
                    shape = tuple(int(v) for v in rng.integers(1, 6, size=int(rng.integers(0, 4))))
                    arr = rng.normal(size=shape) * gen.log_uniform(rng, 1e-3, 1e6)
                    if rng.random() < 0.3 and arr.size > 1:
                        arr = np.array(arr)
                        arr.ravel()[int(rng.integers(0, arr.size))] = np.nan
                    if rng.random() < 0.12:
                        arr = np.full(arr.shape, np.nan)  # an entirely blank array, in any position
                    if rng.random() < 0.2:
                        arr = -np.abs(arr)
                    if rng.random() < 0.15 and not np.isnan(arr).any():
                        arr = np.round(arr).astype("int64")
                    if rng.random() < 0.25 and np.size(arr) > 1 and not np.isnan(np.asarray(arr, dtype="float64")).any():
                        # a masked array (blanked grid nodes): what is stored under the mask - a huge fill value, inf, NaN - is not a value
                        arr = np.array(arr, dtype="float64")
                        hide = rng.random(arr.shape) < 0.4
                        hide.ravel()[int(rng.integers(0, arr.size))] = True
                        hide.ravel()[int(rng.integers(0, arr.size))] = False
                        arr[hide] = float(rng.choice([-9999.0, 1e20, np.inf, np.nan, -1e300]))
                        arr = np.ma.MaskedArray(arr, mask=hide)
                    arrays.append(arr if rng.random() < 0.8 or isinstance(arr, np.ma.MaskedArray) else arr.tolist())
                has_nan = any(np.isnan(np.asarray(np.ma.filled(a, 0.0) if isinstance(a, np.ma.MaskedArray) else a, dtype="float64")).any() for a in arrays)
                with np.errstate(all="ignore"):
                    res = vd.maxabs(*arrays) if rng.random() < 0.6 else vd.maxabs(*arrays, nan=False)
                    if len(arrays) > 1:  # the answer cannot depend on the order of the arguments
                        rev = vd.maxabs(*arrays[::-1], nan=True)
                        fwd = vd.maxabs(*arrays, nan=True)
                        run.evaluated("maxabs_order")
                        if not ((np.isnan(rev) and np.isnan(fwd)) or rev == fwd):
                            run.violation("maxabs_order", "maxabs depends on the order of its arguments", {"arrays": [np.asarray(a) for a in arrays], "forward": float(fwd), "reversed": float(rev)}, key="maxabs-order")
            run.sample("maxabs", {"arrays": [np.asarray(a) for a in arrays], "result": float(res)})
        elif stream == "threads":
            # concurrent calls in one process (thread pool, dask threaded scheduler): each call is judged on its own by the monitors;
            # scratch space kept at module level would let one call see another's intermediate results
            from .. import core as _core

            nthreads = int(rng.choice([2, 3, 4]))
            size = int(rng.choice([500, 20000, 400000]))
            shape = (size,) if rng.random() < 0.6 else (int(size // 100) or 1, 100)
            jobs = []
            for k in range(nthreads):
                sub = np.random.default_rng(int(rng.integers(0, 2 ** 31)))
                reg = [float(-1 - k), float(2 + 0.5 * k), float(10 * k), float(10 * k + 3)]
                east = sub.uniform(reg[0] - 1, reg[1] + 1, shape)
                north = sub.uniform(reg[2] - 1, reg[3] + 1, shape)

                def job(east=east, north=north, reg=reg, seed=int(sub.integers(0, 10 ** 6))):
                    vd.inside((east, north), reg)
                    vd.get_region((east, north))
                    vd.pad_region(reg, (0.5, 0.25))
                    vd.scatter_points(reg, 50, random_state=seed)
                    vd.grid_coordinates(reg, shape=(7, 9))
                    return vd.maxabs(east, north)
                jobs.append(job)
            results = _core.run_threads(jobs, rounds=int(4 if size > 100000 else 25), yield_probability=0.25 if index % 2 == 0 else 0.0, seed=index)
            run.count("yields_injected", getattr(_core.run_threads, "yields_injected", 0) - run.counters.get("yields_injected", 0))
            for res, exc in results:
                if isinstance(exc, TimeoutError):
                    run.note_inconclusive("threads: %r" % (exc,))
                elif exc is not None:
                    run.violation("threads", "a call raised %r when made concurrently from %d threads" % (exc, nthreads), {"size": size}, key="threads-raised")
            run.count("class:concurrent_calls", len(jobs))
            run.sample("threads", {"threads": nthreads, "shape": shape})
        elif stream == "reject":
            _reject(run, rng, vd)
        elif stream == "nodes":
            for _ in range(8):
                region = _region(rng, degenerate_ok=True)
                w, e, s, n = region
                kw = {"pixel_register": bool(rng.random() < 0.5)}
                if rng.random() < 0.5:
                    kw["shape"] = (int(rng.integers(1, 25)), int(rng.integers(1, 25)))
                else:
                    base = max(e - w, n - s) or 1.0
                    kw["spacing"] = float(base / rng.uniform(0.3, 30)) if rng.random() < 0.5 else (float((n - s or base) / rng.uniform(0.3, 30)), float((e - w or base) / rng.uniform(0.3, 30)))
                vd.grid_coordinates(region, **kw)
                size = int(rng.integers(1, 200))
                pts = vd.scatter_points(region, size, random_state=int(rng.integers(0, 10 ** 6)))
                ins = vd.inside(pts, region)
                run.evaluated("scatter_inside")
                if not np.all(ins):
                    run.violation("scatter_inside", "verde.inside rejects a point produced by scatter_points for the same region", {"region": region, "points": list(pts)}, key="scatter-inside")
                run.mark_nontrivial("nodes", region, kw)
            run.sample("nodes", {"region": region, "kwargs": kw})
        elif stream == "nested":
            npts = int(rng.integers(20, 120))
            east, north = gen.cloud(rng, npts)
            data = gen.smooth_field(rng, east, north, amplitude=5.0)
            for est in (vd.Trend(1), vd.KNeighbors(), vd.Linear(), vd.Spline(damping=1e-3), vd.Chain([("t", vd.Trend(1)), ("k", vd.KNeighbors())])):
                est.fit((east, north), data)
                est.grid(shape=(5, 7))
            vd.BlockReduce(np.median, spacing=(east.max() - east.min()) / 4).filter((east, north), data)
            cb = vd.synthetic.CheckerBoard(region=_region(rng, degenerate_ok=False))
            cb.scatter(size=20, random_state=1)
            cb.grid(shape=(4, 6))
            run.count("nested_batches")


def _reject(run, rng, vd):
    """Invalid regions must be rejected through every entry point that takes a region."""
    import verde.coordinates as vc

    pts = (rng.uniform(0, 1, 10), rng.uniform(0, 1, 10))
    cases = []
    for _ in range(6):
        w, e, s, n = _region(rng, degenerate_ok=False)
        kind = rng.integers(0, 4)
        if kind == 0:
            bad = [e, w, s, n]
        elif kind == 1:
            bad = [w, e, n, s]
        elif kind == 2:
            bad = [w, e, s]
        else:
            bad = [w, e, s, n, 0.0]
        cases.append(bad)
    w, e, s, n = _region(rng, degenerate_ok=False)
    # both pairs inverted at once; one pair inverted with the other degenerate; inverted by one ulp with the other degenerate
    cases += [[e, w, n, s], [e, w, s, s], [w, w, n, s], [np.nextafter(w, np.inf), w, s, s], [-1.0, -2.0, -3.0, -4.0], (5, 1, 5, 1), np.array([5.0, 1.0, 3.0, 3.0])]
    cases += [[w, e, s, n, 0.0, 1.0], [w, e, s, n, 5.0, 2.0], [w, e, s, n, 0.0, 1.0, -1.0, 1.0], [w, e], np.array([w, e, s, n, 0.0, 1.0]), (w, e, s, n, 1.0, 2.0, 3.0)]
    cases.append([np.nextafter(1.0, 2.0), 1.0, 0.0, 1.0])  # W one ulp above E
    cases.append([0.0, 1.0, 1.0, np.nextafter(1.0, 0.0)])  # S one ulp above N
    entries = {
        "check_region": lambda r: vc.check_region(r),
        "inside": lambda r: vd.inside(pts, r),
        "scatter_points": lambda r: vd.scatter_points(r, 5, random_state=0),
        "grid_coordinates": lambda r: vd.grid_coordinates(r, shape=(3, 3)),
        "grid_coordinates_spacing": lambda r: vd.grid_coordinates(r, spacing=max(abs(float(r[1]) - float(r[0])), abs(float(r[-1]) - float(r[-2])), 1e-9) / 3),
        "BaseGridder.grid": lambda r: vd.Trend(1).fit(pts, pts[0]).grid(region=r, shape=(3, 3)),
        "CheckerBoard.region_": lambda r: vd.synthetic.CheckerBoard(region=r).region_,
        "project_region": lambda r: vd.project_region(r, lambda x, y: (x, y)),
        "pad_then_grid": lambda r: vd.grid_coordinates(vd.pad_region(r, 0.0) if len(r) == 4 else r, shape=(2, 2)),
    }
    for bad in cases:
        for name, call in entries.items():
            run.evaluated("rejection")
            try:
                call(bad)
            except ValueError:
                run.count("rejected:" + name)
                continue
            except Exception as exc:  # noqa: BLE001 - any error is a refusal; note the type
                run.count("rejected_other:%s:%s" % (name, type(exc).__name__))
                continue
            run.violation("rejection", "%s accepted the invalid region %r" % (name, bad), {"entry": name, "region": bad}, key="accept:" + name)
        run.mark_nontrivial("reject", bad)
    # valid degenerate and ordinary regions must be accepted
    for good in ([0.0, 0.0, 1.0, 1.0], [-3, 5, -7, -7], _region(rng)):
        run.evaluated("rejection")
        try:
            vc.check_region(good)
            vd.inside(pts, good)
        except Exception as exc:  # noqa: BLE001
            run.violation("rejection", "valid region %r rejected: %r" % (good, exc), {"region": good}, key="reject-valid")
