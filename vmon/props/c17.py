"""
C17 - longitude_continuity yields a valid region with unchanged angular meaning.

A postcondition monitor on ``verde.coordinates.longitude_continuity`` decides
every return / raise with exact modular arithmetic, then applies verde's own
``inside`` to what was returned and compares with the angular predicate.
The 5-degree lattice named in the property is enumerated completely.
"""
import collections
from fractions import Fraction

import numpy as np

ID = "C17"
LEVEL = "exploration"
RULE = (
    "cases = longitude_continuity calls: EXHAUSTIVELY all (W, E) on the 5-degree lattice of [-180, 360]^2 with |E - W| <= 360, each with the "
    "whole 5-degree longitude lattice as coordinates (plus latitudes); seeded random off-lattice (W, E) and longitudes incl. values planted on and "
    "next to the bounds and the 0/180/360 seams; call forms (no coordinates, empty, lists, 2-D arrays, extra coordinates, integer dtypes); invalid "
    "regions / coordinates (outside [-180, 360] x [-90, 90], more than one turn). Non-trivial = the arc crosses 0/360 or +-180, or a bound lies on "
    "0 / 180 / 360, or zero width, or full globe; distinct = hash of (W, E)."
)
ASSUMPTIONS = [
    "an arc is representable if W mod 360 + width <= 360 or ((W + 180) mod 360) - 180 + width <= 180; non-representable arcs are outside the statement and only counted",
    "widths within 0.01 degree of, but not equal to, a full circle are excluded (the documented full-globe test is approximate)",
    "off-lattice: congruences compared with tolerance 1e-9 degree; longitudes within 1e-9 degree of a bound are either-way for the inside() clause",
]
LEVEL_TEXT = (
    "Every longitude_continuity return or raise in the workload is decided by exact modular arithmetic (W' <= E', width, congruence of bounds "
    "and longitudes, convention of the returned longitudes, latitudes untouched, verde.inside on the returned values == angular membership, invalid "
    "input rejected). The 5-degree lattice of the property is enumerated completely (evidence: lattice size/done); off-lattice inputs are sampled. "
    "Held = no refutation among the monitored executions."
)
LEVEL_NOTE = "Trusted: Python float modulo (exact on the lattice), fractions for the width/representability decision off-lattice."
TECHNIQUE = "runtime postcondition monitor with an exact modular-arithmetic oracle plus verde.inside applied to the returned values; exhaustive 5-degree lattice + seeded off-lattice and rejection workload"
FLOORS = {
    "quick": {"eval:region": 12000, "eval:longitudes": 12000, "eval:inside": 12000, "eval:rejection": 300, "distinct_nontrivial": 2500, "eval:forms": 40, "class:longitude_subset_calls": 8000, "class:mixed_dtype_coordinates": 40, "class:point_spelling_python": 150, "class:point_spelling_zero_d": 150, "class:invalid_value_among_undefined": 15, "class:all_zero_coordinates": 80, "class:region_in_read_only_array": 40, "class:same_object_longitude_and_latitude": 80, "class:concurrent_calls": 1000},
    "thorough": {"eval:region": 40000, "eval:longitudes": 40000, "eval:inside": 40000, "eval:rejection": 3000, "distinct_nontrivial": 20000},
}
JOBS = {"quick": 1, "thorough": 16}
LATTICE = list(range(-180, 361, 5))

CASE_TIMEOUT_S = 900
AMBIENT_FILES = ['test_coordinates.py']


def plan(tier):
    if tier == "quick":
        return collections.OrderedDict(lattice=len(LATTICE), random=60, invalid=30, forms=20, threads=4)
    return collections.OrderedDict(lattice=len(LATTICE), half_lattice=len(LATTICE), random=2500, invalid=600, forms=300, threads=80, ambient=1)


# ----------------------------------------------------------------------
def _mod360(x):
    return Fraction(x) % 360


def _arc(w, e):
    """(width, representable, full_globe, near_full) for float bounds, exact."""
    fw, fe = Fraction(float(w)), Fraction(float(e))
    full = abs(fe - fw) == 360
    width = Fraction(360) if full else (fe - fw) % 360
    near_full = (not full) and (abs(abs(fe - fw) - 360) < Fraction(1, 100) or Fraction(360) - width < Fraction(1, 100))
    w360 = fw % 360
    w180 = ((fw + 180) % 360) - 180
    representable = full or (w360 + width <= 360) or (w180 + width <= 180)
    return width, representable, full, near_full


def _valid_region(w, e, s, n):
    return (-180 <= w <= 360) and (-180 <= e <= 360) and (-90 <= s <= 90) and (-90 <= n <= 90) and abs(e - w) <= 360


def _congruent(a, b, tol):
    d = (float(a) - float(b)) % 360.0
    return min(d, 360.0 - d) <= tol


def install(tap, run):
    import verde.coordinates as vc

    def post(ev):
        coords, region = ev.args["coordinates"], ev.args["region"]
        try:
            w, e, s, n = (float(v) for v in region[:4])
        except Exception:  # noqa: BLE001
            return
        has_coords = bool(coords) if not isinstance(coords, np.ndarray) else coords.size > 0
        valid = _valid_region(w, e, s, n)
        lon_in = lat_in = None
        if has_coords:
            lon_in = np.asarray(coords[0], dtype="float64")
            lat_in = np.asarray(coords[1], dtype="float64")
            # a value outside the ranges makes the call invalid whatever else the arrays hold (NaN is neither in nor out of range)
            valid_coords = not bool(np.any(lon_in > 360) or np.any(lon_in < -180) or np.any(lat_in > 90) or np.any(lat_in < -90))
            if valid_coords and valid and (np.isnan(lon_in).any() or np.isnan(lat_in).any()):
                run.count("skipped:undefined_coordinates_in_range_otherwise")  # outside the quantifier (longitude arrays in [-180, 360])
                return
        else:
            valid_coords = True
        witness = {"region": [w, e, s, n], "coordinates": None if not has_coords else [np.asarray(c) for c in coords]}
        if not (valid and valid_coords):
            run.evaluated("rejection")
            if ev.exc is None:
                run.violation("rejection", "region/coordinates outside the accepted degree ranges were not rejected", dict(witness, result=repr(ev.result)[:300]), key="not-rejected")
            else:
                run.count("rejected:" + type(ev.exc).__name__)
            return
        width, representable, full, near_full = _arc(w, e)
        if near_full:
            run.count("skipped:near_full_circle")
            return
        if not representable:
            run.count("skipped:not_representable")
            return
        lattice = all(float(v) == round(float(v)) for v in (w, e)) and (lon_in is None or bool(np.all(lon_in == np.round(lon_in))))
        tol = 0.0 if lattice else 1e-9
        if ev.exc is not None:
            run.evaluated("region")
            run.violation("region", "valid representable region raised %r" % (ev.exc,), witness, key="raised:" + type(ev.exc).__name__)
            return
        if has_coords:
            if not (isinstance(ev.result, tuple) and len(ev.result) == 2):
                run.evaluated("longitudes")
                run.violation("longitudes", "coordinates were given but the call returned only %s (no coordinates)" % type(ev.result).__name__, dict(witness, result=repr(ev.result)[:300]), key="lon:not-returned")
                return
            new_coords, new_region = ev.result
        else:
            new_coords, new_region = None, ev.result
        new_region = np.asarray(new_region)
        witness["returned_region"] = new_region
        run.evaluated("region")
        nw, ne_, ns, nn = (float(v) for v in new_region[:4])
        problem = None
        if new_region.shape[0] != len(region):
            problem = "returned region has %d entries for %d given" % (new_region.shape[0], len(region))
        elif not nw <= ne_:
            problem = "W' > E' (%r > %r)" % (nw, ne_)
        elif abs((ne_ - nw) - float(width)) > tol:
            problem = "width %r differs from the eastward angle from W to E = %r" % (ne_ - nw, float(width))
        elif full and (nw != 0 or ne_ != 360):
            problem = "full-globe input did not become [0, 360]"
        elif not full and not (_congruent(nw, w, tol) and _congruent(ne_, e, tol)):
            problem = "returned bounds are not congruent to the inputs modulo 360"
        elif ns != s or nn != n:
            problem = "latitude bounds changed"
        if problem:
            run.violation("region", problem, witness, key="region:" + problem.split(" ")[0])
            return
        wf, ef = Fraction(w) % 360, Fraction(e) % 360
        crossing = (not full) and (Fraction(w) % 360 + width > 360 or w > e)
        on_seam = any(v in (0, 180) for v in (wf, ef))
        if crossing or on_seam or width == 0 or full:
            run.mark_nontrivial("arc", w, e)
        for name, flag in (("crossing", crossing), ("bound_on_seam", on_seam), ("zero_width", width == 0), ("full_globe", full)):
            if flag:
                run.count("class:" + name)
        if not has_coords:
            return
        new_coords = np.asarray(new_coords)
        witness["returned_coordinates"] = new_coords
        lon_out = np.asarray(new_coords[0], dtype="float64")
        run.evaluated("longitudes")
        problem = None
        if lon_out.shape != lon_in.shape:
            problem = "returned longitudes have shape %s for input %s" % (lon_out.shape, lon_in.shape)
        else:
            d = (lon_out - lon_in) % 360.0
            if np.any(np.minimum(d, 360.0 - d) > tol):
                problem = "a returned longitude is not congruent to its input modulo 360"
            elif nw >= 0 and np.any((lon_out < 0) | (lon_out > 360)):
                problem = "returned region is in the [0, 360] convention but a longitude is outside [0, 360]"
            elif nw < 0 and np.any((lon_out < -180) | (lon_out > 180)):
                problem = "returned region is in the [-180, 180] convention but a longitude is outside [-180, 180]"
            elif not np.array_equal(np.asarray(new_coords[1], dtype="float64"), lat_in, equal_nan=True):
                problem = "latitudes changed"
            else:
                for k in range(2, len(coords)):
                    if not np.array_equal(np.asarray(new_coords[k], dtype="float64"), np.asarray(coords[k], dtype="float64")):
                        problem = "extra coordinate %d changed" % k
        if problem:
            run.violation("longitudes", problem, witness, key="lon:" + problem.split(" ")[0])
            return
        # verde.inside on the returned values == angular membership in the original arc
        run.evaluated("inside")
        got = np.asarray(vc.inside((lon_out, np.asarray(new_coords[1], dtype="float64")), [nw, ne_, ns, nn]))
        ang = (lon_in - w) % 360.0
        lat_ok = (lat_in >= s) & (lat_in <= n)
        if full:
            want = lat_ok
            unsure = np.zeros(lon_in.shape, bool)
        else:
            fwidth = float(width)
            want = (ang <= fwidth) & lat_ok
            if tol:
                unsure = (np.abs(ang - fwidth) < 1e-9) | (ang < 1e-9) | (360.0 - ang < 1e-9)
            else:
                unsure = np.zeros(lon_in.shape, bool)
        bad = (got != want) & ~unsure
        run.count("either_way:longitude_on_bound", int(np.count_nonzero(unsure)))
        if bad.any():
            k = int(np.flatnonzero(bad.ravel())[0])
            witness["first_bad"] = {"index": k, "longitude_in": float(lon_in.ravel()[k]), "longitude_out": float(lon_out.ravel()[k]),
                                    "inside": bool(got.ravel()[k]), "angularly_inside": bool(want.ravel()[k])}
            run.violation("inside", "%d longitude(s): inside(returned) disagrees with angular membership in the original arc" % int(np.count_nonzero(bad)),
                          witness, key="inside")

    tap.function(vc, "longitude_continuity", post=post)


# ----------------------------------------------------------------------
def run_case(run, tap, stream, index, rng):
    if stream == "ambient":
        from .. import core as _core

        return _core.ambient_tests(run, AMBIENT_FILES[index])
    import verde as vd

    if stream in ("lattice", "half_lattice"):
        shift = 0.0 if stream == "lattice" else 2.5
        w = LATTICE[index] + shift
        if w > 360:
            return
        lons = np.array([v + s for v in LATTICE for s in ((0.0,) if stream == "lattice" else (0.0, 2.5)) if v + s <= 360] + [-0.0], dtype="float64")  # negative zero too (negated degrees West)
        lats = np.linspace(-90, 90, lons.size)
        done = 0
        for e0 in LATTICE:
            e = e0 + shift
            if e > 360 or abs(e - w) > 360:
                continue
            s, n = (-90.0, 90.0) if (done % 3 == 0) else (-20.0, 35.0)
            region = [w, e, s, n] if done % 2 else [int(w) if shift == 0 else w, int(e) if shift == 0 else e, int(s), int(n)]
            # the container of the longitudes varies: float64, integer longitudes with fractional latitudes, float32 longitudes
            lon_arg = lons if done % 4 else (lons.astype("int64") if shift == 0 else lons.astype("float32"))
            try:
                vd.longitude_continuity([lon_arg, lats], region)
                # what happens to one longitude must not depend on which other longitudes are in the same array:
                # only non-negative values, only values <= 180, and (for some pairs) the seam values alone
                subsets = [lons >= 0, lons <= 180]
                if e0 % 15 == 0:
                    subsets += [lons == 360, lons == 180, lons == -180, lons == 0, (lons == 0) | (lons == 360)]
                for mask in subsets:
                    if mask.any():
                        vd.longitude_continuity([lons[mask], lats[mask], lats[mask] * 0.5 + 0.25], region)
                        run.count("class:longitude_subset_calls")
            except ValueError:
                run.count("raised_on_lattice")
            done += 1
        total = sum(1 for a in LATTICE for b in LATTICE if abs(a - b) <= 360 and a + shift <= 360 and b + shift <= 360)
        run.exhaustive.setdefault("five_degree_lattice" if stream == "lattice" else "two_and_a_half_degree_offset_lattice",
                                  {"size": total, "done": 0})["done"] += done
        if index == 38:
            run.sample(stream, {"W": w, "E_values": "all lattice E with |E-W| <= 360", "longitudes": lons})
    elif stream == "random":
        for _ in range(25):
            mode = rng.integers(0, 4)
            w = float(rng.uniform(-180, 360))
            if mode == 0:
                e = float(rng.uniform(max(-180, w - 360), min(360, w + 360)))
            elif mode == 1:  # east bound on / next to a seam
                e = float(rng.choice([0.0, 180.0, 360.0, -180.0]))
                e = float(np.clip(e + rng.choice([0.0, 0.0, 1e-7, -1e-7, 0.5]), -180, 360))
            elif mode == 2:  # west on a seam
                w = float(rng.choice([0.0, 180.0, 360.0, -180.0]))
                e = float(rng.uniform(max(-180, w - 360), min(360, w + 360)))
            else:  # narrow or zero-width arcs
                e = float(np.clip(w + rng.choice([0.0, 1e-3, 1.0]), -180, 360))
            if abs(e - w) > 360:
                continue
            s, n = sorted(float(v) for v in rng.uniform(-90, 90, 2))
            k = int(rng.integers(1, 60))
            lons = rng.uniform(-180, 360, k)
            plant = [w, e, 0.0, 180.0, -180.0, 360.0, np.nextafter(w, 400), np.nextafter(e, -400)]
            for j in range(min(k, len(plant))):
                lons[j] = float(np.clip(plant[j], -180, 360))
            lons = rng.permutation(lons)
            lats = rng.uniform(-90, 90, k)
            try:
                vd.longitude_continuity((lons, lats), (w, e, s, n))
            except ValueError:
                run.count("raised_random")  # judged by the monitor
        run.sample("random", {"region": [w, e, s, n], "longitudes": lons})
    elif stream == "invalid":
        good_lon, good_lat = np.array([0.0, 10.0, 350.0]), np.array([-10.0, 0.0, 10.0])
        for _ in range(12):
            kind = int(rng.integers(0, 15))
            region = [10.0, 50.0, -20.0, 20.0]
            if kind in (5, 6, 13, 14):  # invalid coordinates are refused whatever the (valid) region: global, crossing, narrow
                region = [[10.0, 50.0, -20.0, 20.0], [0.0, 360.0, -90.0, 90.0], [-180.0, 180.0, -60.0, 60.0], [-35.0, 325.0, -20.0, 20.0],
                          [350.0, 10.0, -5.0, 5.0], [170.0, -170.0, -5.0, 5.0], [0.0, 0.0, 0.0, 0.0]][int(rng.integers(0, 7))]
                run.count("class:invalid_coordinates_region_%d" % int(abs(region[1] - region[0]) == 360))
            lon, lat = good_lon.copy(), good_lat.copy()
            if kind == 0:
                region[0] = float(-180 - rng.uniform(1e-6, 100))
            elif kind == 1:
                region[1] = float(360 + rng.uniform(1e-6, 100))
            elif kind == 2:
                region[2] = float(-90 - rng.uniform(1e-6, 50))
            elif kind == 3:
                region[3] = float(90 + rng.uniform(1e-6, 50))
            elif kind == 4:
                region[0], region[1] = -180.0, float(180 + rng.uniform(0.5, 180))
            elif kind == 7:  # west bound beyond 360 with the east bound in range (W > E, less than one turn apart)
                region[0], region[1] = float(360 + rng.uniform(1e-6, 60)), float(rng.uniform(60, 300))
            elif kind == 8:  # east bound below -180 with the west bound in range
                region[0], region[1] = float(rng.uniform(-170, 100)), float(-180 - rng.uniform(1e-6, 60))
            elif kind == 9:  # south bound above 90 (north in range)
                region[2] = float(90 + rng.uniform(1e-6, 50))
            elif kind == 10:  # north bound below -90 (south in range)
                region[3] = float(-90 - rng.uniform(1e-6, 50))
            elif kind == 11:  # both longitude bounds out of range on the same side
                region[0], region[1] = float(360 + rng.uniform(1, 20)), float(360 + rng.uniform(21, 40))
            elif kind == 12:
                region[0], region[1] = float(-180 - rng.uniform(21, 40)), float(-180 - rng.uniform(1, 20))
            elif kind in (5, 13):
                lon[int(rng.integers(0, 3))] = float(rng.choice([-180 - rng.uniform(1e-6, 50), 360 + rng.uniform(1e-6, 50)]))
            else:
                lat[int(rng.integers(0, 3))] = float(rng.choice([-90 - rng.uniform(1e-6, 50), 90 + rng.uniform(1e-6, 50)]))
            if kind in (13, 14):
                # the out-of-range value sits in arrays that also have gaps (NaN: blanked nodes, missing stations), before or after it,
                # in the same or in the other coordinate
                size = int(rng.choice([4, 9, 40]))
                bad_lon, bad_lat = lon[np.argmax(np.abs(lon - 90))], lat[np.argmax(np.abs(lat))]
                lon = np.concatenate([lon, rng.uniform(0, 350, size)])
                lat = np.concatenate([lat, rng.uniform(-80, 80, size)])
                perm = rng.permutation(lon.size)
                lon, lat = lon[perm], lat[perm]
                gaps = rng.random(lon.size) < rng.choice([0.1, 0.5])
                gaps[int(rng.integers(0, lon.size))] = True
                culprit = (lon == bad_lon) if kind == 13 else (lat == bad_lat)
                gaps &= ~culprit
                where = int(rng.integers(0, 3))
                if where in (0, 2):
                    lon = np.where(gaps, np.nan, lon)
                if where in (1, 2):
                    lat = np.where(gaps, np.nan, lat)
                if rng.random() < 0.3:
                    lon, lat = lon.reshape(1, -1), lat.reshape(1, -1)
                run.count("class:invalid_value_among_undefined")
            # every invalid call is made twice, with a valid call in between and in other argument forms: a refusal must not
            # depend on what was asked before (the monitor judges each call on its own)
            forms = [lambda: vd.longitude_continuity(None, region), lambda: vd.longitude_continuity([lon, lat], region),
                     lambda: vd.longitude_continuity((lon, lat), tuple(region)), lambda: vd.longitude_continuity([lon, lat], np.array(region))]
            if kind in (5, 6, 13, 14):
                forms = forms[1:]
            first = forms[int(rng.integers(0, len(forms)))]
            for call in (first, lambda: vd.longitude_continuity([good_lon, good_lat], [10.0, 50.0, -20.0, 20.0]), first, forms[int(rng.integers(0, len(forms)))]):
                try:
                    call()
                except Exception:  # noqa: BLE001 - the monitor records the outcome and its type
                    pass
            run.count("class:invalid_repeated")
            run.mark_nontrivial("invalid", kind, region, lon, lat)
    elif stream == "threads":
        # concurrent calls with different regions (thread pool, dask threaded scheduler): each call is judged on its own by the
        # monitor; work arrays kept at module level would hand one call another call's bounds
        from .. import core as _core

        nthreads = int(rng.choice([2, 3, 4]))
        regions = [(350.0, 10.0), (170.0, -170.0), (-20.0, 40.0), (10.0, 300.0), (0.0, 360.0), (-180.0, 180.0), (-35.0, 325.0), (200.0, 250.0), (-90.0, 0.0), (355.0, 5.0)]
        jobs = []
        for k in range(nthreads):
            sub = np.random.default_rng(int(rng.integers(0, 2 ** 31)))
            mine = [regions[int(j)] for j in sub.permutation(len(regions))[:4]]
            lons = sub.uniform(-180, 360, int(sub.choice([3, 40, 5000])))
            lats = sub.uniform(-80, 80, lons.size)

            def job(mine=mine, lons=lons, lats=lats):
                for w, e in mine:
                    vd.longitude_continuity(None, (w, e, -30.0, 30.0))
                    vd.longitude_continuity((lons, lats), [w, e, -45.0, 45.0])
            jobs.append(job)
        rounds = 60 if index % 2 else 20
        results = _core.run_threads(jobs, rounds=rounds, yield_probability=0.25 if index % 2 == 0 else 0.0, seed=index)
        run.count("yields_injected", getattr(_core.run_threads, "yields_injected", 0) - run.counters.get("yields_injected", 0))
        for res, exc in results:
            if isinstance(exc, TimeoutError):
                run.note_inconclusive("threads: %r" % (exc,))
            elif exc is not None:
                run.violation("threads", "longitude_continuity raised %r when called concurrently from %d threads" % (exc, nthreads), {}, key="threads-raised")
        run.count("class:concurrent_calls", len(jobs) * rounds * 8)
    elif stream == "forms":
        only = None
        for _ in range(4):
            w = float(rng.choice(LATTICE))
            e = float(rng.choice([v for v in LATTICE if abs(v - w) <= 360]))
            region = [w, e, -45.0, 45.0]
            if _arc(w, e)[1] is False:
                continue
            only = vd.longitude_continuity(None, region)
            empty = vd.longitude_continuity([], region)
            lon2d, lat2d = np.meshgrid(np.arange(-180.0, 361.0, 30.0), np.arange(-40.0, 41.0, 20.0))
            c2d, r2d = vd.longitude_continuity((lon2d, lat2d), region)
            height = np.full(lon2d.shape, 1234.5)
            c3, r3 = vd.longitude_continuity([lon2d, lat2d, height], region)
            ci, ri = vd.longitude_continuity([lon2d.astype("int64"), lat2d.astype("int64")], [int(v) for v in region])
            frac_lat = lat2d + 0.37
            cm, rm = vd.longitude_continuity([lon2d.astype("int64"), frac_lat, height + 0.5], region)  # integer longitudes, fractional others
            c32, r32 = vd.longitude_continuity([lon2d.astype("float32"), frac_lat * (1 + 1e-9)], region)
            run.count("class:mixed_dtype_coordinates", 2)
            # one point in every spelling: Python floats, numpy scalars, 0-d arrays, 1-element arrays and lists
            for lon_value in (350.0, -65.0, 185.0, 0.0, 360.0, -180.0, 180.0, 10.0, -0.0):
                lat_value = 5.0
                for spell, pt in (("python", (lon_value, lat_value)), ("numpy_scalar", (np.float64(lon_value), np.float64(lat_value))),
                                  ("zero_d", (np.array(lon_value), np.array(lat_value))), ("one_element", (np.array([lon_value]), np.array([lat_value]))),
                                  ("int", (int(lon_value), int(lat_value)))):
                    vd.longitude_continuity(list(pt), region)
                    run.count("class:point_spelling_" + spell)
            # degenerate point sets: everything at longitude 0 / latitude 0 (falsy values), single points at the origin
            for zero in ([0.0, 0.0], [0, 0], [np.zeros(3), np.zeros(3)], [np.array(0.0), np.array(0.0)], [np.zeros((2, 2)), np.zeros((2, 2))], [np.zeros(4), np.zeros(4), np.zeros(4)]):
                vd.longitude_continuity(zero, region)
                vd.longitude_continuity(zero, [-30.0, 30.0, -10.0, 10.0])
                run.count("class:all_zero_coordinates", 2)
            # argument aliasing: the very same object as longitude and latitude (points on the diagonal), values the wrap changes
            for same in (np.array([-30.0, -5.0, 0.0, 20.0, 60.0]), np.array([[-80.0, 10.0], [45.0, -1.0]]), -3, np.float64(-45.0)):
                vd.longitude_continuity([same, same], [0.0, 100.0, -90.0, 90.0])
                vd.longitude_continuity((same,) * 2, [300.0, 60.0, -90.0, 90.0])
                vd.longitude_continuity([same, same, same], [-100.0, 100.0, -90.0, 90.0])
                run.count("class:same_object_longitude_and_latitude", 3)
            # regions held in arrays the function may not write to (a row of a DataFrame, np.broadcast_to, np.frombuffer) and in
            # ordinary arrays that must come back untouched
            ro_region = np.array(region, dtype="float64")
            ro_region.setflags(write=False)
            vd.longitude_continuity(None, ro_region)
            vd.longitude_continuity((lon2d, lat2d), ro_region)
            vd.longitude_continuity(None, np.frombuffer(np.array(region, dtype="float64").tobytes(), dtype="float64"))
            rw_region = np.array(region, dtype="float64")
            before = rw_region.copy()
            vd.longitude_continuity((lon2d, lat2d), rw_region)
            vd.longitude_continuity(None, rw_region)
            run.evaluated("region_argument_untouched")
            run.count("class:region_in_read_only_array", 3)
            if not np.array_equal(rw_region, before):
                run.violation("region_argument_untouched", "the region array passed in was modified in place", {"before": before, "after": rw_region}, key="region-modified")
            cf, rf = vd.longitude_continuity((np.asfortranarray(lon2d), np.ascontiguousarray(lat2d.T).T), tuple(region))
            if not (np.array_equal(cf[0], c2d[0]) and np.array_equal(np.asarray(rf, dtype=float), np.asarray(r2d, dtype=float))):
                run.violation("forms", "the result depends on the memory layout of the coordinate arrays", {"region": region}, key="forms-layout")
            run.evaluated("forms")
            same_region = all(np.array_equal(np.asarray(only, dtype=float), np.asarray(r, dtype=float)) for r in (empty, r2d, r3, ri))
            same_lon = np.array_equal(c2d[0], c3[0]) and np.array_equal(np.asarray(ci[0], dtype=float), c2d[0]) and c2d[0].shape == lon2d.shape
            if not (same_region and same_lon):
                run.violation("forms", "the result depends on the call form (no coordinates / empty / 2-D / extra coordinates / integer dtype)",
                              {"region": region, "only": np.asarray(only), "empty": np.asarray(empty), "r2d": r2d, "r3": r3, "ri": ri}, key="forms")
        if only is not None:
            run.sample("forms", {"region": region, "returned": np.asarray(only)})
