"""
C09 - BlockReduce.filter returns one correctly reduced value per non-empty block.

A monitor on ``BlockReduce.filter`` (the real method; calls nested in ``Chain.fit`` and
``project_grid`` included) judges every normal return against a pandas-free recomputation:

* block membership comes from the nested ``block_split`` event of the same call and is
  validated independently (floor arithmetic on the C07 reference geometry) for every point
  that is farther than 1e-9 block sizes from a block edge;
* one entry per occupied block in ascending label order, no placeholders for empty blocks;
* every component of every entry = reference reduction of exactly that block's members, each
  value with its own weight and each component with its own weight component;
* coordinates = the same (unweighted) reduction of the members' coordinates, or the centre of
  that very block (reference geometry) with ``center_coordinates``; extra coordinates are
  reduced unless ``drop_coords``;
* for ``np.sum`` the outputs add up to the input total.
"""
import collections
import math
import warnings

import numpy as np

from .. import gen
from . import _c09_blocks as blk

ID = "C09"
LEVEL = "exploration"
RULE = (
    "cases = one BlockReduce.filter call each: seeded clouds of 1..90 points (uniform / jittered grid / clusters / anisotropic, "
    "scales 1e-2..1e6, offsets up to 1e3 extents, points on block edges and outside the region), 1..3 data components with distinct "
    "non-constant fields, per-component distinct weights 10^[-3,3] or none, reductions mean/median/sum/min/max/average/value_range, "
    "np.std / np.var (population, 0 for a single value) / np.ptp / np.prod and user functions NAMED std / var / mean (brute force with the very same callable) "
    "(unweighted) and np.average / harness weighted_median (weighted), blocks by scalar spacing, (north, east) spacing or shape, both "
    "adjust modes, region inferred / padded / shrunk / shifted, center_coordinates and drop_coords on/off with 0..2 extra coordinates, "
    "inputs as 1-D / 2-D C / Fortran / strided / read-only arrays and pandas Series with shuffled integer or string index (every "
    "array its own index); data components float64 / float32 / int16 / int32 / int64, uniform or mixed in both orders (integer then "
    "float64, float64 then integer, float32 with float64), integer weights; plus histories on ONE instance (region=None or given): "
    "cloud A, another cloud (other size and bounding box), a subset, A with other data, A again, then clones taken after the calls, and "
    "in-place histories (the same ndarrays shifted / permuted / restored between calls) - every return judged against its own arguments "
    "and the constructor parameters compared before/after each call; re-configuration histories (built with P1, optionally used, then "
    "1..3 of spacing / shape<->spacing / region None<->given / adjust / center_coordinates / drop_coords / reduction changed by "
    "set_params, attribute assignment or clone().set_params, then used: judged with the parameters in force at call time); equivalent spellings on integer-friendly clouds "
    "(spacing as Python int/float, numpy integer/floating, 0-d array; pairs and regions as tuple/list/ndarray of floats or integers; "
    "shape as tuple/list/ndarray of numpy ints; flags as np.bool_ and 1/0; the reference converts with float()/int()/bool()) and "
    "falsy-but-valid values (an extra coordinate that is 0 everywhere, weights exactly 1, a data component of zeros); large calls with "
    "130 000 / 230 000 / 262 145 points (never a multiple of 100 000) in thousands of blocks of very different populations for "
    "sum / mean / median, judged like every other call down to the last points of the input; drop_coords=False with 11..16 coordinate arrays (extra k = 1000*k "
    "+ noise; controls with exactly 10, 3 and 4 arrays); np.average / weighted median with weights exactly 0.0 in all components on points ON "
    "the bounding box of the cloud, region not given (control: given), every block keeping a positive weight, and weights exactly 0.0 on different points in different components (2-3 components, 10-30 % of the points, positive in the other components); value coincidences for sum / mean / max / min / median with 1..3 components: 0/1 "
    "flags, signed integer residuals that cancel inside a block, a field that is zero over part of the survey, all-zero data (occupied blocks "
    "that reduce to exactly 0 in every component) and NaN data incl. blocks without a valid value (entry and coordinates judged, the "
    "value of an entry with a NaN member is not). Non-trivial = at least 2 occupied blocks, a block with >= 2 members whose data differ, and an empty block "
    "present; distinct = hash of (coordinates, data, weights, configuration)."
)
ASSUMPTIONS = [
    "block membership of points within 1e-9 block sizes of a block edge is taken from the nested block_split event (either neighbour is right by C08)",
    "values compared with tolerance 64*eps*n_members*max|member value| (pandas sums in its own order); reference sums use math.fsum",
    "coordinates are reduced without weights (the documented behaviour) and compared with the same tolerance; block centres with 32 eps of the region bounds",
    "a weighted call needs a reduction accepting weights= ; np.mean/np.median with weights raising TypeError is counted as refused, not judged",
    "weights are positive; blocks where the weighted median sits within round-off of the half weight are skipped (either neighbour)",
    "the reference reduces float64(values) in float64; tolerances use the float64 epsilon except for a component whose data or weights were "
    "handed over as float32, which uses the float32 epsilon (counted as class:tolerance_from_float32_operand)",
    "arguments a caller leaves out are judged with the DOCUMENTED defaults (tap documented=): block_split, filter(weights=None), "
    "variance_to_weights(tol=1e-15, dtype='float64'), constructor parameters (compared with the stored ones after every __init__)",
    "the configuration of a call is the get_params() snapshot taken before the call (region=None -> bounding box of that call's points)",
]
FLOORS = {
    "quick": {
        "eval:filter_layout": 1100, "eval:labels_vs_reference_geometry": 1100, "eval:params_unchanged_by_filter": 1100,
        "eval:block_value": 14900, "eval:block_coordinate": 21700, "eval:sum_conserved": 34, "eval:weights_refused": 3,
        "distinct_nontrivial": 590, "class:weights:given": 460, "class:series_input_with_custom_index": 320,
        "class:center_coordinates:True": 530, "class:drop_coords:False": 470, "class:empty_blocks:present": 800,
        "class:data_dtype_present:int16": 110, "class:data_dtype_present:int32": 100, "class:data_dtype_present:int64": 110,
        "class:data_dtype_present:float32": 190, "class:mixed_data_dtypes:integer_then_float64": 40,
        "class:mixed_data_dtypes:float64_then_integer": 34, "class:mixed_data_dtypes:float32_then_float64": 32,
        "class:mixed_data_dtypes:float64_then_float32": 37, "class:weights_dtype_present:int32": 75,
        "class:weights_dtype_present:int64": 79, "class:history:reuse_calls": 130, "class:history:reuse_calls:region_none": 95,
        "class:history:reuse_calls:region_given": 11, "class:history:reuse_calls:center_coordinates": 56,
        "class:history:inplace_calls": 67, "class:history:inplace_calls:region_none": 41,
        "class:history:clone_after_filter_calls": 38, "class:reconfigured_calls": 48, "class:reconfigured:how:set_params": 12,
        "class:reconfigured:how:attribute_assignment": 12, "class:reconfigured:how:clone_then_set_params": 13,
        "class:reconfigured:used_before": 21, "class:reconfigured:never_used_before": 19, "class:reconfigured:param:spacing": 10,
        "class:reconfigured:param:shape_vs_spacing": 10, "class:reconfigured:param:region": 10,
        "class:reconfigured:param:adjust": 9, "class:reconfigured:param:center_coordinates": 10,
        "class:reconfigured:param:drop_coords": 10, "class:reconfigured:param:reduction": 11,
        "class:spelling_group:spacing:scalar_as_python_int": 8, "class:spelling_group:spacing:scalar_as_numpy_integer": 8,
        "class:spelling_group:spacing:scalar_as_numpy_floating": 9, "class:spelling_group:spacing:scalar_as_0d_array": 9,
        "class:spelling_group:spacing:as_list": 6, "class:spelling_group:spacing:as_ndarray": 8,
        "class:spelling_group:spacing:elements_integers": 18, "class:spelling_group:shape:as_list": 4,
        "class:spelling_group:shape:as_ndarray": 10, "class:spelling_group:shape:elements_numpy_scalars": 6,
        "class:spelling_group:region:as_tuple": 190, "class:spelling_group:region:as_ndarray": 16,
        "class:spelling_group:region:elements_integers": 36, "class:spelling_group:flag_as_int=True": 32,
        "class:spelling_group:flag_as_int=False": 42, "class:spelling_group:flag_as_numpy_bool=True": 33,
        "class:spelling_group:flag_as_numpy_bool=False": 38, "class:falsy:extra_coordinate_exactly_0_everywhere": 46,
        "class:falsy:weights_exactly_1": 12, "class:falsy:data_component_exactly_0_everywhere": 14,
        "class:reduction:callable:numpy.std": 35, "class:reduction:callable:numpy.var": 36,
        "class:reduction:callable:numpy.ptp": 40, "class:reduction:callable:numpy.prod": 35,
        "class:reduction:callable:user.std": 36, "class:reduction:callable:user.var": 34,
        "class:reduction:callable:user.mean": 30, "single_member_blocks_judged_for_spread_statistics(expected 0, not NaN)": 1100,
        "class:more_than_100000_points": 1, "class:coordinate_arrays:11_or_more(drop_coords=False)": 19,
        "class:coordinate_arrays:exactly_10(drop_coords=False)": 2,
        "class:weights_exactly_0_in_all_components_on_some_points": 19,
        "class:zero_weight_point_on_the_bounding_box:region_inferred": 12,
        "class:zero_weight_point_on_the_bounding_box:region_given": 4,
        "zero_weight_border_calls:points_on_the_box_with_weight_0": 76,
        "class:call_with_an_occupied_block_reducing_to_0_in_every_component:sum": 12,
        "class:call_with_an_occupied_block_reducing_to_0_in_every_component:mean": 3,
        "class:call_with_an_occupied_block_reducing_to_0_in_every_component:max": 2,
        "occupied_blocks_reducing_to_exactly_0_in_every_component": 1000, "value_coincidence_calls:flags": 10,
        "value_coincidence_calls:residuals": 10, "value_coincidence_calls:partly_zero": 6, "value_coincidence_calls:all_zero": 1,
        "value_coincidence_calls:nan": 2, "class:data_with_NaN": 2,
        "either_way:entries_of_blocks_with_a_NaN_member(value not judged)": 35,
        "eval:constructor_parameters_as_documented": 1100, "eval:defaults_equal_documented_defaults_spelled_out": 16,
        "defaulted_argument:BlockReduce.filter.weights": 54, "defaulted_argument:BlockReduce.__init__.adjust": 770,
        "defaulted_argument:BlockReduce.__init__.center_coordinates": 410,
        "defaulted_argument:BlockReduce.__init__.drop_coords": 540, "defaulted_argument:BlockReduce.__init__.region": 400,
        "class:weight_exactly_0_in_some_but_not_all_components": 18,
        "class:weight_exactly_0_in_some_but_not_all_components:2_components": 8,
        "class:weight_exactly_0_in_some_but_not_all_components:3_components": 6,
    },
    "thorough": {
        "eval:filter_layout": 16800, "eval:labels_vs_reference_geometry": 16800, "eval:params_unchanged_by_filter": 16900,
        "eval:block_value": 231900, "eval:block_coordinate": 337200, "eval:sum_conserved": 620, "eval:weights_refused": 16,
        "distinct_nontrivial": 9200, "class:weights:given": 7400, "class:series_input_with_custom_index": 5200,
        "class:center_coordinates:True": 8300, "class:drop_coords:False": 7500, "class:empty_blocks:present": 12300,
        "class:data_dtype_present:int16": 1800, "class:data_dtype_present:int32": 1800, "class:data_dtype_present:int64": 1800,
        "class:data_dtype_present:float32": 3100, "class:mixed_data_dtypes:integer_then_float64": 650,
        "class:mixed_data_dtypes:float64_then_integer": 660, "class:mixed_data_dtypes:float32_then_float64": 650,
        "class:mixed_data_dtypes:float64_then_float32": 600, "class:weights_dtype_present:int32": 1200,
        "class:weights_dtype_present:int64": 1300, "class:history:reuse_calls": 2000,
        "class:history:reuse_calls:region_none": 1500, "class:history:reuse_calls:region_given": 390,
        "class:history:reuse_calls:center_coordinates": 1000, "class:history:inplace_calls": 1000,
        "class:history:inplace_calls:region_none": 760, "class:history:clone_after_filter_calls": 570,
        "class:reconfigured_calls": 720, "class:reconfigured:how:set_params": 230,
        "class:reconfigured:how:attribute_assignment": 220, "class:reconfigured:how:clone_then_set_params": 230,
        "class:reconfigured:used_before": 340, "class:reconfigured:never_used_before": 350,
        "class:reconfigured:param:spacing": 200, "class:reconfigured:param:shape_vs_spacing": 200,
        "class:reconfigured:param:region": 200, "class:reconfigured:param:adjust": 180,
        "class:reconfigured:param:center_coordinates": 180, "class:reconfigured:param:drop_coords": 190,
        "class:reconfigured:param:reduction": 200, "class:spelling_group:spacing:scalar_as_python_int": 150,
        "class:spelling_group:spacing:scalar_as_numpy_integer": 160,
        "class:spelling_group:spacing:scalar_as_numpy_floating": 170, "class:spelling_group:spacing:scalar_as_0d_array": 150,
        "class:spelling_group:spacing:as_list": 140, "class:spelling_group:spacing:as_ndarray": 200,
        "class:spelling_group:spacing:elements_integers": 340, "class:spelling_group:shape:as_list": 100,
        "class:spelling_group:shape:as_ndarray": 180, "class:spelling_group:shape:elements_numpy_scalars": 100,
        "class:spelling_group:region:as_tuple": 2900, "class:spelling_group:region:as_ndarray": 350,
        "class:spelling_group:region:elements_integers": 570, "class:spelling_group:flag_as_int=True": 580,
        "class:spelling_group:flag_as_int=False": 680, "class:spelling_group:flag_as_numpy_bool=True": 570,
        "class:spelling_group:flag_as_numpy_bool=False": 700, "class:falsy:extra_coordinate_exactly_0_everywhere": 750,
        "class:falsy:weights_exactly_1": 270, "class:falsy:data_component_exactly_0_everywhere": 280,
        "class:reduction:callable:numpy.std": 670, "class:reduction:callable:numpy.var": 640,
        "class:reduction:callable:numpy.ptp": 600, "class:reduction:callable:numpy.prod": 600,
        "class:reduction:callable:user.std": 610, "class:reduction:callable:user.var": 640,
        "class:reduction:callable:user.mean": 630,
        "single_member_blocks_judged_for_spread_statistics(expected 0, not NaN)": 19500, "class:more_than_100000_points": 7,
        "class:coordinate_arrays:11_or_more(drop_coords=False)": 310,
        "class:coordinate_arrays:exactly_10(drop_coords=False)": 52,
        "class:weights_exactly_0_in_all_components_on_some_points": 280,
        "class:zero_weight_point_on_the_bounding_box:region_inferred": 210,
        "class:zero_weight_point_on_the_bounding_box:region_given": 74,
        "zero_weight_border_calls:points_on_the_box_with_weight_0": 1100,
        "class:call_with_an_occupied_block_reducing_to_0_in_every_component:sum": 220,
        "class:call_with_an_occupied_block_reducing_to_0_in_every_component:mean": 61,
        "class:call_with_an_occupied_block_reducing_to_0_in_every_component:max": 49,
        "occupied_blocks_reducing_to_exactly_0_in_every_component": 17600, "value_coincidence_calls:flags": 150,
        "value_coincidence_calls:residuals": 150, "value_coincidence_calls:partly_zero": 110,
        "value_coincidence_calls:all_zero": 53, "value_coincidence_calls:nan": 88, "class:data_with_NaN": 88,
        "either_way:entries_of_blocks_with_a_NaN_member(value not judged)": 920,
        "eval:constructor_parameters_as_documented": 16400, "eval:defaults_equal_documented_defaults_spelled_out": 190,
        "defaulted_argument:BlockReduce.filter.weights": 760, "defaulted_argument:BlockReduce.__init__.adjust": 11300,
        "defaulted_argument:BlockReduce.__init__.center_coordinates": 6100,
        "defaulted_argument:BlockReduce.__init__.drop_coords": 7900, "defaulted_argument:BlockReduce.__init__.region": 5900,
        "class:weight_exactly_0_in_some_but_not_all_components": 280,
        "class:weight_exactly_0_in_some_but_not_all_components:2_components": 150,
        "class:weight_exactly_0_in_some_but_not_all_components:3_components": 130,
    },
}
JOBS = {"quick": 1, "thorough": 16}
CASE_TIMEOUT_S = 120
CALLS_PER_CASE = 8


def plan(tier):
    if tier == "quick":
        return collections.OrderedDict(random=140, edges=32, series=42, tiny=10, refused=3, nested=8, reuse=24, inplace=14, reconfigure=30, spellings=40, many_coordinates=10, zero_weights=12, value_coincidences=12, defaults=5, large=2)
    return collections.OrderedDict(random=2100, edges=480, series=640, tiny=120, refused=14, nested=100, reuse=360, inplace=210, reconfigure=450, spellings=600, many_coordinates=150, zero_weights=180, value_coincidences=180, defaults=60, large=18)


def value_range(values):
    """A reduction no library knows: max - min of the members (unknown callables are applied to numpy arrays by the oracle)."""
    v = np.asarray(values, dtype="float64")
    return float(v.max() - v.min())


def _user(name, func):
    """A user function that merely happens to be NAMED like a pandas groupby method (no dispatch by name is allowed)."""
    func.__name__ = func.__qualname__ = name
    return func


# population standard deviation / variance (ddof=0, 0 for a single value) and a "mean" that is not the arithmetic mean
user_std = _user("std", lambda values: float(np.sqrt(np.mean((np.asarray(values, dtype="float64") - np.mean(np.asarray(values, dtype="float64"))) ** 2))))
user_var = _user("var", lambda values: float(np.mean((np.asarray(values, dtype="float64") - np.mean(np.asarray(values, dtype="float64"))) ** 2)))
user_mean = _user("mean", lambda values: 0.5 * (float(np.min(np.asarray(values, dtype="float64"))) + float(np.max(np.asarray(values, dtype="float64")))))
OTHER_STATISTICS = [np.std, np.var, np.ptp, np.prod, user_std, user_var, user_mean]
UNWEIGHTED = [np.mean, np.median, np.sum, np.min, np.max, np.average, blk.weighted_median, value_range] + OTHER_STATISTICS
WEIGHTED = [np.average, blk.weighted_median]


# ----------------------------------------------------------------------
# monitors
# ----------------------------------------------------------------------
def install(tap, run):
    import verde
    import verde.coordinates as vc

    def pre_filter(ev):
        return {"params": blk.snapshot_params(ev.args["self"])}

    def post_filter(ev):
        est = ev.args["self"]
        if type(est).__name__ != "BlockReduce":  # subclasses with their own filter are other properties' business
            return
        weights = ev.args.get("weights")
        params = ev.pre["params"] if isinstance(ev.pre, dict) else None
        # filter is a query: the constructor parameters (region=None included) are the same afterwards, return or raise
        if params is not None:
            run.evaluated("params_unchanged_by_filter")
            changed = blk.params_changed(params, est)
            if changed:
                run.violation("params_unchanged_by_filter", "BlockReduce.filter rewrote constructor parameter(s) %s" % changed,
                              {"before": {k: (getattr(v, "__name__", repr(v)) if callable(v) else v) for k, v in params.items()},
                               "after": {k: (getattr(v, "__name__", repr(v)) if callable(v) else v) for k, v in est.get_params(deep=False).items()}},
                              key="params:" + ",".join(changed))
        if ev.exc is not None:
            wts = blk.as_tuple(weights)
            weighted = wts is not None and not any(w is None for w in wts)
            if weighted and isinstance(ev.exc, TypeError) and "weights" in str(ev.exc):
                run.evaluated("weights_refused")
                run.count("refused:weighted_call_with_reduction_without_weights_keyword")
            else:
                run.count("filter_raised:" + type(ev.exc).__name__)
            return
        call = blk.Call(ev, params)
        est = call.cfg  # the configuration the call was handed (snapshot taken before the call)
        name, impl = blk.reference_for(est.reduction)
        for cls in call.classes():
            run.count("class:" + cls)
        run.count("class:reduction:" + name + ("(weighted)" if call.weights is not None else ""))
        witness = call.witness

        # 1. the nested labelling against the reference geometry
        if call.label_source is None:
            run.count("skipped:no_block_split_event_and_points_on_edges")
            return
        run.evaluated("labels_vs_reference_geometry")
        run.count("points_labelled_strictly_inside_a_block", call.n_sure)
        run.count("either_way:points_within_1e-9_of_a_block_edge", call.n_either)
        if call.geometry.tie:
            run.count("either_way:block_count_at_a_rounding_tie")
        if call.problem:
            run.violation("labels_vs_reference_geometry", call.problem, witness(), key="labels")
            return

        # 2. one entry per occupied block
        result = ev.result
        run.evaluated("filter_layout")
        if not isinstance(result, tuple) or len(result) != 2:
            run.violation("filter_layout", "filter did not return (coordinates, data)", witness(result=repr(result)[:400]), key="layout:tuple")
            return
        out_coords, out_data = result
        problem, comps = blk.check_layout(call, out_coords, [("data", out_data)], "BlockReduce.filter")
        if problem:
            run.violation("filter_layout", problem, witness(result_coordinates=out_coords, result_data=out_data), key="layout:entries")
            return
        observed = comps[0]
        if call.nontrivial():
            run.mark_nontrivial([np.asarray(c) for c in call.raw_coordinates], call.data, call.weights, name,
                                repr((est.spacing, est.shape, est.region, est.adjust, est.center_coordinates, est.drop_coords)))

            if "monitor_comparison" not in run.sample_keys:
                wts0 = None if call.weights is None else call.weights[0]
                run.sample("monitor_comparison", {
                    "config": witness()["config"], "labels_from": call.label_source, "labels": call.labels,
                    "points_validated_by_floor_arithmetic": call.n_sure, "blocks": "%d x %d" % (call.geometry.north.n, call.geometry.east.n),
                    "occupied_block_labels": [lab for lab, _ in call.groups], "members_per_block": [int(m.size) for _, m in call.groups],
                    "component_0_observed": observed[0],
                    "component_0_reference": [impl(call.data[0][m], None if wts0 is None else wts0[m]) for _, m in call.groups],
                    "coordinate_0_observed": np.asarray(out_coords[0]),
                    "coordinate_0_reference": [call.geometry.centre(lab)[0] if est.center_coordinates else impl(call.coords[0][m], None) for lab, m in call.groups],
                })

        if any(t in name for t in (".std", ".var", ".ptp")):
            run.count("single_member_blocks_judged_for_spread_statistics(expected 0, not NaN)", sum(1 for _, m in call.groups if m.size == 1) * call.ncomp)

        # 3. values
        stable = blk.weighted_median_is_stable if est.reduction is blk.weighted_median else None
        failures, judged, skipped, worst = blk.check_block_values(call, observed, impl, True, stable, name)
        run.evaluated("block_value", judged)
        if skipped:
            run.count("either_way:weighted_median_at_half_weight", skipped)
        if getattr(call, "nan_member_entries", 0):
            run.count("either_way:entries_of_blocks_with_a_NaN_member(value not judged)", call.nan_member_entries)
            run.count("class:data_with_NaN")
        zero_everywhere = np.all([np.asarray(o) == 0 for o in observed], axis=0)
        if zero_everywhere.any():
            run.count("class:call_with_an_occupied_block_reducing_to_0_in_every_component")
            run.count("class:call_with_an_occupied_block_reducing_to_0_in_every_component:" + name)
            run.count("occupied_blocks_reducing_to_exactly_0_in_every_component", int(zero_everywhere.sum()))
        run.observe_max("block_value_error_over_tolerance", worst)
        if failures:
            f = failures[0]
            run.violation(
                "block_value",
                "component %d of entry %d (block %d, %d members) is %.17g, the %s of its members%s is %.17g (tolerance %.3g)"
                % (f["component"], f["entry"], f["block_label"], len(f["members"]), f["observed"], name,
                   " with their own weights" if call.weights is not None else "", f["expected"], f["tolerance"]),
                witness(failure=f, result_coordinates=out_coords, result_data=out_data, n_failures=len(failures)),
                key="value:%s:%s" % (name, "weighted" if call.weights is not None else "plain"))

        # 4. coordinates
        failures, judged, worst = blk.check_block_coordinates(call, out_coords, impl, name)
        run.evaluated("block_coordinate", judged)
        run.observe_max("block_coordinate_error_over_tolerance", worst)
        if failures:
            f = failures[0]
            run.violation(
                "block_coordinate",
                "coordinate %d of entry %d (block %d) is %.17g, expected the %s = %.17g (tolerance %.3g)"
                % (f["coordinate"], f["entry"], f["block_label"], f["observed"], f["kind"], f["expected"], f["tolerance"]),
                witness(failure=f, result_coordinates=out_coords, result_data=out_data),
                key="coordinate:%s" % ("centre" if est.center_coordinates and f["coordinate"] < 2 else "reduced"))

        # 5. a sum reduction conserves the total
        if est.reduction is np.sum and any(np.isnan(d).any() for d in call.data):
            run.count("skipped:sum_conservation_with_NaN_data")
        elif est.reduction is np.sum:
            run.evaluated("sum_conserved")
            for c in range(call.ncomp):
                total_in = math.fsum(call.data[c].tolist())
                total_out = math.fsum(np.asarray(observed[c], dtype="float64").tolist())
                tol = blk.value_tolerance(call.data[c], call.npoints, call.data_eps[c])
                if np.isfinite(total_out):
                    run.observe_max("sum_error_over_tolerance", abs(total_in - total_out) / tol)
                if not abs(total_in - total_out) <= tol:
                    run.violation("sum_conserved", "block sums add up to %.17g, the data to %.17g" % (total_out, total_in),
                                  witness(result_data=out_data), key="sum")
                    break

    def post_init(ev):
        if type(ev.args.get("self")).__name__ == "BlockReduce":
            blk.judge_constructor(run, ev, "BlockReduce.__init__")

    # arguments the caller leaves out are judged with the DOCUMENTED defaults, not with the signature of the tree under test
    tap.function(vc, "block_split", documented=blk.BLOCK_SPLIT_DEFAULTS)  # recorded only: the filter monitor reads the nested event
    tap.method(verde.BlockReduce, "__init__", post=post_init, subclasses=False, documented=blk.INIT_DEFAULTS)
    tap.method(verde.BlockReduce, "filter", pre=pre_filter, post=post_filter, subclasses=False, documented=blk.FILTER_DEFAULTS)


# ----------------------------------------------------------------------
# workload
# ----------------------------------------------------------------------
def _fields(rng, east, north, ncomp, dtypes=None):
    out = []
    amplitude = gen.log_uniform(rng, 1e-3, 1e6)
    for k in range(ncomp):
        if rng.random() < 0.6:
            d = gen.smooth_field(rng, east, north, amplitude=amplitude * rng.uniform(0.2, 5))
        else:
            d = amplitude * (rng.normal(size=east.size) + rng.choice([0.0, 3.0, 50.0]))
        out.append(d if dtypes is None else blk.retype(rng, d, dtypes[k]))
    return out


def _weights(rng, size, ncomp):
    """Per-component distinct positive weights; now and then integer-typed."""
    return [blk.integer_weights(rng, size) if rng.random() < 0.2 else 10 ** rng.uniform(-3, 3, size) for _ in range(ncomp)]


def _dtypes_for(rng, reduction, ncomp):
    """Data dtypes of a call; products only of float64 (they wrap in an integer dtype and overflow early in float32: properties of the reduction)."""
    dtypes = blk.choose_dtypes(rng, ncomp)
    return ["float64"] * ncomp if reduction is np.prod else dtypes


def _one_call(run, rng, verde, layout=None, weighted=None, edges=False, npoints=None, kind=None, reduction=None, spelled=False):
    if spelled:  # integral spacings / region bounds, so that every argument can also be spelled with integers
        east, north, kwargs = blk.integer_friendly(rng)
    else:
        east, north = blk.make_points(rng, n=npoints, kind=kind)
        kwargs = blk.make_blocks(rng, east, north, want_empty=rng.random() < 0.5)
    if edges:
        if rng.random() < 0.15:  # extent/spacing exactly at a .5 tie: the number of blocks is either-way (C07)
            reg = kwargs.get("region") or [east.min(), east.max(), north.min(), north.max()]
            if reg[1] > reg[0] and reg[3] > reg[2]:
                kwargs.pop("shape", None)
                kwargs["spacing"] = (float((reg[3] - reg[2]) / (int(rng.integers(1, 6)) + 0.5)), float((reg[1] - reg[0]) / (int(rng.integers(1, 6)) + 0.5)))
        east, north = blk.snap_to_edges(rng, east, north, kwargs)
    ncomp = int(rng.choice([1, 2, 3], p=[.4, .35, .25]))
    if weighted is None:
        weighted = rng.random() < 0.4
    if reduction is None:
        reduction = WEIGHTED[int(rng.integers(0, len(WEIGHTED)))] if weighted else UNWEIGHTED[int(rng.integers(0, len(UNWEIGHTED)))]
    dtypes = _dtypes_for(rng, reduction, ncomp)
    data = _fields(rng, east, north, ncomp, dtypes)
    if rng.random() < 0.03:
        data = [np.full(east.size, float(k + 1)) for k in range(ncomp)]  # a trivial (constant) case now and then
    weights = _weights(rng, east.size, ncomp) if weighted else None
    n_extra = int(rng.choice([0, 1, 2], p=[.5, .3, .2]))
    extras = [gen.smooth_field(rng, east, north, amplitude=rng.uniform(1, 1e3)) + rng.choice([0.0, 1e3]) for _ in range(n_extra)]
    if rng.random() < 0.45:
        kwargs["center_coordinates"] = True
    if n_extra and rng.random() < 0.7:
        kwargs["drop_coords"] = False
    elif rng.random() < 0.1:
        kwargs["drop_coords"] = False
    if spelled:
        # falsy-but-valid values: an extra coordinate that is 0 everywhere, weights that are exactly 1, a data component of zeros
        if rng.random() < 0.4:
            extras = [np.zeros(east.size)] + extras[1:]
            n_extra = len(extras)
            kwargs["drop_coords"] = False
        if weighted and rng.random() < 0.35:
            weights[int(rng.integers(0, ncomp))] = np.ones(east.size, dtype=str(rng.choice(["float64", "int64"])))
        if rng.random() < 0.15:
            data[int(rng.integers(0, ncomp))] = np.zeros(east.size)
        kwargs.setdefault("center_coordinates", False)
        kwargs.setdefault("drop_coords", True)
        kwargs = blk.respell(rng, kwargs)
    if layout is None:
        layout = str(rng.choice(blk.LAYOUTS))
    coords = blk.wrap_all([east, north] + extras, layout, rng)
    data_in = blk.wrap_all(data, layout, rng)
    weights_in = None
    if weighted:
        # weights only need the size of the data: now and then hand them over raveled while the data are 2-D
        wl = "1d" if (layout in ("2d", "fortran") and rng.random() < 0.3) else layout
        weights_in = blk.wrap_all(weights, wl, rng)
    data_arg = data_in[0] if (ncomp == 1 and rng.random() < 0.7) else tuple(data_in)
    if weights_in is None:
        weights_arg = None if rng.random() < 0.8 else tuple([None] * ncomp) if ncomp > 1 else None
    else:
        weights_arg = weights_in[0] if (ncomp == 1 and not isinstance(data_arg, tuple)) else tuple(weights_in)
    reducer = verde.BlockReduce(reduction, **kwargs)
    with warnings.catch_warnings():
        warnings.simplefilter("ignore")
        result = reducer.filter(tuple(coords), data_arg, weights_arg)
    return {"reduction": getattr(reduction, "__name__", "?"), "kwargs": kwargs, "layout": layout, "weighted": bool(weighted),
            "easting": east, "northing": north, "data": data, "weights": weights, "result_coordinates": result[0], "result_data": result[1]}


def _many_coordinates(run, rng, verde):
    """drop_coords=False with 11..16 coordinate arrays (controls: exactly 10, 3 or 4): returned coordinate i is the reduction of input coordinate i."""
    east, north = blk.make_points(rng, n=int(rng.integers(8, 50)))
    kwargs = blk.make_blocks(rng, east, north)
    n_arrays = int(rng.choice([3, 4, 10, 11, 12, 13, 14, 15, 16], p=[.06, .06, .12, .2, .14, .12, .1, .1, .1]))
    coords = blk.many_coordinates(rng, east, north, n_arrays)
    kwargs["drop_coords"] = bool(rng.random() < 0.12)
    kwargs["center_coordinates"] = bool(rng.random() < 0.4)
    weighted = bool(rng.random() < 0.3)
    pool = WEIGHTED if weighted else UNWEIGHTED
    reduction = pool[int(rng.integers(0, len(pool)))]
    if reduction is np.prod:
        reduction = np.median
    ncomp = int(rng.choice([1, 2]))
    data = _fields(rng, east, north, ncomp)
    weights = _weights(rng, east.size, ncomp) if weighted else None
    layout = str(rng.choice(["1d", "1d", "2d", "series", "readonly"]))
    coords_in = blk.wrap_all(coords, layout, rng)
    data_in = blk.wrap_all(data, layout, rng)
    with warnings.catch_warnings():
        warnings.simplefilter("ignore")
        out_coords, _ = verde.BlockReduce(reduction, **kwargs).filter(
            tuple(coords_in), data_in[0] if ncomp == 1 else tuple(data_in),
            None if weights is None else (blk.wrap_all(weights, layout, rng)[0] if ncomp == 1 else tuple(blk.wrap_all(weights, layout, rng))))
    return {"coordinate_arrays_given": n_arrays, "reduction": getattr(reduction, "__name__", "?"), "kwargs": kwargs,
            "first_value_of_each_input_coordinate": [float(c[0]) for c in coords], "returned": [np.asarray(c)[:3] for c in out_coords]}


def _zero_weight_border(run, rng, verde):
    """np.average / weighted median with weights exactly 0.0 (all components) on points ON the bounding box of the cloud; region not given (control: given)."""
    ncomp = int(rng.choice([1, 2]))
    east, north, kwargs, weights, on_box = blk.zero_weight_border_case(rng, ncomp, region_given=bool(rng.random() < 0.25))
    reduction = np.average if rng.random() < 0.7 else blk.weighted_median
    kwargs["center_coordinates"] = bool(rng.random() < 0.4)
    data = _fields(rng, east, north, ncomp)
    run.count("zero_weight_border_calls:points_on_the_box_with_weight_0", on_box)
    with warnings.catch_warnings():
        warnings.simplefilter("ignore")
        verde.BlockReduce(reduction, **kwargs).filter((east, north), data[0] if ncomp == 1 else tuple(data), weights[0] if ncomp == 1 else tuple(weights))


def _defaults(run, rng, verde):
    """BlockReduce(reduction, spacing=s) built with NO other argument behaves exactly like one with the documented defaults spelled out."""
    for _ in range(CALLS_PER_CASE):
        east, north = blk.make_points(rng, n=int(rng.integers(8, 50)))
        spacing = float(max(np.ptp(east), np.ptp(north), 1e-3) / rng.uniform(1.3, 5.5))  # hardly ever divides the extent: 'adjust' matters
        coords = (east, north, gen.smooth_field(rng, east, north, amplitude=30.0))  # an extra coordinate: 'drop_coords' matters
        data = gen.smooth_field(rng, east, north, amplitude=float(10 ** rng.uniform(-1, 3)))
        reduction = [np.mean, np.median, np.sum, np.max][int(rng.integers(0, 4))]
        with warnings.catch_warnings():
            warnings.simplefilter("ignore")
            bare = verde.BlockReduce(reduction, spacing=spacing).filter(coords, data)  # weights left out as well
            spelled = verde.BlockReduce(reduction, spacing=spacing, region=None, adjust="spacing", center_coordinates=False, shape=None,
                                        drop_coords=True).filter(coords, data, weights=None)
        run.evaluated("defaults_equal_documented_defaults_spelled_out")
        if not blk.same_output(bare, spelled):
            run.violation("defaults_equal_documented_defaults_spelled_out",
                          "BlockReduce(%s, spacing=s).filter(coordinates, data) differs from the call with region=None, adjust='spacing', "
                          "center_coordinates=False, drop_coords=True, weights=None spelled out" % reduction.__name__,
                          {"spacing": spacing, "coordinates": list(coords), "data": data, "bare": bare, "spelled_out": spelled}, key="defaults")


def _value_coincidences(run, rng, verde):
    """
    Data for which some OCCUPIED blocks reduce to exactly 0.0 in every component (0/1 flags, signed integer residuals that cancel inside a
    block, a field that is zero over part of the survey, all-zero data) or contain NaN: occupancy is defined by the points, not by the
    reduced value - one entry per occupied block, data and coordinates of equal length, each value beside its own block.
    """
    east, north = blk.make_points(rng, n=int(rng.integers(8, 70)))
    kwargs = blk.make_blocks(rng, east, north, want_empty=True)
    kwargs["center_coordinates"] = bool(rng.random() < 0.4)
    ncomp = int(rng.choice([1, 2, 3]))
    kind = str(rng.choice(["flags", "residuals", "partly_zero", "all_zero", "nan"], p=[.28, .28, .2, .09, .15]))
    reduction = [np.sum, np.sum, np.sum, np.mean, np.max, np.min, np.median][int(rng.integers(0, 7))]
    geo = blk.Geometry(east, north, kwargs.get("spacing"), kwargs.get("shape"), kwargs.get("adjust", "spacing"), kwargs.get("region"))
    label = geo.north.locate(north)[0] * geo.east.n + geo.east.locate(east)[0]  # reference blocks (edge points: one of the neighbours)
    data = []
    for c in range(ncomp):
        if kind == "flags":
            d = (rng.random(east.size) < rng.uniform(0.05, 0.3)).astype(str(rng.choice(["int64", "float64", "bool"])))
        elif kind == "residuals":
            k = int(rng.integers(1, 9))
            d = rng.integers(-9, 10, east.size)
            for lab in np.unique(label):
                if rng.random() < 0.6:
                    members = np.flatnonzero(label == lab)
                    pattern = np.resize([k, -k], members.size)
                    if members.size % 2:
                        pattern[-1] = 0
                    d[members] = pattern
            d = d.astype(str(rng.choice(["int64", "float64", "int32"])))
        elif kind == "partly_zero":
            mask = east > np.quantile(east, rng.uniform(0.3, 0.7)) if c == 0 else mask  # noqa: F821 - the same part of the survey in every component
            d = np.where(mask, gen.smooth_field(rng, east, north, amplitude=float(10 ** rng.uniform(-1, 3))), 0.0)
        elif kind == "all_zero":
            d = np.zeros(east.size, dtype=str(rng.choice(["float64", "int64"])))
        else:
            d = gen.smooth_field(rng, east, north, amplitude=10.0)
            if c == 0 or rng.random() < 0.5:
                holes = rng.random(east.size) < rng.uniform(0.05, 0.3)
                for lab in np.unique(label):  # and whole blocks without a single valid value
                    if rng.random() < 0.25:
                        holes |= label == lab
            d[holes] = np.nan
        data.append(d)
    run.count("value_coincidence_calls:" + kind)
    with warnings.catch_warnings():
        warnings.simplefilter("ignore")
        out_coords, out = verde.BlockReduce(reduction, **kwargs).filter((east, north), data[0] if ncomp == 1 else tuple(data))
    return {"kind": kind, "reduction": reduction.__name__, "kwargs": kwargs, "easting": east, "northing": north, "data": data,
            "reference_labels": label, "result_coordinates": out_coords, "result_data": out}


def _zero_weight_per_component(run, rng, verde):
    """
    2-3 non-constant components under np.average (now and then the weighted median) with a weights tuple in which a point has weight
    exactly 0.0 in component j and a positive weight in component k: every component is reduced with ITS OWN weights.
    """
    ncomp = int(rng.choice([2, 3]))
    east, north = blk.make_points(rng, n=int(rng.integers(12, 70)))
    kwargs = blk.make_blocks(rng, east, north)
    weights = blk.per_component_zero_weights(rng, east, north, kwargs, ncomp)
    data = _fields(rng, east, north, ncomp)
    reduction = np.average if rng.random() < 0.8 else blk.weighted_median
    run.count("zero_weight_per_component_calls")
    with warnings.catch_warnings():
        warnings.simplefilter("ignore")
        verde.BlockReduce(reduction, **kwargs).filter((east, north), tuple(data), tuple(weights))


def _large_call(run, rng, verde, index):
    """
    More than 100 000 points in one call (130 000 / 230 000 / 262 145: never a multiple of 100 000), non-constant data, for
    sum / mean / median (now and then np.average with weights): every block - those fed by the last points of the input
    included - is recomputed from the sorted reference membership like in any other call.
    """
    quick = run.tier == "quick"
    n = blk.LARGE_COUNTS[(index + run.seed) % 3] if not quick else blk.LARGE_COUNTS[0 if index == 0 else 1 + (run.seed % 2)]
    east, north = blk.large_cloud(rng, n)
    kwargs = blk.large_blocks(rng, east, north, int(rng.integers(2500, 6000)) if quick else int(rng.integers(4000, 40000)))
    reduction = [np.mean, np.median, np.sum][(index + run.seed) % 3]
    weights = None
    if not quick and rng.random() < 0.2:
        reduction, weights = np.average, 10 ** rng.uniform(-2, 2, n)
    ncomp = 1 if quick else int(rng.choice([1, 2]))
    data = [blk.large_field(rng, east, north, amplitude=float(10 ** rng.uniform(-1, 4))) for _ in range(ncomp)]
    if rng.random() < 0.3:
        data[0] = np.round(data[0] / np.max(np.abs(data[0])) * 20000).astype("int32")
    coords = (east, north)
    if rng.random() < 0.3:
        coords = (east, north, blk.large_field(rng, east, north, amplitude=10.0))
        kwargs["drop_coords"] = False
    with warnings.catch_warnings():
        warnings.simplefilter("ignore")
        out_coords, out = verde.BlockReduce(reduction, **kwargs).filter(
            coords, data[0] if ncomp == 1 else tuple(data), None if weights is None else (weights if ncomp == 1 else (weights, weights[::-1].copy())))
    run.sample("more_than_100000_points", {"points": n, "reduction": reduction.__name__, "kwargs": kwargs, "blocks_with_data": int(np.size(out_coords[0])),
                                           "last_points": {"easting": east[-3:], "northing": north[-3:], "data": data[0][-3:]}})


def _history(run, rng, verde, inplace):
    """
    Several filter calls on ONE BlockReduce instance (and on clones taken after a call). Every return is judged by the monitor
    against its own arguments: with region=None the blocks are those of that call's bounding box.
    """
    import sklearn.base

    east, north = blk.make_points(rng, n=int(rng.integers(10, 50)), kind=str(rng.choice(["uniform", "jitter", "clusters"])))
    kwargs = blk.history_blocks(rng, east, north)
    ncomp = int(rng.choice([1, 2]))
    weighted = bool(rng.random() < 0.4)
    reduction = WEIGHTED[int(rng.integers(0, len(WEIGHTED)))] if weighted else UNWEIGHTED[int(rng.integers(0, len(UNWEIGHTED)))]
    extra = bool(rng.random() < 0.3)
    if extra:
        kwargs["drop_coords"] = False
    dtypes = _dtypes_for(rng, reduction, ncomp)

    def arguments(e, n):
        data = _fields(rng, e, n, ncomp, dtypes)
        wts = _weights(rng, e.size, ncomp) if weighted else None
        coords = (e, n, gen.smooth_field(rng, e, n, amplitude=50.0)) if extra else (e, n)
        return coords, (data[0] if ncomp == 1 else tuple(data)), (None if wts is None else (wts[0] if ncomp == 1 else tuple(wts)))

    reducer = verde.BlockReduce(reduction, **kwargs)
    tag = "inplace" if inplace else "reuse"
    region_tag = "region_given" if kwargs.get("region") is not None else "region_none"
    calls = 0
    with warnings.catch_warnings():
        warnings.simplefilter("ignore")
        if not inplace:
            first = arguments(east, north)
            reducer.filter(*first)
            e2, n2 = blk.other_cloud(rng, east, north)
            second = arguments(e2, n2)
            reducer.filter(*second)  # another bounding box, another size
            keep = np.sort(rng.permutation(east.size)[: max(1, east.size // 2)])
            reducer.filter(*arguments(east[keep].copy(), north[keep].copy()))  # a subset
            shifted = arguments(east, north)
            reducer.filter(first[0], shifted[1], shifted[2])  # same points, other data
            reducer.filter(*first)  # the first cloud again
            twin = sklearn.base.clone(reducer)  # a clone taken after filter calls starts from the constructor parameters
            twin.filter(*second)
            twin.filter(*first)
            calls = 7
            run.count("class:history:clone_after_filter_calls", 2)
        else:
            coords, data, wts = arguments(east.copy(), north.copy())
            originals = [c.copy() for c in coords]
            reducer.filter(coords, data, wts)
            for step in range(3):  # the very same ndarrays (and tuple), modified in place between the calls
                if step == 0:
                    coords[0][:] = coords[0] * rng.uniform(1.3, 2.5) + (np.ptp(originals[0]) or 1.0) * rng.uniform(-1, 1)
                    coords[1][:] = coords[1] * rng.uniform(0.3, 0.8) - (np.ptp(originals[1]) or 1.0) * rng.uniform(-1, 1)
                elif step == 1:
                    perm = rng.permutation(east.size)
                    for c in coords:
                        c[:] = c[perm]
                else:
                    for c, o in zip(coords, originals):
                        c[:] = o
                fresh = arguments(coords[0], coords[1])
                for target, source in zip(data if isinstance(data, tuple) else (data,), fresh[1] if isinstance(fresh[1], tuple) else (fresh[1],)):
                    target[:] = source
                if wts is not None:
                    for target in (wts if isinstance(wts, tuple) else (wts,)):
                        target[:] = rng.integers(1, 60, target.size) if target.dtype.kind in "iu" else 10 ** rng.uniform(-3, 3, target.size)
                reducer.filter(coords, data, wts)
            calls = 4
    run.count("class:history:%s_calls" % tag, calls)
    run.count("class:history:%s_calls:%s" % (tag, region_tag), calls)
    if kwargs["center_coordinates"]:
        run.count("class:history:%s_calls:center_coordinates" % tag, calls)
    return {"history": tag, "constructor": {k: v for k, v in kwargs.items()}, "reduction": getattr(reduction, "__name__", "?"),
            "data_dtypes": dtypes, "weighted": weighted, "calls_on_one_instance": calls}


def _reconfigured(run, rng, verde):
    """
    Built with P1, optionally used, then re-configured to P2 (set_params / attribute assignment / clone().set_params) and used:
    the monitor judges the call with the parameters in force when it was made (get_params snapshot just before the call).
    """
    east, north = blk.make_points(rng, n=int(rng.integers(10, 50)), kind=str(rng.choice(["uniform", "jitter", "clusters"])))
    kwargs = blk.history_blocks(rng, east, north)
    kwargs["drop_coords"] = bool(rng.random() < 0.5)
    ncomp = int(rng.choice([1, 2]))
    weighted = bool(rng.random() < 0.4)
    dtypes = blk.choose_dtypes(rng, ncomp)
    pool = WEIGHTED if weighted else [r for r in UNWEIGHTED if r is not np.prod or all(d == "float64" for d in dtypes)]
    reduction = pool[int(rng.integers(0, len(pool)))]

    def arguments():
        data = _fields(rng, east, north, ncomp, dtypes)
        wts = _weights(rng, east.size, ncomp) if weighted else None
        coords = (east, north, gen.smooth_field(rng, east, north, amplitude=50.0))
        return coords, (data[0] if ncomp == 1 else tuple(data)), (None if wts is None else (wts[0] if ncomp == 1 else tuple(wts)))

    reducer = verde.BlockReduce(reduction, **kwargs)
    with warnings.catch_warnings():
        warnings.simplefilter("ignore")
        used = bool(rng.random() < 0.5)
        if used:
            reducer.filter(*arguments())
        kinds = ["spacing", "shape_vs_spacing", "region", "adjust", "center_coordinates", "drop_coords", "reduction", "reduction"]
        changes, names = blk.pick_changes(rng, reducer.get_params(deep=False), east, north, sorted(set(kinds)), reductions=pool)
        reducer, how = blk.reconfigure(rng, reducer, changes)
        reducer.filter(*arguments())
    run.count("class:reconfigured_calls")
    run.count("class:reconfigured:how:" + how)
    run.count("class:reconfigured:" + ("used_before" if used else "never_used_before"))
    for name in names:
        run.count("class:reconfigured:param:" + name)
    return {"constructed_with": dict(kwargs, reduction=getattr(reduction, "__name__", "?")), "used_before_the_change": used, "how": how,
            "changed_to": {k: (getattr(v, "__name__", v) if callable(v) else v) for k, v in changes.items()}}


def run_case(run, tap, stream, index, rng):
    import verde

    if stream == "large":
        _large_call(run, rng, verde, index)
        return
    if stream == "defaults":
        _defaults(run, rng, verde)
        return
    if stream == "value_coincidences":
        for _ in range(CALLS_PER_CASE):
            info = _value_coincidences(run, rng, verde)
        run.sample("occupied_blocks_that_reduce_to_zero", info)
        return
    if stream == "many_coordinates":
        for _ in range(CALLS_PER_CASE):
            info = _many_coordinates(run, rng, verde)
        run.sample("eleven_or_more_coordinate_arrays", info)
        return
    if stream == "zero_weights":
        for k in range(CALLS_PER_CASE):
            if k % 2:
                _zero_weight_border(run, rng, verde)
            else:
                _zero_weight_per_component(run, rng, verde)
        return
    if stream == "spellings":
        for _ in range(CALLS_PER_CASE):
            info = _one_call(run, rng, verde, spelled=True, layout=str(rng.choice(["1d", "1d", "2d", "series", "readonly"])))
        run.sample("equivalent_spellings", {k: info[k] for k in ("reduction", "kwargs", "layout", "weighted", "result_coordinates", "result_data")})
        return
    if stream == "reconfigure":
        for _ in range(4):
            info = _reconfigured(run, rng, verde)
        run.sample("reconfigured_instance", info)
        return
    if stream == "reuse":
        for _ in range(2):
            info = _history(run, rng, verde, inplace=False)
        run.sample("reuse_history", info)
        return
    if stream == "inplace":
        for _ in range(3):
            info = _history(run, rng, verde, inplace=True)
        return

    if stream == "random":
        for _ in range(CALLS_PER_CASE):
            info = _one_call(run, rng, verde)
        run.sample("random", info)
    elif stream == "edges":
        for _ in range(CALLS_PER_CASE):
            info = _one_call(run, rng, verde, edges=True, kind=str(rng.choice(["uniform", "jitter"])))
        run.sample("points_on_block_edges", info)
    elif stream == "series":
        for _ in range(CALLS_PER_CASE):
            info = _one_call(run, rng, verde, layout=str(rng.choice(["series", "series_str", "mixed"])), weighted=rng.random() < 0.75)
        run.sample("pandas_series_inputs", info)
    elif stream == "tiny":
        for _ in range(CALLS_PER_CASE):
            info = _one_call(run, rng, verde, npoints=int(rng.integers(1, 4)))
    elif stream == "refused":
        # the documentation asks for a reduction that accepts weights= ; anything else is a usage error
        for reduction in (np.mean, np.median, np.sum):
            try:
                _one_call(run, rng, verde, weighted=True, reduction=reduction, npoints=12)
            except TypeError as exc:
                if "weights" not in str(exc):
                    raise
            else:
                run.violation("weights_refused", "a weighted call with %s (no weights= keyword) returned normally: the weights were ignored"
                              % reduction.__name__, {}, key="weights_ignored")
    elif stream == "nested":
        _nested(run, rng, verde)


def _nested(run, rng, verde):
    """BlockReduce as other verde code calls it: every nested return is judged by the same monitor."""
    for _ in range(2):
        east, north = blk.make_points(rng, n=int(rng.integers(20, 70)), kind="uniform")
        data = gen.smooth_field(rng, east, north, amplitude=10.0)
        spacing = float((east.max() - east.min()) / rng.uniform(2, 5))
        with warnings.catch_warnings():
            warnings.simplefilter("ignore")
            chain = verde.Chain([("reduce", verde.BlockReduce(np.median, spacing=spacing)), ("trend", verde.Trend(degree=1))])
            chain.fit((east, north), data)
            weights = rng.uniform(0.5, 2, east.size)
            chain = verde.Chain([("reduce", verde.BlockReduce(np.average, spacing=spacing, center_coordinates=True, drop_coords=False)),
                                 ("trend", verde.Trend(degree=1))])
            chain.fit((east, north, data * 2), data, weights)
            run.count("nested:chain_fit", 2)
    # project_grid(antialias=True) runs a BlockReduce(np.mean) over the projected grid nodes
    import xarray as xr

    ne, nn = int(rng.integers(8, 14)), int(rng.integers(8, 14))
    e = np.linspace(0, 10, ne)
    n = np.linspace(-5, 5, nn)
    ee, nn2 = np.meshgrid(e, n)
    values = np.sin(ee / 3) * nn2 + ee
    values[rng.integers(0, nn), rng.integers(0, ne)] = np.nan  # dropna() leaves a Series with gaps in its index
    grid = xr.DataArray(values, coords={"northing": n, "easting": e}, dims=("northing", "easting"))
    factor = float(rng.uniform(2.0, 3.5))

    def projection(x, y):
        return x * factor, y * factor + 1.0

    with warnings.catch_warnings():
        warnings.simplefilter("ignore")
        verde.project_grid(grid, projection, method="nearest", antialias=True, spacing=float(factor * 2.3))
    run.count("nested:project_grid_antialias")


LEVEL_TEXT = (
    "Every normal return of BlockReduce.filter produced by the seeded workload (direct calls, Chain.fit, project_grid) is recomputed "
    "without pandas from the labels of its nested block_split event, which are themselves re-derived by floor arithmetic on the "
    "reference block geometry for all points clearly inside a block. Held means no refutation among the monitored executions."
)
LEVEL_NOTE = (
    "Trusted: numpy sort/min/max, math.fsum, the C07 reference geometry; membership of points within 1e-9 block sizes of an edge is "
    "taken from the observed labels; unknown reduction callables are applied by the oracle to plain numpy member arrays."
)
TECHNIQUE = (
    "runtime postcondition monitor on the real BlockReduce.filter with the nested block_split event from the recorded call tree; "
    "pandas-free reference reductions; seeded hostile workload over reductions, weights, layouts and block geometries"
)
