"""
C20 - calls are pure, repeatable, history-free and reject inconsistent input.

Cross-cutting monitors:

* purity   - a pre/post digest (bytes, dtype, shape, write flag, pandas index, xarray coords, estimator
             constructor parameters) of every argument of every tapped public function and estimator
             method, on every call, nested ones included;
* histories - repeat-call, read-only-argument, refit-versus-fresh, clone/reconstruct, predict-before-fit
             and single-inconsistency (with paired control) histories driven by the workload.
"""
import collections
import copy
import warnings

import numpy as np

from .. import core, gen

ID = "C20"
LEVEL = "exploration"
RULE = (
    "cases = (a) every call made by the workload to a tapped public function / estimator method (purity digest before and after, nested calls "
    "included); (b) call specs over the public API executed twice with equal arguments and once with read-only copies (repeatability, read-only "
    "acceptance); (c) fit histories of 2-4 datasets of different sizes/shapes per estimator versus a fresh estimator fitted to the last one, plus "
    "clone / reconstruct-from-get_params twins; (d) predict before fit; (e) single inconsistencies (coordinate shapes, data shape, weights count/size, "
    "both/neither of shape and spacing, invalid region, wrong name counts, non-tuple vector data) through every entry point, each paired with a "
    "control call that has the inconsistency removed and must succeed. Non-trivial = the call received at least one array argument (purity), or "
    "the history changed dataset size/shape, or the inconsistency's control succeeded; distinct = hash of (entry point, arguments)."
)
ASSUMPTIONS = [
    "documented exception: least_squares(..., copy_jacobian=False) may scale the Jacobian it is handed in place; its data/weights arguments may not change",
    "documented exception: VectorSpline2D.fit fills its force_coords constructor parameter on the first fit and reuses it afterwards",
    "a Vector with fewer components than data arrays silently ignores the surplus arrays: the statement does not list this mismatch, it is not monitored",
    "rejection cases are only counted when the same call with the inconsistency removed returns normally (paired control)",
]
LEVEL_TEXT = (
    "Argument digests before/after every tapped call (42 functions and estimator methods, all subclasses) decide purity on each execution; "
    "repeat / read-only / refit-versus-fresh / clone histories are compared bit for bit; each single inconsistency must raise through each entry "
    "point while its control succeeds. Held = no refutation among the monitored executions."
)
LEVEL_NOTE = "Trusted: SHA-1 digests of array bytes+dtype+shape+flags; scikit-learn's clone/get_params as the duplication mechanism named by the property."
TECHNIQUE = "runtime purity monitor (argument digests before/after every tapped call) plus recorded call histories checked offline (repeat, read-only, refit-vs-fresh, clone, rejection with paired control)"
FLOORS = {
    "quick": {"eval:purity": 20000, "eval:repeat": 85, "eval:readonly": 85, "eval:history": 28, "eval:clone": 18, "eval:unfitted": 9,
              "eval:rejection": 250, "eval:aliasing": 20, "eval:stale_state": 75, "eval:result_ownership": 40, "eval:reconfigure": 85, "eval:error_path": 30, "eval:param_fidelity": 24, "eval:concurrent": 60, "yields_injected": 2000, "distinct_nontrivial": 5000},
    "thorough": {"eval:purity": 600000, "eval:repeat": 2800, "eval:readonly": 2800, "eval:history": 1100, "eval:clone": 750, "eval:rejection": 8000,
                 "eval:aliasing": 750, "distinct_nontrivial": 100000},
}
JOBS = {"quick": 1, "thorough": 16}
CASE_TIMEOUT_S = 1200


def plan(tier):
    if tier == "quick":
        return collections.OrderedDict(specs=2, history=6, clone=4, unfitted=1, rejection=3, aliasing=6, reconfigure=4, borrowed=8, concurrent=3)
    return collections.OrderedDict(specs=70, history=240, clone=160, unfitted=20, rejection=100, aliasing=240, reconfigure=160, borrowed=120, concurrent=60, ambient=17)


# ----------------------------------------------------------------------
# purity monitor
# ----------------------------------------------------------------------
def _strip(obj, depth=0, fitted=False):
    """
    Replace estimators by their constructor parameters (minus VectorSpline2D.force_coords, the documented memory) and their other
    non-fitted instance attributes; with fitted=True (estimators passed as *arguments*, which a call must leave untouched) the
    fitted attributes are included too.
    """
    if depth > 6:
        return None
    if fitted and hasattr(obj, "get_params") and not isinstance(obj, type):
        state = {}
        for k, v in getattr(obj, "__dict__", {}).items():
            if type(v).__name__ in ("cKDTree", "KDTree", "LinearNDInterpolator", "CloughTocher2DInterpolator", "NearestNDInterpolator"):
                state[k] = type(v).__name__
            else:
                state[k] = _strip(v, depth + 1, True)
        return ("estimator-with-state", type(obj).__name__, state)
    if hasattr(obj, "get_params") and not isinstance(obj, type):
        try:
            params = obj.get_params(deep=False)
        except Exception:  # noqa: BLE001
            return type(obj).__name__
        if type(obj).__name__ == "VectorSpline2D":
            params = {k: v for k, v in params.items() if k != "force_coords"}
        # instance attributes that are neither constructor parameters nor fitted attributes (trailing underscore): a method that
        # leaves something here (e.g. overrides a class-level default on the instance) changes how later calls behave
        extra = {k: v for k, v in getattr(obj, "__dict__", {}).items()
                 if not k.endswith("_") and not k.startswith("_") and k not in params and k != "force_coords"}
        return ("estimator", type(obj).__name__, {k: _strip(v, depth + 1) for k, v in params.items()},
                {k: _strip(v, depth + 1) for k, v in extra.items()})
    if isinstance(obj, tuple):
        return tuple(_strip(v, depth + 1, fitted) for v in obj)
    if isinstance(obj, list):
        return [_strip(v, depth + 1, fitted) for v in obj]
    if isinstance(obj, dict):
        return {k: _strip(v, depth + 1, fitted) for k, v in obj.items()}
    return obj


def _arg_digests(ev):
    out = {}
    for name, value in ev.args.items():
        key = "self.params" if name == "self" else name
        # estimators handed to cross_val_score must come back untouched, fitted state included (C12 states it; a serial path that
        # fits the caller's object also makes later calls history-dependent). Elsewhere only constructor parameters and other
        # non-fitted attributes are compared: project_grid(method=<gridder>) and Chain / Vector legitimately fit what they are given.
        out[key] = core.digest(_strip(value, fitted=(name == "estimator" and ev.name == "cross_val_score")))
    return out


def _has_array(value, depth=0):
    import pandas as pd

    if isinstance(value, (np.ndarray, pd.Series, pd.DataFrame)) or type(value).__name__ in ("DataArray", "Dataset"):
        return True
    if depth < 4 and isinstance(value, (list, tuple)):
        return any(_has_array(v, depth + 1) for v in value)
    if depth < 4 and isinstance(value, dict):
        return any(_has_array(v, depth + 1) for v in value.values())
    return False


def install(tap, run):
    import verde as vd
    import verde.base
    import sys as _sys

    import verde.base.least_squares  # noqa: F401
    vls = _sys.modules["verde.base.least_squares"]
    import verde.base.utils as vbu
    import verde.blockreduce as vbr
    import verde.coordinates as vc
    import verde.distances as vdist
    import verde.mask as vmask
    import verde.model_selection as vms
    import verde.projections as vproj
    import verde.utils as vu

    def pre(ev):
        return _arg_digests(ev)

    def post(ev):
        before = ev.pre
        if before is None:
            return
        after = _arg_digests(ev)
        run.evaluated("purity")
        run.count("purity:" + ev.name)
        changed = [k for k in before if before[k] != after.get(k)]
        if ev.name == "least_squares" and not ev.args.get("copy_jacobian", False):
            changed = [k for k in changed if k != "jacobian"]
        if any(_has_array(v) for k, v in ev.args.items() if k != "self"):
            run.mark_nontrivial("purity", ev.name, before)
        for name in changed:
            what = "constructor parameters of the estimator" if name == "self.params" else "argument '%s'" % name
            run.violation("purity", "%s modified %s (outcome: %s)" % (ev.name, what, "raised %r" % (ev.exc,) if ev.exc is not None else "returned"),
                          {"callable": ev.name, "argument": name, "value_after": ev.args.get(name) if name != "self.params" else repr(ev.args.get("self"))},
                          key="purity:%s:%s" % (ev.name, name))

    functions = [
        (vc, ["block_split", "expanding_window", "get_region", "grid_coordinates", "inside", "line_coordinates", "longitude_continuity",
              "pad_region", "profile_coordinates", "rolling_window", "scatter_points", "check_region", "shape_to_spacing", "spacing_to_size"]),
        (vdist, ["median_distance"]),
        (vmask, ["convexhull_mask", "distance_mask"]),
        (vms, ["cross_val_score", "train_test_split"]),
        (vproj, ["project_grid", "project_region"]),
        (vu, ["grid_to_table", "make_xarray_grid", "maxabs", "variance_to_weights", "meshgrid_to_1d", "meshgrid_from_1d", "check_meshgrid", "kdtree", "partition_by_sum"]),
        (vls, ["least_squares"]),
        (vbu, ["check_fit_input", "n_1d_arrays", "score_estimator"]),
    ]
    for module, names in functions:
        for name in names:
            tap.function(module, name, pre=pre, post=post)
    for name in ("fit", "predict", "filter", "score", "grid", "scatter", "profile", "jacobian"):
        tap.method(verde.base.BaseGridder, name, pre=pre, post=post, subclasses=True)
    tap.method(vbr.BlockReduce, "filter", pre=pre, post=post, subclasses=True)
    tap.method(verde.base.BaseBlockCrossValidator, "split", pre=pre, post=post, generator=True, subclasses=True)


# ----------------------------------------------------------------------
# helpers
# ----------------------------------------------------------------------
def _dataset(rng, n=None, ncomp=1, shape2d=False, weights=False):
    if n is None:
        n = int(rng.choice([12, 20, 30, 48]))
    east, north = gen.cloud(rng, n, kind=str(rng.choice(["uniform", "jitter"])), scale=gen.log_uniform(rng, 1, 1e4), offset_factor=float(rng.choice([0, 1])))
    comps = tuple(gen.smooth_field(rng, east, north, amplitude=gen.log_uniform(rng, 0.1, 100)) for _ in range(ncomp))
    wts = tuple(rng.uniform(0.2, 2.0, n) for _ in range(ncomp)) if weights else None
    if shape2d:
        for rows in (2, 3, 4, 5, 6):
            if n % rows == 0:
                east, north = east.reshape(rows, -1), north.reshape(rows, -1)
                comps = tuple(c.reshape(rows, -1) for c in comps)
                wts = None if wts is None else tuple(w.reshape(rows, -1) for w in wts)
                break
    data = comps[0] if ncomp == 1 else comps
    if wts is not None and ncomp == 1:
        wts = wts[0]
    return (east, north), data, wts


_KEEP = {"region", "p1", "p2", "p", "center", "sizes", "spacing", "extra", "pad", "r", "x_extra"}


def _outcome(call, args):
    try:
        return core.digest(call(args), flags=False)
    except Exception as exc:  # noqa: BLE001
        return "raised:" + type(exc).__name__


def _values(obj, depth=0):
    """Flatten a result into a list of arrays / scalars / tags for a tolerant comparison (see _same_values)."""
    import pandas as pd

    out = []
    if depth > 6:
        return out
    if isinstance(obj, BaseException):
        return ["raised:" + type(obj).__name__]
    if isinstance(obj, np.ndarray):
        return [obj]
    if isinstance(obj, (pd.Series, pd.Index)):
        return [np.asarray(obj)]
    if isinstance(obj, pd.DataFrame):
        for col in obj.columns:
            out += [str(col), np.asarray(obj[col])]
        return out
    if type(obj).__name__ == "DataArray":
        out += [str(obj.name), str(obj.dims), np.asarray(obj.values)]
        for name in obj.coords:
            out += [str(name), np.asarray(obj.coords[name].values)]
        return out
    if type(obj).__name__ == "Dataset":
        for name in obj.variables:
            out += [str(name), str(obj[name].dims), np.asarray(obj[name].values)]
        return out
    if isinstance(obj, (list, tuple)):
        out.append("seq%d" % len(obj))
        for item in obj:
            out += _values(item, depth + 1)
        return out
    if isinstance(obj, dict):
        for key in sorted(obj, key=str):
            out += [str(key)] + _values(obj[key], depth + 1)
        return out
    if isinstance(obj, (bool, int, float, np.generic)):
        return [np.asarray(obj)]
    return [core.digest(obj, flags=False)]


def _same_values(got, want):
    """
    Equal up to the last bits: numpy's reductions and BLAS calls are not bit-reproducible across differently aligned buffers,
    and threads change what the allocator hands out, so results of calls made concurrently are compared with their serial
    twins at 1e-7 of the result's magnitude (integers, booleans, names, shapes and NaN positions exactly). A call that picked up
    another call's data differs by the size of the data, not by round-off.
    """
    a, b = _values(got), _values(want)
    if len(a) != len(b):
        return False
    for x, y in zip(a, b):
        if isinstance(x, str) or isinstance(y, str):
            if x != y:
                return False
            continue
        if x.shape != y.shape or x.dtype.kind != y.dtype.kind:
            return False
        if x.dtype.kind == "f":
            scale = float(np.nanmax(np.abs(y[np.isfinite(y)]))) if np.isfinite(y).any() else 1.0
            if not np.allclose(x, y, rtol=1e-7, atol=1e-7 * max(scale, 1e-300), equal_nan=True):
                return False
        elif x.dtype.kind == "O":
            if core.digest(x, flags=False) != core.digest(y, flags=False):
                return False
        elif not np.array_equal(x, y):
            return False
    return True


def _result_or_exception(call, args):
    try:
        return call(args)
    except Exception as exc:  # noqa: BLE001 - an exception is an outcome too (scipy returns NaN next to sliver triangles, a score then raises)
        return exc


def _scribble_on_result(result, args):
    """Overwrite (in place) every writable float/int ndarray in result that does not share memory with an argument array."""
    import pandas as pd

    arg_arrays = []

    def collect(obj, depth=0):
        if isinstance(obj, np.ndarray):
            arg_arrays.append(obj)
        elif isinstance(obj, (pd.Series, pd.DataFrame)):
            return
        elif type(obj).__name__ in ("DataArray", "Dataset"):
            for var in getattr(obj, "variables", {}).values():
                arg_arrays.append(np.asarray(var.values))
        elif depth < 5 and isinstance(obj, (tuple, list)):
            for item in obj:
                collect(item, depth + 1)
        elif depth < 5 and isinstance(obj, dict):
            for item in obj.values():
                collect(item, depth + 1)

    collect(args)
    count = 0

    def walk(obj, depth=0):
        nonlocal count
        if isinstance(obj, np.ndarray) and obj.size and obj.flags.writeable and obj.dtype.kind in "fiu":
            if not any(np.shares_memory(obj, a) for a in arg_arrays if a.size):
                obj[...] = obj * 0 + 12345
                count += 1
        elif depth < 5 and isinstance(obj, (tuple, list)):
            for item in obj:
                walk(item, depth + 1)

    walk(result)
    return count


def _reverse_in_place(args):
    """Reverse (in C order) every ndarray with more than one element under the data-like keys; returns how many changed."""
    count = 0

    def walk(obj):
        nonlocal count
        if isinstance(obj, np.ndarray) and obj.size > 1 and obj.flags.writeable and obj.dtype != object:
            flipped = obj.ravel()[::-1].copy().reshape(obj.shape)
            if not np.array_equal(flipped, obj, equal_nan=True):
                obj[...] = flipped
                count += 1
        elif isinstance(obj, (tuple, list)):
            for item in obj:
                walk(item)

    for key, value in args.items():
        if key not in _KEEP:
            walk(value)
    return count


def _readonly(obj):
    """Deep copy with every ndarray / Series made read-only."""
    import pandas as pd

    if isinstance(obj, np.ndarray):
        out = obj.copy()
        out.setflags(write=False)
        return out
    if isinstance(obj, pd.Series):
        vals = obj.to_numpy().copy()
        vals.setflags(write=False)
        return pd.Series(vals, index=obj.index.copy(), copy=False)
    if isinstance(obj, tuple):
        return tuple(_readonly(v) for v in obj)
    if isinstance(obj, list):
        return [_readonly(v) for v in obj]
    if isinstance(obj, dict):
        return {k: _readonly(v) for k, v in obj.items()}
    return obj


def _estimators(vd, rng, scalar=True):
    """(name, factory) pairs; factories build a *fresh* estimator each time."""
    damping = float(10 ** rng.uniform(-6, -1))
    k = int(rng.integers(1, 4))
    deg = int(rng.integers(0, 3))
    if scalar:
        return [
            ("Spline", lambda: vd.Spline(damping=damping)),
            ("Spline_exact", lambda: vd.Spline()),
            ("Trend", lambda: vd.Trend(deg)),
            ("KNeighbors", lambda: vd.KNeighbors(k=k)),
            ("Linear", lambda: vd.Linear()),
            ("Cubic", lambda: vd.Cubic(rescale=True)),
            ("Chain", lambda: vd.Chain([("trend", vd.Trend(1)), ("spline", vd.Spline(damping=damping))])),
            ("Chain_reduce", lambda: vd.Chain([("mean", vd.BlockReduce(np.average, shape=(3, 3))), ("knn", vd.KNeighbors(k=1))])),
            ("SplineCV", lambda: vd.SplineCV(dampings=(1e-4, 1e-2), cv=__import__("sklearn.model_selection", fromlist=["KFold"]).KFold(n_splits=3, shuffle=True, random_state=0))),
        ]
    return [
        ("VectorSpline2D", lambda: vd.VectorSpline2D(poisson=0.3, mindist=50.0, damping=damping)),
        ("Vector", lambda: vd.Vector([vd.Trend(1), vd.Spline(damping=damping)])),
        ("Chain_vector", lambda: vd.Chain([("trend", vd.Vector([vd.Trend(1), vd.Trend(1)])), ("spline", vd.VectorSpline2D(mindist=50.0, damping=damping))])),
    ]


def _strip_repr(obj):
    """Datasets carry the repr of the generating estimator as metadata; two equal-behaving estimators may print differently (force_coords)."""
    if isinstance(obj, tuple):
        return tuple(_strip_repr(o) for o in obj)
    if type(obj).__name__ == "Dataset":
        out = obj.copy()
        out.attrs = {}
        for name in out.variables:
            out[name].attrs = {}
        return out
    return obj


def _pred_digest(est, query):
    return core.digest(est.predict(query))


def _query(rng, coords):
    e, n = np.asarray(coords[0]).ravel(), np.asarray(coords[1]).ravel()
    return (rng.uniform(e.min(), e.max(), 7), rng.uniform(n.min(), n.max(), 7))


# ----------------------------------------------------------------------
# call specs for repeatability / read-only acceptance
# ----------------------------------------------------------------------
def _specs(vd, rng, n=None):
    """Yield (name, callable(args_dict) -> result, args_dict). All arrays live in args_dict."""
    import xarray as xr

    coords, data, weights = _dataset(rng, n=int(rng.choice([20, 30, 42])) if n is None else n, weights=True)
    east, north = coords
    region = [float(east.min()), float(east.max()), float(north.min()), float(north.max())]
    span = min(region[1] - region[0], region[3] - region[2])
    vcoords, vdata, vweights = _dataset(rng, n=24, ncomp=2, weights=True)
    var = np.abs(rng.normal(size=(4, 5)))
    var[1, 2] = np.nan
    var[0, 0] = 0.0
    ge, gn = np.meshgrid(np.linspace(region[0], region[1], 6), np.linspace(region[2], region[3], 5))
    gvals = gen.smooth_field(rng, ge, gn, amplitude=3.0)
    grid = xr.Dataset({"v": (("northing", "easting"), gvals), "u": (("northing", "easting"), gvals * 2)},
                      coords={"easting": ge[0], "northing": gn[:, 0]})
    seed = int(rng.integers(0, 10 ** 6))
    X = np.column_stack([east, north])
    sp = float(span / 3)

    def proj(x, y):
        return x * 2.0 + 1.0, y * 0.5 - 3.0

    yield "grid_coordinates", lambda a: vd.grid_coordinates(a["region"], spacing=a["spacing"], extra_coords=a["extra"]), {"region": np.array(region), "spacing": np.array([sp, sp * 0.7]), "extra": np.array([1.0, 2.0])}
    yield "shape_to_spacing", lambda a: (vd.coordinates.shape_to_spacing(a["region"], a["shape"]), vd.coordinates.shape_to_spacing(a["region"], a["shape"], pixel_register=True)), {"region": np.array(region), "shape": np.array([5, 7])}
    yield "grid_coordinates_shape_array", lambda a: vd.grid_coordinates(a["region"], shape=a["shape"]), {"region": np.array(region), "shape": np.array([4, 6])}
    yield "line_coordinates", lambda a: vd.line_coordinates(a["r"][0], a["r"][1], spacing=sp), {"r": np.array(region[:2])}
    yield "profile_coordinates", lambda a: vd.profile_coordinates(a["p1"], a["p2"], 11), {"p1": np.array(region[::2]), "p2": np.array(region[1::2])}
    yield "scatter_points", lambda a: vd.scatter_points(a["region"], 50, random_state=seed, extra_coords=a["extra"]), {"region": np.array(region), "extra": np.array([3.0])}
    yield "get_region", lambda a: vd.get_region(a["c"]), {"c": (east, north)}
    yield "inside", lambda a: vd.inside(a["c"], a["region"]), {"c": (east, north), "region": np.array(region) * 0.9}
    yield "pad_region", lambda a: vd.pad_region(a["region"], a["pad"]), {"region": np.array(region), "pad": np.array([1.0, 2.0])}
    yield "block_split", lambda a: vd.block_split(a["c"], spacing=sp), {"c": (east, north)}
    yield "rolling_window", lambda a: vd.rolling_window(a["c"], size=span / 2, spacing=span / 4), {"c": (east, north)}
    yield "rolling_window_region", lambda a: vd.rolling_window(a["c"], size=span / 2, spacing=span / 4, region=a["region"]), {"c": (east, north), "region": np.array(region)}
    yield "expanding_window", lambda a: vd.expanding_window(a["c"], center=a["center"], sizes=a["sizes"]), {"c": (east, north), "center": np.array([east.mean(), north.mean()]), "sizes": np.array([span / 4, span / 2])}
    lon_w, lon_e = [(340.0, 20.0), (350.0, 10.0), (170.0, -170.0), (-30.0, 45.0)][seed % 4]
    yield "longitude_continuity", lambda a: vd.longitude_continuity(a["c"], a["region"]), {"c": [np.array([350.0, 5.0, 10.0, -170.0, 360.0]), np.array([-5.0, 0.0, 5.0, 1.0, 2.0])], "region": np.array([lon_w, lon_e, -10.0, 10.0])}
    yield "longitude_continuity_360", lambda a: vd.longitude_continuity(a["c"], a["region"]), {"c": [np.array([-170.0, 200.0, 360.0, 185.0]), np.array([-5.0, 0.0, 5.0, 1.0])], "region": np.array([150.0 + seed % 7, 250.0 - seed % 5, -10.0, 10.0])}
    yield "variance_to_weights", lambda a: vd.variance_to_weights(a["var"]), {"var": var}
    yield "variance_to_weights_tuple", lambda a: vd.variance_to_weights(a["var"]), {"var": (var, var.ravel() * 2)}
    yield "maxabs", lambda a: vd.maxabs(a["x"], a["y"]), {"x": var, "y": -east}
    yield "make_xarray_grid", lambda a: vd.make_xarray_grid(a["c"], a["d"], data_names=["a", "b"], extra_coords_names="h"), {"c": (ge, gn, ge * 0 + 5), "d": (gvals, gvals + 1)}
    yield "make_xarray_grid_1d", lambda a: vd.make_xarray_grid(a["c"], a["d"], data_names="a"), {"c": (ge[0].copy(), gn[:, 0].copy()), "d": gvals}
    yield "grid_to_table", lambda a: vd.grid_to_table(a["g"]), {"g": grid}
    yield "median_distance", lambda a: vd.median_distance(a["c"], k_nearest=3), {"c": (east, north)}
    yield "distance_mask", lambda a: vd.distance_mask(a["d"], maxdist=span / 4, coordinates=a["c"]), {"d": (east, north), "c": (ge, gn)}
    yield "distance_mask_grid", lambda a: vd.distance_mask(a["d"], maxdist=span / 4, grid=a["g"]), {"d": (east, north), "g": grid}
    yield "convexhull_mask", lambda a: vd.convexhull_mask(a["d"], coordinates=a["c"]), {"d": (east, north), "c": (ge * 1.2, gn * 1.2)}
    yield "convexhull_mask_grid", lambda a: vd.convexhull_mask(a["d"], grid=a["g"], projection=proj), {"d": (east, north), "g": grid}
    # projections that hand (some of) their arguments straight back - identity, "scale the longitude only": what the function then
    # holds are the caller's own arrays, not fresh ones
    def passthrough(x, y, inverse=False):  # noqa: U100
        return x, y

    def half_passthrough(x, y, inverse=False):
        return (x * 2.0, y) if inverse else (x * 0.5, y)

    for pname, pfun in (("identity", passthrough), ("one_coordinate_returned_as_is", half_passthrough)):
        yield "convexhull_mask_projection_" + pname, (lambda f: lambda a: vd.convexhull_mask(a["d"], coordinates=a["c"], projection=f))(pfun), {"d": (east, north), "c": (ge * 1.2, gn * 1.2)}
        yield "distance_mask_projection_" + pname, (lambda f: lambda a: vd.distance_mask(a["d"], maxdist=span / 4, coordinates=a["c"], projection=f))(pfun), {"d": (east, north), "c": (ge, gn)}
        yield "project_region_" + pname, (lambda f: lambda a: vd.project_region(a["region"], f))(pfun), {"region": np.array(region)}
        yield "project_grid_" + pname, (lambda f: lambda a: vd.project_grid(a["g"], f, method="nearest"))(pfun), {"g": grid["v"]}
        yield "Trend.grid_scatter_profile_projection_" + pname, (lambda f: lambda a: (lambda est: (est.grid(region=region, shape=(4, 5), projection=f), est.scatter(region=region, size=12, random_state=seed, projection=f),
                                                                                     est.profile(a["p1"], a["p2"], 7, projection=f)))(vd.Trend(1).fit(a["c"], a["d"])))(pfun), {"c": (east, north), "d": data, "p1": np.array(region[::2]), "p2": np.array(region[1::2])}
        yield "convexhull_mask_grid_projection_" + pname, (lambda f: lambda a: vd.convexhull_mask(a["d"], grid=a["g"], projection=f))(pfun), {"d": (east, north), "g": grid}
    yield "project_region", lambda a: vd.project_region(a["region"], proj), {"region": np.array(region)}
    yield "project_grid", lambda a: vd.project_grid(a["g"], proj, method="linear"), {"g": grid["v"]}
    yield "project_grid_nearest_noaa", lambda a: vd.project_grid(a["g"], proj, method="nearest", antialias=False), {"g": grid["v"]}
    yield "train_test_split", lambda a: vd.train_test_split(a["c"], a["d"], a["w"], test_size=0.3, random_state=seed), {"c": (east, north), "d": data, "w": weights}
    yield "train_test_split_blocked", lambda a: vd.train_test_split(a["c"], a["d"], spacing=sp, test_size=0.3, random_state=seed), {"c": (east, north), "d": data}
    yield "cross_val_score", lambda a: vd.cross_val_score(vd.Trend(1), a["c"], a["d"], a["w"]), {"c": (east, north), "d": data, "w": weights}
    yield "cross_val_score_vector_delayed", lambda a: [float(s.compute()) for s in vd.cross_val_score(vd.Vector([vd.Trend(1), vd.Trend(1)]), a["c"], a["d"], a["w"], delayed=True, scoring="neg_mean_squared_error")], {"c": vcoords, "d": vdata, "w": vweights}
    yield "BlockKFold.split", lambda a: list(vd.BlockKFold(spacing=sp, n_splits=2, shuffle=True, random_state=seed).split(a["X"])), {"X": X}
    yield "BlockShuffleSplit.split", lambda a: list(vd.BlockShuffleSplit(spacing=sp, n_splits=2, test_size=0.3, random_state=seed).split(a["X"])), {"X": X}
    # the extremes of documented parameter domains, each with a fixed seed: fast paths taken only there must stay repeatable
    yield "BlockShuffleSplit.split_balancing_1", lambda a: list(vd.BlockShuffleSplit(spacing=sp, n_splits=3, test_size=0.3, balancing=1, random_state=seed).split(a["X"])), {"X": X}
    yield "BlockShuffleSplit.split_balancing_2_int_test_size", lambda a: list(vd.BlockShuffleSplit(shape=(3, 3), n_splits=2, test_size=2, balancing=2, random_state=seed).split(a["X"])), {"X": X}
    yield "BlockKFold.split_two_folds_unshuffled", lambda a: list(vd.BlockKFold(shape=(2, 2), n_splits=2).split(a["X"])), {"X": X}
    yield "train_test_split_blocked_balancing_1", lambda a: vd.train_test_split(a["c"], a["d"], spacing=sp, test_size=0.3, random_state=seed, balancing=1), {"c": (east, north), "d": data}
    yield "KNeighbors.k_equals_n", lambda a: vd.KNeighbors(k=east.size, reduction=np.median).fit(a["c"], a["d"]).predict(a["c"]), {"c": (east, north), "d": data}
    yield "Trend.degree_0_weighted", lambda a: vd.Trend(0).fit(a["c"], a["d"], a["w"]).predict(a["c"]), {"c": (east, north), "d": data, "w": weights}
    yield "VectorSpline2D.poisson_extremes", lambda a: [vd.VectorSpline2D(poisson=p, mindist=span, damping=1e-2).fit(a["c"], a["d"]).predict(a["c"]) for p in (-1, 1.0)], {"c": vcoords, "d": vdata}
    # calls that rely on documented defaults: BaseGridder.scatter is seeded by default (random_state=0), so two identical calls agree
    for gname, gmake in (("Trend", lambda: vd.Trend(1)), ("KNeighbors", lambda: vd.KNeighbors()), ("Spline", lambda: vd.Spline(damping=1e-3)),
                         ("Chain", lambda: vd.Chain([("t", vd.Trend(1)), ("k", vd.KNeighbors())]))):
        yield gname + ".scatter_default_seed", (lambda f: lambda a: (lambda est: (est.scatter(size=11), est.scatter(region=region, size=7, extra_coords=a["x"])))(f().fit(a["c"], a["d"])))(gmake), {"c": (east, north), "d": data, "x": np.array([3.0])}
    yield "CheckerBoard.scatter_default_seed", lambda a: (vd.synthetic.CheckerBoard(region=a["region"]).scatter(size=9), vd.synthetic.CheckerBoard(region=a["region"]).scatter()), {"region": np.array(region)}
    yield "BlockReduce.filter", lambda a: vd.BlockReduce(np.median, spacing=sp).filter(a["c"], a["d"]), {"c": (east, north), "d": data}
    yield "BlockReduce.filter_weighted", lambda a: vd.BlockReduce(np.average, spacing=sp, center_coordinates=True).filter(a["c"], a["d"], a["w"]), {"c": (east, north), "d": data, "w": weights}
    yield "BlockMean.filter", lambda a: vd.BlockMean(spacing=sp).filter(a["c"], a["d"]), {"c": (east, north), "d": data}
    yield "BlockMean.filter_weighted", lambda a: vd.BlockMean(spacing=sp, uncertainty=bool(seed % 2)).filter(a["c"], a["d"], a["w"]), {"c": (east, north), "d": data, "w": weights}
    yield "BlockMean.filter_vector", lambda a: vd.BlockMean(shape=(3, 3)).filter(a["c"], a["d"], a["w"]), {"c": vcoords, "d": vdata, "w": vweights}
    jac = vd.Trend(2).jacobian((east, north))
    yield "least_squares_copy", lambda a: verde_ls(vd)(a["jac"], a["d"], a["w"], damping=1e-3, copy_jacobian=True), {"jac": jac, "d": data, "w": weights}
    yield "least_squares_inplace", lambda a: verde_ls(vd)(a["jac"].copy(), a["d"], a["w"], damping=None), {"jac": jac, "d": data, "w": weights}
    query = _query(rng, coords)
    for name, factory in _estimators(vd, rng, scalar=True):
        yield name + ".fit_predict", (lambda f: lambda a: f().fit(a["c"], a["d"], a["w"]).predict(a["q"]))(factory), {"c": (east, north), "d": data, "w": weights, "q": query}
        yield name + ".filter", (lambda f: lambda a: f().filter(a["c"], a["d"], a["w"]))(factory), {"c": (east, north), "d": data, "w": weights}
        yield name + ".grid", (lambda f: lambda a: f().fit(a["c"], a["d"]).grid(shape=(4, 5), extra_coords=a["x"]))(factory), {"c": (east, north), "d": data, "x": np.array([7.0])}
        yield name + ".named_outputs", (lambda f: lambda a: _named_outputs(f().fit(a["c"], a["d"]), a, seed))(factory), {"c": (east, north), "d": data, "p1": np.array(region[::2]), "p2": np.array(region[1::2])}
        yield name + ".grid_coordinates", (lambda f: lambda a: f().fit(a["c"], a["d"]).grid(coordinates=a["g"]))(factory), {"c": (east, north), "d": data, "g": (ge, gn)}
        yield name + ".profile_scatter_score", (lambda f: lambda a: _profile_scatter_score(f().fit(a["c"], a["d"], a["w"]), a, seed))(factory), {"c": (east, north), "d": data, "w": weights, "p1": np.array(region[::2]), "p2": np.array(region[1::2])}
    vq = _query(rng, vcoords)
    for name, factory in _estimators(vd, rng, scalar=False):
        yield name + ".fit_predict", (lambda f: lambda a: f().fit(a["c"], a["d"], a["w"]).predict(a["q"]))(factory), {"c": vcoords, "d": vdata, "w": vweights, "q": vq}
        yield name + ".filter", (lambda f: lambda a: f().filter(a["c"], a["d"], a["w"]))(factory), {"c": vcoords, "d": vdata, "w": vweights}
        yield name + ".grid_score", (lambda f: lambda a: (lambda est: (est.grid(shape=(3, 4)), est.score(a["c"], a["d"], a["w"])))(f().fit(a["c"], a["d"], a["w"])))(factory), {"c": vcoords, "d": vdata, "w": vweights}
    yield "Spline.jacobian", lambda a: vd.Spline(mindist=1.0).jacobian(a["c"], a["f"]), {"c": (east, north), "f": (east[:5].copy(), north[:5].copy())}
    yield "VectorSpline2D.jacobian", lambda a: vd.VectorSpline2D(mindist=10.0).jacobian(a["c"], a["f"]), {"c": (east, north), "f": (east[:5].copy(), north[:5].copy())}
    yield "Trend.jacobian", lambda a: vd.Trend(3).jacobian(a["c"]), {"c": (east, north)}
    yield "CheckerBoard", lambda a: (lambda cb: (cb.predict(a["c"]), cb.scatter(size=10, random_state=seed), cb.grid(shape=(3, 3)), cb.profile(a["p"][0], a["p"][1], 5)))(vd.synthetic.CheckerBoard(region=a["region"])), {"c": (east, north), "region": np.array(region), "p": (np.array(region[::2]), np.array(region[1::2]))}


def verde_ls(vd):
    import verde.base

    return verde.base.least_squares


def _named_outputs(est, a, seed):
    """Custom names in one call, defaults in the next, on the same object: a call must not change what later calls return."""
    custom = (est.grid(shape=(3, 4), dims=["latitude", "longitude"], data_names=["value"]),
              est.profile(a["p1"], a["p2"], 5, dims=("y", "x"), data_names="value"),
              est.scatter(size=6, random_state=seed, dims=["lat", "lon"], data_names=["value"]))
    default = (est.grid(shape=(3, 4)), est.profile(a["p1"], a["p2"], 5), est.scatter(size=6, random_state=seed))
    names = [list(default[0].dims), list(default[1].columns), list(default[2].columns)]
    return custom, default, names


def _profile_scatter_score(est, a, seed):
    return (est.profile(a["p1"], a["p2"], 9), est.scatter(size=15, random_state=seed), est.score(a["c"], a["d"], a["w"]))


# ----------------------------------------------------------------------
def run_case(run, tap, stream, index, rng):
    if stream == "ambient":
        return core.ambient_tests(run, core.ALL_TEST_FILES[index])
    import sklearn.base
    import verde as vd

    with warnings.catch_warnings():
        warnings.simplefilter("ignore")
        if stream == "specs":
            for name, call, args in _specs(vd, rng):
                args_backup = copy.deepcopy(args)
                first = core.digest(call(args), flags=False)
                second = core.digest(call(args), flags=False)
                run.evaluated("repeat")
                run.count("spec:" + name)
                run.mark_nontrivial("repeat", name, args_backup)
                if first != second:
                    run.violation("repeat", "%s: two calls with equal arguments returned different results" % name, {"spec": name, "args": args_backup}, key="repeat:" + name)
                if core.digest(args) != core.digest(args_backup):
                    run.violation("purity", "%s: arguments changed across the call (top-level digest)" % name, {"spec": name, "before": args_backup, "after": args}, key="purity-top:" + name)
                ro_args = _readonly(args_backup)
                run.evaluated("readonly")
                try:
                    third = core.digest(call(ro_args), flags=False)
                except Exception as exc:  # noqa: BLE001
                    run.violation("readonly", "%s: read-only arguments rejected (%s: %s) although writable ones are accepted" % (name, type(exc).__name__, exc),
                                  {"spec": name, "args": args_backup}, key="readonly:" + name)
                    continue
                if third != first:
                    run.violation("readonly", "%s: result differs for read-only arguments" % name, {"spec": name, "args": args_backup}, key="readonly-diff:" + name)
                # returned arrays belong to the caller: editing them in place must not change what the next identical call returns
                live = copy.deepcopy(args_backup)
                try:
                    res_obj = call(live)
                    edited = _scribble_on_result(res_obj, live)
                except Exception:  # noqa: BLE001
                    edited = 0
                if edited:
                    again = _outcome(call, live)
                    run.evaluated("result_ownership")
                    if again != first:
                        run.violation("result_ownership", "%s: after the caller modified the returned arrays in place, an identical call returns something else (a returned array is shared with internal state)" % name,
                                      {"spec": name, "args": args_backup}, key="result-alias:" + name)
                # history-freedom of plain calls: call, change the SAME array objects in place, call again - the second result must be
                # what a first call on fresh copies of the changed arrays returns (nothing may be remembered across calls)
                args_live = copy.deepcopy(args_backup)
                _outcome(call, args_live)
                changed = _reverse_in_place(args_live)
                if changed:
                    after = _outcome(call, args_live)
                    fresh = _outcome(call, copy.deepcopy(args_live))
                    run.evaluated("stale_state")
                    if after != fresh:
                        run.violation("stale_state", "%s: a call on array objects that were modified in place since an earlier call differs from the same call on fresh copies (state kept across calls)" % name,
                                      {"spec": name, "args_after_modification": args_live}, key="stale:" + name)
            run.sample("specs", {"last_spec": name, "n_args": len(args)})
        elif stream == "concurrent":
            # the same public callable running at the same time in several threads on DIFFERENT data of the same shapes: each
            # result must be what the call returns when made alone (repeatability does not depend on what else is running;
            # scratch space or fitted objects kept at module / class level would leak between the calls)
            nsets = int(rng.choice([2, 3]))
            npts = int(rng.choice([20, 30, 42]))
            sets = [dict((name, (call, args)) for name, call, args in _specs(vd, np.random.default_rng(int(rng.integers(0, 2 ** 31))), n=npts)) for _ in range(nsets)]
            names = [name for name in sets[0] if all(name in other for other in sets)]
            chunk = [name for k, name in enumerate(names) if k % 3 == index % 3]
            # SplineCV re-selects its damping by an argmax over scores inside the call: last-bit noise (see _same_values) may flip a
            # near-tie, which is not a dependence on concurrency - its fit runs concurrently only in the shared-instance part below
            run.count("skipped:concurrent_specs_with_internal_argmax", sum(1 for name in chunk if name.startswith("SplineCV.")))
            chunk = [name for name in chunk if not name.startswith("SplineCV.")]
            for name in chunk:
                alone = []
                for spec in sets:
                    call, args = spec[name]
                    alone.append(_result_or_exception(call, args))

                def job(call, args):
                    return lambda: [_result_or_exception(call, args) for _ in range(2)]
                inject = 0.3 if (index < 3 or (index // 3) % 2 == 0) else 0.0
                results = core.run_threads([job(*spec[name]) for spec in sets], timeout=300, yield_probability=inject, seed=index)
                run.evaluated("concurrent")
                run.count("concurrent:" + name)
                run.mark_nontrivial("concurrent", name, index)
                for k, (res, exc) in enumerate(results):
                    if isinstance(exc, TimeoutError):
                        run.note_inconclusive("concurrent %s: %r" % (name, exc))
                    elif exc is not None:
                        run.violation("concurrent", "%s raised %r when %d calls on different data ran concurrently (the same call succeeds alone)" % (name, exc, nsets),
                                      {"spec": name}, key="concurrent-raised:" + name)
                    elif any(not _same_values(d, alone[k]) for d in res):
                        run.violation("concurrent", "%s: a call returned something else while %d calls on different data of the same shapes ran concurrently than when made alone" % (name, nsets),
                                      {"spec": name, "threads": nsets}, key="concurrent:" + name)
            # one fitted estimator shared by all threads, each asking for something else (tiles of a map gridded in parallel)
            coords, data, weights = _dataset(rng, n=npts, weights=True)
            vcoords, vdata, vweights = _dataset(rng, n=24, ncomp=2, weights=True)
            for scalar in (True, False):
                c, d, w = (coords, data, weights) if scalar else (vcoords, vdata, vweights)
                e0, n0 = (np.asarray(x).ravel() for x in c)
                for name, factory in _estimators(vd, rng, scalar=scalar)[index % 3::3]:
                    est = factory().fit(c, d, w)
                    asks = []
                    for k in range(nsets):
                        reg = [float(e0.min() + 0.1 * k * np.ptp(e0)), float(e0.max() + 0.2 * k * np.ptp(e0)), float(n0.min() - 0.15 * k * np.ptp(n0)), float(n0.max())]
                        dims = [("northing", "easting"), ("lat", "lon"), ("y", "x")][k % 3]
                        asks.append((lambda reg, dims, k: lambda: _result_or_exception(lambda a: (
                            est.grid(region=reg, shape=(5, 6), dims=dims), est.scatter(region=reg, size=15, random_state=k), est.predict((e0[k:k + 7] + k, n0[k:k + 7])),
                            est.profile((reg[0], reg[2]), (reg[1], reg[3]), 9, dims=dims)), None))(reg, dims, k))
                    alone = [ask() for ask in asks]
                    results = core.run_threads([(lambda ask: lambda: [ask() for _ in range(2)])(ask) for ask in asks], timeout=300, yield_probability=0.3, seed=index)
                    run.evaluated("concurrent")
                    run.count("concurrent_shared_instance:" + name)
                    for k, (res, exc) in enumerate(results):
                        if isinstance(exc, TimeoutError):
                            run.note_inconclusive("concurrent shared %s: %r" % (name, exc))
                        elif exc is not None:
                            run.violation("concurrent", "%s: grid/scatter/predict/profile on one fitted instance raised %r when asked concurrently from %d threads" % (name, exc, nsets),
                                          {"estimator": name}, key="concurrent-shared-raised:" + name)
                        elif any(not _same_values(dg, alone[k]) for dg in res):
                            run.violation("concurrent", "%s: grid/scatter/predict/profile on one fitted instance returned something else when %d threads asked for different regions at the same time" % (name, nsets),
                                          {"estimator": name, "threads": nsets}, key="concurrent-shared:" + name)
            run.count("yields_injected", getattr(core.run_threads, "yields_injected", 0) - run.counters.get("yields_injected", 0))
            run.sample("concurrent", {"specs": len(chunk), "threads": nsets, "n_points": npts})
        elif stream == "history":
            for scalar in (True, False):
                ncomp = 1 if scalar else 2
                for name, factory in _estimators(vd, rng, scalar=scalar):
                    nsets = int(rng.integers(2, 5))
                    sets = [_dataset(rng, n=int(rng.choice([12, 18, 24, 30, 40])), ncomp=ncomp, shape2d=bool(rng.random() < 0.4), weights=bool(rng.random() < 0.5))
                            for _ in range(nsets)]
                    if rng.random() < 0.5:  # the last dataset is the previous one with its points in another order (same point set)
                        c_prev, d_prev, w_prev = sets[-1]
                        flat = [np.asarray(x).ravel() for x in c_prev]
                        perm = rng.permutation(flat[0].size)
                        d_new = tuple(np.asarray(x).ravel()[perm] for x in d_prev) if isinstance(d_prev, tuple) else np.asarray(d_prev).ravel()[perm]
                        w_new = None if w_prev is None else (tuple(np.asarray(x).ravel()[perm] for x in w_prev) if isinstance(w_prev, tuple) else np.asarray(w_prev).ravel()[perm])
                        sets.append((tuple(x[perm] for x in flat), d_new, w_new))
                        run.count("history:permuted_refit")
                    est = factory()
                    for coords, data, weights in sets:
                        est.fit(coords, data, weights)
                    query = _query(rng, sets[-1][0])
                    fresh = factory()
                    if name in ("VectorSpline2D", "Chain_vector"):
                        first_coords = tuple(np.asarray(c).ravel().copy() for c in sets[0][0][:2])
                        if name == "VectorSpline2D":
                            fresh.set_params(force_coords=first_coords)
                        else:
                            fresh.steps[1][1].set_params(force_coords=first_coords)
                    fresh.fit(*sets[-1])
                    run.evaluated("history")
                    run.count("history:" + name)
                    run.mark_nontrivial("history", name, [np.shape(s[0][0]) for s in sets], query)
                    got, want = est.predict(query), fresh.predict(query)
                    got = (got, [float(v) for v in est.region_], est.grid(shape=(3, 4)))
                    want = (want, [float(v) for v in fresh.region_], fresh.grid(shape=(3, 4)))
                    last = sets[-1][0]
                    bbox = [float(np.min(last[0])), float(np.max(last[0])), float(np.min(last[1])), float(np.max(last[1]))]
                    if [float(v) for v in est.region_] != bbox:
                        run.violation("history", "%s: after %d fits region_ is not the bounding box of the data of the latest fit" % (name, nsets),
                                      {"estimator": name, "region_": [float(v) for v in est.region_], "bounding_box_of_last_data": bbox}, key="history-region:" + name)
                    if core.digest(_strip_repr(got)) != core.digest(_strip_repr(want)):
                        run.violation("history", "%s refitted on %d datasets predicts differently from a fresh estimator fitted to the last one" % (name, nsets),
                                      {"estimator": name, "dataset_shapes": [np.shape(s[0][0]) for s in sets], "refitted": got, "fresh": want, "query": query},
                                      key="history:" + name)
            run.sample("history", {"estimator": name, "dataset_shapes": [np.shape(s[0][0]) for s in sets]})
        elif stream == "clone":
            for scalar in (True, False):
                ncomp = 1 if scalar else 2
                coords, data, weights = _dataset(rng, ncomp=ncomp, weights=True)
                query = _query(rng, coords)
                for name, factory in _estimators(vd, rng, scalar=scalar):
                    original = factory()
                    twin = sklearn.base.clone(original)
                    rebuilt = type(original)(**original.get_params(deep=False))
                    ref_pred = core.digest(original.fit(coords, data, weights).predict(query))
                    run.evaluated("clone")
                    run.count("clone:" + name)
                    run.mark_nontrivial("clone", name, coords, data)
                    for label, other in (("clone", twin), ("reconstructed from get_params", rebuilt)):
                        if name in ("Chain", "Chain_reduce", "Vector", "Chain_vector") and label != "clone":
                            # get_params(deep=False) hands the *same* step objects to the rebuilt chain; fitting it refits shared steps - fine, same data
                            pass
                        got = core.digest(other.fit(coords, data, weights).predict(query))
                        if got != ref_pred:
                            run.violation("clone", "%s: the %s twin predicts differently from the original" % (name, label), {"estimator": name, "twin": label}, key="clone:%s:%s" % (name, label))
                    after_clone = sklearn.base.clone(original)
                    if core.digest(_strip(after_clone)) != core.digest(_strip(factory())):
                        run.violation("clone", "%s: constructor parameters changed by fit/predict" % name, {"estimator": name}, key="params:" + name)
            # block reductions are estimators too: clone / rebuild twins must filter identically
            coords, data, weights = _dataset(rng, weights=True)
            span = float(min(np.ptp(coords[0]), np.ptp(coords[1])))
            for name, factory in (("BlockReduce", lambda: vd.BlockReduce(np.median, spacing=span / 3, center_coordinates=True)),
                                  ("BlockReduce_weighted", lambda: vd.BlockReduce(np.average, spacing=(span / 3, span / 2), adjust="region")),
                                  ("BlockMean", lambda: vd.BlockMean(spacing=span / 3, uncertainty=True))):
                run.evaluated("clone")
                run.count("clone:" + name)
                original = factory()
                w = None if name == "BlockReduce" else weights
                ref_out = core.digest(original.filter(coords, data, w), flags=False)
                twins = [sklearn.base.clone(original), type(original)(**original.get_params(deep=False))]
                outs = [core.digest(t.filter(coords, data, w), flags=False) for t in twins]
                if any(o != ref_out for o in outs):
                    run.violation("clone", "%s: a clone / rebuilt twin behaves differently from the original" % name, {"estimator": name}, key="clone:" + name)
            _param_fidelity(run, rng, vd, sklearn.base.clone)
            run.sample("clone", {"estimator": name})
        elif stream == "unfitted":
            coords, data, weights = _dataset(rng)
            query = _query(rng, coords)
            for scalar in (True, False):
                for name, factory in _estimators(vd, rng, scalar=scalar):
                    for method in ("predict", "grid"):
                        est = factory()
                        run.evaluated("unfitted")
                        try:
                            if method == "predict":
                                est.predict(query)
                            else:
                                est.grid(region=[0, 1, 0, 1], shape=(3, 3))
                        except Exception:  # noqa: BLE001 - any error is the required refusal
                            run.count("unfitted_raised:" + name)
                            continue
                        run.violation("unfitted", "%s.%s before fit returned normally" % (name, method), {"estimator": name, "method": method}, key="unfitted:" + name)
            # composites assembled from parts that were fitted on their own: the composite itself was never fitted
            parts = [vd.Trend(1).fit(coords, data), vd.Spline(damping=1e-3).fit(coords, data), vd.KNeighbors().fit(coords, data)]
            composites = [("Chain_of_fitted_steps", vd.Chain([("a", parts[0]), ("b", parts[1])]), query),
                          ("Chain_of_fitted_steps_knn", vd.Chain([("k", parts[2])]), query),
                          ("Vector_of_fitted_components", vd.Vector([parts[0], parts[2]]), query),
                          ("Chain_nested_fitted", vd.Chain([("inner", vd.Chain([("a", parts[0])])), ("b", parts[1])]), query)]
            for name, comp, q in composites:
                for method in ("predict", "grid", "profile"):
                    run.evaluated("unfitted")
                    try:
                        if method == "predict":
                            comp.predict(q)
                        elif method == "grid":
                            comp.grid(region=[0, 1, 0, 1], shape=(3, 3))
                        else:
                            comp.profile((0.0, 0.0), (1.0, 1.0), 4)
                    except Exception:  # noqa: BLE001
                        run.count("unfitted_raised:" + name)
                        continue
                    run.violation("unfitted", "%s.%s before the composite was fitted returned normally" % (name, method), {"estimator": name, "method": method}, key="unfitted:" + name)
            run.mark_nontrivial("unfitted", index)
        elif stream == "rejection":
            _rejection(run, rng, vd)
        elif stream == "borrowed":
            _borrowed(run, tap, index, rng)
        elif stream == "reconfigure":
            _reconfigure(run, rng, vd)
        elif stream == "aliasing":
            # estimators that store copies of what they were given (C20 anchors: force_coords_, data_) must not follow
            # later in-place changes of the caller's arrays: predict repeated with equal arguments returns identical results
            damping = float(10 ** rng.uniform(-6, -1))
            kfold = __import__("sklearn.model_selection", fromlist=["KFold"]).KFold(n_splits=3, shuffle=True, random_state=0)
            cands = [
                ("Spline", 1, lambda: vd.Spline(damping=damping)), ("Spline_exact", 1, lambda: vd.Spline()), ("Trend", 1, lambda: vd.Trend(2)),
                ("KNeighbors", 1, lambda: vd.KNeighbors(k=int(rng.integers(1, 4)))), ("SplineCV", 1, lambda: vd.SplineCV(dampings=(1e-4, 1e-2), cv=kfold)),
                ("Chain", 1, lambda: vd.Chain([("t", vd.Trend(1)), ("s", vd.Spline(damping=damping))])),
                ("Chain_knn_first", 1, lambda: vd.Chain([("k", vd.KNeighbors(k=2)), ("t", vd.Trend(1))])),
                ("VectorSpline2D", 2, lambda: vd.VectorSpline2D(mindist=30.0, damping=damping)),
                ("Vector", 2, lambda: vd.Vector([vd.KNeighbors(k=1), vd.Spline(damping=damping)])),
            ]
            for name, ncomp, factory in cands:
                coords, data, weights = _dataset(rng, ncomp=ncomp, shape2d=bool(rng.random() < 0.3), weights=bool(rng.random() < 0.5))
                query = _query(rng, coords)
                est = factory().fit(coords, data, weights)
                before = core.digest(est.predict(query), flags=False)
                for arr in list(coords) + (list(data) if isinstance(data, tuple) else [data]) + ([] if weights is None else (list(weights) if isinstance(weights, tuple) else [weights])):
                    arr *= -1.7
                    arr += 3.0
                after = core.digest(est.predict(query), flags=False)
                run.evaluated("aliasing")
                run.count("aliasing:" + name)
                run.mark_nontrivial("aliasing", name, query)
                if before != after:
                    run.violation("aliasing", "%s: predict with equal arguments changed after the caller modified the arrays it had passed to fit (the estimator kept a reference instead of a copy)" % name,
                                  {"estimator": name, "query": query}, key="aliasing:" + name)
            run.sample("aliasing", {"estimators": [c[0] for c in cands]})


# ----------------------------------------------------------------------
def _param_fidelity(run, rng, vd, clone):
    """Every constructor parameter, set to a NON-default value, is reported by get_params and survives clone / rebuild with identical behaviour."""
    import inspect

    import sklearn.model_selection as skms

    coords, data, weights = _dataset(rng, n=24, weights=True)
    vcoords, vdata, vweights = _dataset(rng, n=24, ncomp=2, weights=True)
    east, north = coords
    extra = east * 0.5 + 3.0
    span = float(min(np.ptp(east), np.ptp(north)))
    region = [float(east.min()) - 0.1 * span, float(east.max()) + 0.2 * span, float(north.min()) - 0.3 * span, float(north.max()) + 0.1 * span]
    forces = (east[:6].copy() + 0.05 * span, north[:6].copy())
    vforces = (np.asarray(vcoords[0]).ravel()[:6].copy(), np.asarray(vcoords[1]).ravel()[:6].copy() + 1.0)
    query = _query(rng, coords)
    vquery = _query(rng, vcoords)
    kf3 = skms.KFold(n_splits=3, shuffle=True, random_state=1)

    def fp(est):
        return est.fit(coords, data, weights).predict(query)

    def vfp(est):
        return est.fit(vcoords, vdata, vweights).predict(vquery)

    def flt(est):
        return est.filter((east, north, extra), data, weights)

    table = [
        (vd.Spline, dict(mindist=0.1 * span, damping=1e-3, force_coords=forces, engine="numpy"), fp),
        (vd.VectorSpline2D, dict(poisson=0.3, mindist=2 * span, damping=1e-2, force_coords=vforces, engine="numpy"), vfp),
        (vd.Trend, dict(degree=2), fp),
        (vd.KNeighbors, dict(k=3, reduction=np.median), fp),
        (vd.Linear, dict(rescale=True), fp),
        (vd.Cubic, dict(rescale=True), fp),
        (vd.ScipyGridder, dict(method="linear", extra_args={"rescale": True}), fp),
        (vd.SplineCV, dict(mindists=[0.1 * span], dampings=(1e-3, 1e-1), force_coords=forces, engine="numpy", cv=kf3, delayed=True, scoring="neg_mean_squared_error"), fp),
        (vd.BlockReduce, dict(reduction=np.average, spacing=span / 3, region=region, adjust="region", center_coordinates=True, drop_coords=False), flt),
        (vd.BlockReduce, dict(reduction=np.average, shape=(2, 3), drop_coords=False), flt),
        (vd.BlockMean, dict(spacing=span / 3, region=region, adjust="region", center_coordinates=True, uncertainty=True, drop_coords=False), flt),
        (vd.BlockMean, dict(shape=(3, 2), drop_coords=False), flt),
        (vd.Chain, dict(steps=[("t", vd.Trend(2)), ("k", vd.KNeighbors(k=2))]), fp),
        (vd.Vector, dict(components=[vd.Trend(2), vd.KNeighbors(k=2)]), vfp),
        (vd.synthetic.CheckerBoard, dict(amplitude=3.0, region=tuple(region), w_east=span / 2, w_north=span / 5), lambda est: est.predict(coords)),
    ]
    for cls, params, observe in table:
        name = cls.__name__
        est = cls(**params)
        run.evaluated("param_fidelity")
        run.count("param_fidelity:" + name)
        declared = [p for p in inspect.signature(cls.__init__).parameters if p not in ("self",)]
        reported = est.get_params(deep=False)
        # what decides is behaviour: the clone and the estimator rebuilt from get_params() must act exactly like the original.
        # get_params() not reporting a parameter, or reporting something other than what the constructor was given, is recorded as
        # the diagnosis of a behavioural difference, not as a violation of its own (a constructor may normalise its arguments).
        diagnosis = []
        for key, value in params.items():
            if key not in reported:
                diagnosis.append("get_params() does not report constructor parameter %r" % key)
            elif reported[key] is not value and not (np.isscalar(value) and np.isscalar(reported[key]) and type(reported[key]) is type(value) and reported[key] == value):
                diagnosis.append("get_params()[%r] is not the object given to the constructor" % key)
        if any(p.startswith("*") or "kwargs" in p for p in declared) or not set(params) <= set(declared):
            diagnosis.append("constructor parameters %s are not named parameters of %s.__init__ (%s)" % (sorted(set(params) - set(declared)), name, declared))
        if diagnosis:
            run.count("observed:get_params_not_verbatim:" + name)
        problems = []
        ref = _outcome(lambda a: observe(est), None)
        makers = {"clone": lambda: clone(cls(**params)), "rebuilt from get_params": lambda: cls(**cls(**params).get_params(deep=False))}
        for label, make in makers.items():
            try:
                twin = make()
            except Exception as exc:  # noqa: BLE001
                problems.append("the %s twin cannot be built: %r" % (label, exc))
                continue
            if _outcome(lambda a: observe(twin), None) != ref:
                problems.append("the %s twin behaves differently from the original" % label)
        for problem in problems:
            run.violation("param_fidelity", "%s(%s): %s%s" % (name, ", ".join(sorted(params)), problem, (" [" + "; ".join(diagnosis) + "]") if diagnosis else ""),
                          {"class": name, "parameters": repr(params)[:400], "diagnosis": diagnosis}, key="param-fidelity:" + name)


def _reconfigure(run, rng, vd):
    """
    Histories in which an object is re-configured or hits an error between uses. An estimator whose parameters were changed with
    set_params / attribute assignment (before or after it was used) must behave like a fresh one built with the new parameters, and a
    call that raised must leave no trace: the next valid call behaves like on a fresh object, the same invalid call raises again.
    """
    import sklearn.model_selection as skms

    coords, data, weights = _dataset(rng, n=int(rng.choice([24, 36])), weights=True)
    vcoords, vdata, vweights = _dataset(rng, n=24, ncomp=2, weights=True)
    other = _dataset(rng, n=30, weights=True)
    query = _query(rng, coords)
    vquery = _query(rng, vcoords)
    east, north = coords
    span = float(min(np.ptp(east), np.ptp(north)))
    region = [float(east.min()), float(east.max()), float(north.min()), float(north.max())]
    forces = (east[:8].copy() + 0.1 * span, north[:8].copy())
    vforces = (np.asarray(vcoords[0]).ravel()[:8].copy(), np.asarray(vcoords[1]).ravel()[:8].copy() + 1.0)
    kf3 = skms.KFold(n_splits=3, shuffle=True, random_state=0)
    X = np.column_stack(coords)

    def fit_predict(est, c=coords, d=data, w=weights, q=query):
        return est.fit(c, d, w).predict(q)

    def vfit_predict(est):
        return est.fit(vcoords, vdata, vweights).predict(vquery)

    def filt(est):
        return est.filter(coords, data, weights)

    def filt_unweighted(est):
        return est.filter(coords, data)

    # (label, factory with parameters A, parameters B, observable)
    table = [
        ("Trend", lambda: vd.Trend(1), dict(degree=2), fit_predict),
        ("Trend_down", lambda: vd.Trend(3), dict(degree=1), fit_predict),
        ("Spline.damping", lambda: vd.Spline(damping=1e-2), dict(damping=1e-5), fit_predict),
        ("Spline.mindist", lambda: vd.Spline(damping=1e-3, mindist=0.5 * span), dict(mindist=0.0), fit_predict),
        ("Spline.force_coords", lambda: vd.Spline(damping=1e-3), dict(force_coords=forces), fit_predict),
        ("Spline.force_coords_none", lambda: vd.Spline(damping=1e-3, force_coords=forces), dict(force_coords=None), fit_predict),
        ("VectorSpline2D.poisson", lambda: vd.VectorSpline2D(poisson=0.5, mindist=span, damping=1e-3, force_coords=vforces), dict(poisson=-0.5), vfit_predict),
        ("VectorSpline2D.mindist_damping", lambda: vd.VectorSpline2D(mindist=span, damping=1e-3, force_coords=vforces), dict(mindist=2 * span, damping=1e-1), vfit_predict),
        ("KNeighbors.k", lambda: vd.KNeighbors(k=1), dict(k=3), fit_predict),
        ("KNeighbors.reduction", lambda: vd.KNeighbors(k=3), dict(reduction=np.median), fit_predict),
        ("Linear.rescale", lambda: vd.Linear(rescale=True), dict(rescale=False), fit_predict),
        ("Cubic.rescale", lambda: vd.Cubic(rescale=False), dict(rescale=True), fit_predict),
        ("SplineCV.dampings", lambda: vd.SplineCV(dampings=(1e-1, 1e-2), cv=kf3), dict(dampings=(1e-5, 1e-7)), fit_predict),
        ("SplineCV.scoring", lambda: vd.SplineCV(dampings=(1e-1, 1e-4), cv=kf3), dict(scoring="neg_mean_absolute_error", dampings=(1e-6, 1e-2)), fit_predict),
        ("Vector.components", lambda: vd.Vector([vd.Trend(1), vd.Trend(1)]), dict(components=[vd.Trend(2), vd.KNeighbors(k=2)]), vfit_predict),
        ("Chain.steps", lambda: vd.Chain([("t", vd.Trend(1)), ("s", vd.Spline(damping=1e-3))]), dict(steps=[("t", vd.Trend(2)), ("k", vd.KNeighbors(k=2))]), fit_predict),
        ("BlockReduce.reduction", lambda: vd.BlockReduce(np.mean, spacing=span / 3), dict(reduction=np.median), filt_unweighted),
        ("BlockReduce.spacing", lambda: vd.BlockReduce(np.median, spacing=span / 3), dict(spacing=span / 2, adjust="region"), filt_unweighted),
        ("BlockReduce.region_center", lambda: vd.BlockReduce(np.median, spacing=span / 3), dict(region=region, center_coordinates=True), filt_unweighted),
        ("BlockReduce.shape", lambda: vd.BlockReduce(np.average, spacing=span / 3), dict(spacing=None, shape=(2, 3)), filt),
        ("BlockMean.uncertainty_on", lambda: vd.BlockMean(spacing=span / 3), dict(uncertainty=True), filt),
        ("BlockMean.uncertainty_off", lambda: vd.BlockMean(spacing=span / 3, uncertainty=True), dict(uncertainty=False), filt),
        ("BlockMean.spacing", lambda: vd.BlockMean(spacing=span / 3), dict(spacing=span / 2, center_coordinates=True), filt),
        ("CheckerBoard.region", lambda: vd.synthetic.CheckerBoard(region=(0, 5000, -5000, 0)), dict(region=(10.0, 810.0, -200.0, 100.0)),
         lambda est: (est.predict(coords), est.grid(shape=(3, 4)), est.scatter(size=5, random_state=1))),
        ("CheckerBoard.wavelength", lambda: vd.synthetic.CheckerBoard(region=region), dict(w_east=span / 3, amplitude=7.0),
         lambda est: (est.predict(coords), est.grid(shape=(3, 4)))),
        ("BlockKFold.n_splits", lambda: vd.BlockKFold(spacing=span / 3, n_splits=2, shuffle=True, random_state=5), dict(n_splits=3, random_state=6),
         lambda est: list(est.split(X))),
        ("BlockKFold.spacing", lambda: vd.BlockKFold(spacing=span / 3, n_splits=2), dict(spacing=span / 4, balance=False), lambda est: list(est.split(X))),
        ("BlockShuffleSplit.test_size", lambda: vd.BlockShuffleSplit(spacing=span / 3, n_splits=2, random_state=4), dict(test_size=0.4, balancing=3),
         lambda est: list(est.split(X))),
    ]
    for label, factory, change, observe in table:
        for used_before in (True, False):
            live = factory()
            try:
                if used_before:
                    observe(live)  # the object is used with the old configuration first
                if change == "nested":
                    live.set_params(s__damping=1e-6, t__degree=2)
                    fresh = vd.Chain([("t", vd.Trend(2)), ("s", vd.Spline(damping=1e-6))])
                elif hasattr(live, "set_params") and rng.random() < 0.6:
                    live.set_params(**change)
                    fresh = factory()
                    fresh.set_params(**change) if False else None
                    fresh = type(live)(**dict(factory().get_params(deep=False), **change))
                else:
                    for key, value in change.items():
                        setattr(live, key, value)
                    base = factory()
                    params = base.get_params(deep=False) if hasattr(base, "get_params") else {k: getattr(base, k) for k in ("spacing", "shape", "n_splits", "shuffle", "random_state", "balance", "test_size", "train_size", "balancing") if hasattr(base, k)}
                    fresh = type(live)(**dict(params, **change))
                got = _outcome(lambda a: observe(live), None)
                want = _outcome(lambda a: observe(fresh), None)
            except Exception as exc:  # noqa: BLE001
                run.count("reconfigure_setup_error:%s:%s" % (label, type(exc).__name__))
                continue
            run.evaluated("reconfigure")
            run.count("reconfigure:" + label)
            run.mark_nontrivial("reconfigure", label, used_before, query)
            if got != want:
                run.violation("reconfigure", "%s: after changing parameters %s (object %s before) it does not behave like a fresh object built with the new parameters"
                              % (label, sorted(change) if isinstance(change, dict) else change, "used" if used_before else "not used"),
                              {"case": label, "used_before": used_before, "change": repr(change)[:300]}, key="reconfigure:" + label)
    # error paths: a call that raises leaves no trace
    bad_variants = [
        ("data shorter", lambda c, d, w: (c, d[:-1] if not isinstance(d, tuple) else tuple(x[:-1] for x in d), None)),
        ("coordinate shapes differ", lambda c, d, w: ((np.asarray(c[0])[:-2], c[1]), d, w)),
        ("weights shorter", lambda c, d, w: (c, d, (w[:-1] if not isinstance(w, tuple) else tuple(x[:-1] for x in w)))),
    ]
    for scalar in (True, False):
        c, d, w, q = (coords, data, weights, query) if scalar else (vcoords, vdata, vweights, vquery)
        oc, od, ow = other if scalar else (vcoords, tuple(x * 2.0 for x in vdata), vweights)
        for name, factory in _estimators(vd, rng, scalar=scalar):
            kind, mutate = bad_variants[int(rng.integers(0, len(bad_variants)))]
            live = factory()
            # the rejected call uses OTHER coordinates than the later valid one
            bc, bd, bw = mutate(oc if scalar else tuple(np.asarray(x) + 5.0 for x in oc), od, ow)
            try:
                live.fit(bc, bd, bw)
                run.count("error_path_not_raised:" + name)
                continue
            except Exception:  # noqa: BLE001
                pass
            try:
                got = core.digest(live.fit(c, d, w).predict(q), flags=False)
                want = core.digest(factory().fit(c, d, w).predict(q), flags=False)
            except Exception as exc:  # noqa: BLE001
                run.count("error_path_setup_error:%s:%s" % (name, type(exc).__name__))
                continue
            run.evaluated("error_path")
            run.count("error_path:" + name)
            if got != want:
                run.violation("error_path", "%s: after a fit() call that raised (%s) a valid fit on the same object predicts differently from a fresh estimator" % (name, kind),
                              {"estimator": name, "rejected_call": kind}, key="error-path:" + name)
    # functions: the same invalid call raises every time, also after valid calls in between
    invalid_calls = [
        ("longitude_continuity", lambda: vd.longitude_continuity(None, [-250.0, 10.0, -20.0, 20.0]), lambda: vd.longitude_continuity(None, [-50.0, 10.0, -20.0, 20.0])),
        ("longitude_continuity_lat", lambda: vd.longitude_continuity([np.array([10.0]), np.array([95.0])], [0.0, 20.0, -20.0, 20.0]), lambda: vd.longitude_continuity([np.array([10.0]), np.array([5.0])], [0.0, 20.0, -20.0, 20.0])),
        ("check_region", lambda: vd.grid_coordinates([3.0, 1.0, 0.0, 1.0], shape=(2, 2)), lambda: vd.grid_coordinates([1.0, 3.0, 0.0, 1.0], shape=(2, 2))),
        ("block_split_both", lambda: vd.block_split(coords, spacing=span / 3, shape=(2, 2)), lambda: vd.block_split(coords, spacing=span / 3)),
        ("make_xarray_grid_names", lambda: vd.make_xarray_grid((np.arange(3.0), np.arange(2.0)), np.ones((2, 3)), data_names=["a", "b"]), lambda: vd.make_xarray_grid((np.arange(3.0), np.arange(2.0)), np.ones((2, 3)), data_names=["a"])),
        ("rolling_window_size", lambda: vd.rolling_window(coords, size=span * 50, spacing=span), lambda: vd.rolling_window(coords, size=span / 2, spacing=span / 4)),
        ("BlockKFold_too_many", lambda: list(vd.BlockKFold(shape=(1, 2), n_splits=5).split(X)), lambda: list(vd.BlockKFold(shape=(2, 2), n_splits=2).split(X))),
    ]
    for name, bad, good in invalid_calls:
        outcomes = []
        for call in (bad, bad, good, bad):
            try:
                call()
                outcomes.append("returned")
            except Exception as exc:  # noqa: BLE001
                outcomes.append("raised")
        run.evaluated("error_path")
        run.count("error_path_function:" + name)
        if outcomes != ["raised", "raised", "returned", "raised"]:
            run.violation("error_path", "%s: the sequence invalid, invalid, valid, invalid gave %s (an invalid call must raise every time)" % (name, outcomes),
                          {"call": name, "outcomes": outcomes}, key="error-path-fn:" + name)


class _NullRun:
    """Swallows what a borrowed workload reports: only the C20 purity monitors judge those executions."""

    def __init__(self, run):
        self.tier, self.seed, self.case, self.prop_id = "quick", run.seed, run.case, run.prop_id
        self.exhaustive, self.notes, self.counters, self.maxima = {}, [], collections.Counter(), {}
        self.sets, self.nontrivial, self.samples, self.violations = collections.defaultdict(set), set(), [], []

    def __getattr__(self, name):
        return lambda *a, **k: None


BORROW_FROM = ["C01", "C02", "C03", "C04", "C05", "C06", "C08", "C09", "C10", "C11", "C12", "C14", "C15", "C16", "C18"]


def _borrowed(run, tap, index, rng):
    """Drive one case of another property's workload; the purity monitors installed here observe every call it makes."""
    import importlib

    prop = BORROW_FROM[index % len(BORROW_FROM)]
    try:
        mod = importlib.import_module("vmon.props." + prop.lower())
        streams = list(mod.plan("quick").items())
    except Exception as exc:  # noqa: BLE001
        run.count("borrowed_unavailable:" + prop)
        return
    stream, count = streams[int(rng.integers(0, len(streams)))]
    case = int(rng.integers(0, max(count, 1)))
    before = run.counters.get("eval:purity", 0)
    keep = tap.keep_tree
    try:
        mod.run_case(_NullRun(run), tap, stream, case, core.case_rng(run.seed, prop, stream, case))
    except Exception as exc:  # noqa: BLE001 - judged by that property's own check, not here
        run.count("borrowed_raised:%s:%s" % (prop, type(exc).__name__))
    finally:
        tap.keep_tree = keep
    run.count("borrowed:" + prop)
    run.count("borrowed_purity_evaluations", run.counters.get("eval:purity", 0) - before)


def _rejection(run, rng, vd):
    """Each single inconsistency must raise; the same call without it must succeed."""
    coords, data, weights = _dataset(rng, n=24, weights=True)
    east, north = coords
    vcoords, vdata, vweights = _dataset(rng, n=24, ncomp=2, weights=True)
    region = [float(east.min()), float(east.max()), float(north.min()), float(north.max())]
    span = min(region[1] - region[0], region[3] - region[2])
    sp = float(span / 3)
    X = np.column_stack([east, north])

    def variants(c, d, w):
        """(kind, coords, data, weights) single inconsistencies of a consistent (c, d, w)."""
        n = np.asarray(c[0]).size
        multi = isinstance(d, tuple)
        first = d[0] if multi else d
        out = [
            ("coordinate shapes differ", (c[0], c[1][:-1]), d, w),
            ("coordinate arrays reshaped differently", (c[0].reshape(2, -1), c[1]), d, w),
            # unequal but broadcast-compatible shapes: still not "the same shape"
            ("northing with a single element against n eastings", (c[0], c[1][:1]), d, w),
            ("northing (1, n) against easting (n,)", (c[0], c[1].reshape(1, -1)), d, w),
            ("easting (2, n/2) against northing (2, 1)", (c[0].reshape(2, -1), c[1][:2].reshape(2, 1)), tuple(x.reshape(2, -1) for x in d) if multi else d.reshape(2, -1),
             None if w is None else (tuple(x.reshape(2, -1) for x in w) if multi else w.reshape(2, -1))),
            ("data shorter than coordinates", c, tuple(x[:-1] for x in d) if multi else d[:-1], None),
            ("data reshaped (same size, other shape)", c, tuple(x.reshape(2, -1) for x in d) if multi else d.reshape(2, -1), None),
            ("weights shorter than data", c, d, tuple(x[:-1] for x in w) if multi else w[:-1]),
        ]
        if multi:
            out.append(("one data component shorter", c, (d[0], d[1][:-1]), None))
            out.append(("fewer weight components than data components", c, d, (w[0],)))
        else:
            out.append(("two weight arrays for one data array", c, d, (w, w)))
        return out

    def expect_raise(entry, kind, bad_call, good_call):
        try:
            good_call()
        except Exception as exc:  # noqa: BLE001
            run.count("control_failed:%s" % entry)
            run.notes.append("control failed for %s / %s: %r" % (entry, kind, exc)) if len(run.notes) < 20 else None
            return
        run.evaluated("rejection")
        run.count("rejection:" + entry)
        run.mark_nontrivial("rejection", entry, kind)
        try:
            bad_call()
        except Exception:  # noqa: BLE001 - an error is the required outcome
            return
        run.violation("rejection", "%s accepted inconsistent input: %s" % (entry, kind), {"entry": entry, "inconsistency": kind}, key="accept:%s:%s" % (entry, kind))

    scalar_entries = [(name, factory) for name, factory in _estimators(vd, rng, scalar=True)]
    for name, factory in scalar_entries:
        for kind, c, d, w in variants(coords, data, weights):
            expect_raise(name + ".fit", kind, lambda: factory().fit(c, d, w), lambda: factory().fit(coords, data, weights))
        kind, c, d, w = variants(coords, data, weights)[int(rng.integers(0, 5))]
        expect_raise(name + ".filter", kind, lambda: factory().filter(c, d, w), lambda: factory().filter(coords, data, weights))
        fitted = factory().fit(coords, data, weights)
        expect_raise(name + ".score", kind, lambda: fitted.score(c, d, w), lambda: fitted.score(coords, data, weights))
        expect_raise(name + ".grid both shape and spacing", "both shape and spacing", lambda: fitted.grid(shape=(3, 3), spacing=sp), lambda: fitted.grid(shape=(3, 3)))
        expect_raise(name + ".grid neither shape nor spacing", "neither shape nor spacing", lambda: fitted.grid(), lambda: fitted.grid(spacing=sp))
        expect_raise(name + ".grid coordinates and shape", "coordinates together with shape", lambda: fitted.grid(coordinates=(east, north), shape=(3, 3)), lambda: fitted.grid(coordinates=(np.sort(east), np.sort(north))))
        expect_raise(name + ".grid invalid region", "invalid region (W > E)", lambda: fitted.grid(region=[region[1], region[0], region[2], region[3]], shape=(3, 3)), lambda: fitted.grid(region=region, shape=(3, 3)))
        expect_raise(name + ".grid data_names", "two data names for one component", lambda: fitted.grid(shape=(3, 3), data_names=["a", "b"]), lambda: fitted.grid(shape=(3, 3), data_names=["a"]))
        expect_raise(name + ".profile data_names", "two data names for one component", lambda: fitted.profile((region[0], region[2]), (region[1], region[3]), 5, data_names=["a", "b"]),
                     lambda: fitted.profile((region[0], region[2]), (region[1], region[3]), 5, data_names="a"))
    for name, factory in _estimators(vd, rng, scalar=False):
        for kind, c, d, w in variants(vcoords, vdata, vweights):
            expect_raise(name + ".fit", kind, lambda: factory().fit(c, d, w), lambda: factory().fit(vcoords, vdata, vweights))
        fitted = factory().fit(vcoords, vdata, vweights)
        kind, c, d, w = variants(vcoords, vdata, vweights)[int(rng.integers(0, 7))]
        expect_raise(name + ".score", kind, lambda: fitted.score(c, d, w), lambda: fitted.score(vcoords, vdata, vweights))
        expect_raise(name + ".grid data_names", "one data name for two components", lambda: fitted.grid(shape=(3, 3), data_names=["a"]), lambda: fitted.grid(shape=(3, 3), data_names=["a", "b"]))
    expect_raise("Vector.fit", "data is a list, not a tuple", lambda: vd.Vector([vd.Trend(1), vd.Trend(1)]).fit(vcoords, list(vdata)), lambda: vd.Vector([vd.Trend(1), vd.Trend(1)]).fit(vcoords, vdata))
    expect_raise("Vector.fit", "weights is a list, not a tuple", lambda: vd.Vector([vd.Trend(1), vd.Trend(1)]).fit(vcoords, vdata, list(vweights)), lambda: vd.Vector([vd.Trend(1), vd.Trend(1)]).fit(vcoords, vdata, vweights))
    expect_raise("VectorSpline2D.fit", "three data components", lambda: vd.VectorSpline2D(mindist=10.0).fit(vcoords, vdata + (vdata[0],)), lambda: vd.VectorSpline2D(mindist=10.0).fit(vcoords, vdata))
    # block reductions, splitters, windows, coordinates
    # invalid regions of every size of inversion - bounds swapped, and W above E (S above N) by one ulp up to 1e-6 relative:
    # a tolerance in the validity test would let the small ones through to every consumer of a region
    def inverted(r):
        w, e, s, n = r
        up = lambda v, rel: float(np.nextafter(v, np.inf)) if rel == 0 else float(v + abs(v) * rel + (rel * 1e-300))  # noqa: E731
        out = []
        for rel in (0, 3e-16, 1e-12, 5e-10, 1e-9, 1e-7, 1e-6):
            out.append(("W above E by %g" % rel if rel else "W one ulp above E", [up(e, rel), e, s, n]))
            out.append(("S above N by %g" % rel if rel else "S one ulp above N", [w, e, up(n, rel), n]))
            out.append(("W above W==E by %g" % rel if rel else "W one ulp above E (zero width otherwise)", [up(w, rel), w, s, n]))
        return [(k, b) for k, b in out if b[0] > b[1] or b[2] > b[3]]

    region_entries = [
        ("check_region", lambda r: vd.coordinates.check_region(r)),
        ("grid_coordinates", lambda r: vd.grid_coordinates(r, shape=(3, 3))),
        ("scatter_points", lambda r: vd.scatter_points(r, 5, random_state=0)),
        ("inside", lambda r: vd.inside((east, north), r)),
        ("block_split", lambda r: vd.block_split((east, north), shape=(2, 2), region=r)),
        ("rolling_window", lambda r: vd.rolling_window((east, north), size=span / 2, shape=(2, 2), region=r)),
        ("BlockReduce", lambda r: vd.BlockReduce(np.mean, shape=(2, 2), region=r).filter(coords, data)),
        ("Trend.grid", lambda r: vd.Trend(1).fit(coords, data).grid(region=r, shape=(3, 3))),
        ("CheckerBoard", lambda r: vd.synthetic.CheckerBoard(region=r).grid(shape=(3, 3))),
    ]
    near = inverted(region) + inverted([1000.0, 1000.0 + span, -5.0 - span, -5.0])
    picks = rng.permutation(len(near))[:12]
    for j in picks:
        kind, bad = near[int(j)]
        for entry, call in region_entries:
            expect_raise(entry, "invalid region (%s)" % kind, (lambda c, b: lambda: c(b))(call, bad), (lambda c: lambda: c(region))(call))
        run.count("class:near_inverted_region")
    for kind, c, d, w in variants(coords, data, weights):
        expect_raise("BlockReduce.filter", kind, lambda: vd.BlockReduce(np.average, spacing=sp).filter(c, d, w), lambda: vd.BlockReduce(np.average, spacing=sp).filter(coords, data, weights))
        expect_raise("BlockMean.filter", kind, lambda: vd.BlockMean(spacing=sp).filter(c, d, w), lambda: vd.BlockMean(spacing=sp).filter(coords, data, weights))
        expect_raise("cross_val_score", kind, lambda: vd.cross_val_score(vd.Trend(1), c, d, w), lambda: vd.cross_val_score(vd.Trend(1), coords, data, weights))
        expect_raise("train_test_split", kind, lambda: vd.train_test_split(c, d, w, random_state=0), lambda: vd.train_test_split(coords, data, weights, random_state=0))
    expect_raise("BlockMean.filter", "uncertainty=True without weights", lambda: vd.BlockMean(spacing=sp, uncertainty=True).filter(coords, data), lambda: vd.BlockMean(spacing=sp, uncertainty=True).filter(coords, data, weights))
    expect_raise("BlockReduce", "neither shape nor spacing", lambda: vd.BlockReduce(np.mean).filter(coords, data), lambda: vd.BlockReduce(np.mean, spacing=sp).filter(coords, data))
    expect_raise("BlockReduce", "both shape and spacing", lambda: vd.BlockReduce(np.mean, spacing=sp, shape=(2, 2)).filter(coords, data), lambda: vd.BlockReduce(np.mean, shape=(2, 2)).filter(coords, data))
    expect_raise("BlockReduce", "invalid region", lambda: vd.BlockReduce(np.mean, spacing=sp, region=[region[0], region[1], region[3], region[2]]).filter(coords, data), lambda: vd.BlockReduce(np.mean, spacing=sp, region=region).filter(coords, data))
    expect_raise("BlockKFold", "neither shape nor spacing", lambda: vd.BlockKFold(n_splits=2), lambda: vd.BlockKFold(spacing=sp, n_splits=2))
    expect_raise("BlockShuffleSplit", "neither shape nor spacing", lambda: vd.BlockShuffleSplit(n_splits=2), lambda: vd.BlockShuffleSplit(spacing=sp, n_splits=2))
    expect_raise("BlockKFold.split", "both shape and spacing", lambda: list(vd.BlockKFold(spacing=sp, shape=(2, 2), n_splits=2).split(X)), lambda: list(vd.BlockKFold(shape=(2, 2), n_splits=2).split(X)))
    expect_raise("BlockKFold.split", "feature matrix with three columns", lambda: list(vd.BlockKFold(shape=(2, 2), n_splits=2).split(np.column_stack([X, east]))), lambda: list(vd.BlockKFold(shape=(2, 2), n_splits=2).split(X)))
    expect_raise("block_split", "coordinate shapes differ", lambda: vd.block_split((east, north[:-1]), spacing=sp), lambda: vd.block_split((east, north), spacing=sp))
    expect_raise("block_split", "northing with a single element (broadcastable)", lambda: vd.block_split((east, north[:1]), spacing=sp), lambda: vd.block_split((east, north), spacing=sp))
    expect_raise("block_split", "extra coordinate with a single element (broadcastable)", lambda: vd.block_split((east, north, east[:1]), spacing=sp), lambda: vd.block_split((east, north, east), spacing=sp))
    expect_raise("rolling_window", "northing (1, n) against easting (n,)", lambda: vd.rolling_window((east, north.reshape(1, -1)), size=span / 2, spacing=span / 4), lambda: vd.rolling_window((east, north), size=span / 2, spacing=span / 4))
    # component COUNTS that disagree although every array has the right size: fewer weights than data components (three data, two
    # weights; two data, one weight), more weights than data
    d3, w3 = vdata + (vdata[0] * 0.5,), vweights + (vweights[1],)
    three = lambda: vd.Vector([vd.Trend(1), vd.Trend(1), vd.Trend(1)])  # noqa: E731
    expect_raise("Vector.fit", "three data components with two (correctly sized) weights", lambda: three().fit(vcoords, d3, w3[:2]), lambda: three().fit(vcoords, d3, w3))
    expect_raise("Vector.fit", "two data components with one (correctly sized) weights array in a tuple", lambda: vd.Vector([vd.Trend(1), vd.Trend(1)]).fit(vcoords, vdata, vweights[:1]), lambda: vd.Vector([vd.Trend(1), vd.Trend(1)]).fit(vcoords, vdata, vweights))
    expect_raise("BlockReduce.filter", "three data components with two weights", lambda: vd.BlockReduce(np.average, spacing=sp).filter(vcoords, d3, w3[:2]), lambda: vd.BlockReduce(np.average, spacing=sp).filter(vcoords, d3, w3))
    expect_raise("train_test_split", "three data components with two weights", lambda: vd.train_test_split(vcoords, d3, w3[:2], random_state=0), lambda: vd.train_test_split(vcoords, d3, w3, random_state=0))
    expect_raise("check_fit_input", "three data components with two weights", lambda: vd.base.utils.check_fit_input(vcoords, d3, w3[:2]), lambda: vd.base.utils.check_fit_input(vcoords, d3, w3))
    expect_raise("check_fit_input", "two data components with three weights", lambda: vd.base.utils.check_fit_input(vcoords, vdata, w3), lambda: vd.base.utils.check_fit_input(vcoords, vdata, vweights))
    # longitude_continuity with coordinate arrays of different shapes (the unchanged code refuses them when it stacks the result)
    lon_ok, lat_ok = np.array([350.0, 5.0, 10.0, 20.0]), np.array([-5.0, 0.0, 5.0, 1.0])
    geo = [340.0, 30.0, -10.0, 10.0]
    for kind, bad_c in (("latitude shorter than longitude", [lon_ok, lat_ok[:-1]]), ("extra coordinate of another length", [lon_ok, lat_ok, lat_ok[:2]]),
                        ("2-D longitude with 1-D latitude", [lon_ok.reshape(2, 2), lat_ok]), ("longitude shorter than latitude", [lon_ok[:3], lat_ok])):
        expect_raise("longitude_continuity", "coordinate shapes differ (%s)" % kind, (lambda c: lambda: vd.longitude_continuity(c, geo))(bad_c), lambda: vd.longitude_continuity([lon_ok, lat_ok], geo))
    # an extra (ignored) coordinate whose shape differs from easting / northing: the returned indices are documented as usable on
    # every coordinate array, so it must be refused like a mismatch between easting and northing
    extra_bad = (east, north, east[:-1])
    extra_2d = (east.reshape(2, -1), north.reshape(2, -1), east.reshape(-1, 2))
    extra_ok = (east, north, east * 0.5)
    expect_raise("rolling_window", "extra coordinate shorter than easting", lambda: vd.rolling_window(extra_bad, size=span / 2, spacing=span / 4), lambda: vd.rolling_window(extra_ok, size=span / 2, spacing=span / 4))
    expect_raise("rolling_window", "extra coordinate transposed", lambda: vd.rolling_window(extra_2d, size=span / 2, spacing=span / 4), lambda: vd.rolling_window(tuple(x.reshape(2, -1) for x in extra_ok), size=span / 2, spacing=span / 4))
    expect_raise("expanding_window", "extra coordinate shorter than easting", lambda: vd.expanding_window(extra_bad, center=(east[0], north[0]), sizes=[span]), lambda: vd.expanding_window(extra_ok, center=(east[0], north[0]), sizes=[span]))
    expect_raise("block_split", "extra coordinate shorter than easting", lambda: vd.block_split(extra_bad, spacing=sp), lambda: vd.block_split(extra_ok, spacing=sp))
    expect_raise("BlockReduce.filter", "extra coordinate shorter than easting", lambda: vd.BlockReduce(np.mean, spacing=sp, drop_coords=False).filter(extra_bad, data), lambda: vd.BlockReduce(np.mean, spacing=sp, drop_coords=False).filter(extra_ok, data))
    expect_raise("Trend.fit", "extra coordinate shorter than easting", lambda: vd.Trend(1).fit(extra_bad, data), lambda: vd.Trend(1).fit(extra_ok, data))
    expect_raise("train_test_split", "extra coordinate shorter than easting", lambda: vd.train_test_split(extra_bad, data, random_state=0), lambda: vd.train_test_split(extra_ok, data, random_state=0))
    # geographic regions with the out-of-range bound at the "other" end (W above 360 with E in range, E below -180, S above 90, N below -90)
    for kind, bad_reg in (("W above 360 with E in range", [370.0, 20.0, -10.0, 10.0]), ("E below -180 with W in range", [-170.0, -190.0, -10.0, 10.0]),
                          ("S above 90", [0.0, 20.0, 95.0, 80.0]), ("N below -90", [0.0, 20.0, -80.0, -95.0]), ("W above 360, wide", [400.0, 50.0, -10.0, 10.0])):
        expect_raise("longitude_continuity", "invalid geographic region (%s)" % kind, (lambda r: lambda: vd.longitude_continuity(None, r))(bad_reg), lambda: vd.longitude_continuity(None, [350.0, 20.0, -10.0, 10.0]))
        expect_raise("longitude_continuity", "invalid geographic region with coordinates (%s)" % kind,
                     (lambda r: lambda: vd.longitude_continuity([np.array([5.0, 10.0]), np.array([0.0, 1.0])], r))(bad_reg), lambda: vd.longitude_continuity([np.array([5.0, 10.0]), np.array([0.0, 1.0])], [350.0, 20.0, -10.0, 10.0]))
    expect_raise("expanding_window", "northing with a single element (broadcastable)", lambda: vd.expanding_window((east, north[:1]), center=(east[0], north[0]), sizes=[span]), lambda: vd.expanding_window((east, north), center=(east[0], north[0]), sizes=[span]))
    expect_raise("block_split", "neither shape nor spacing", lambda: vd.block_split((east, north)), lambda: vd.block_split((east, north), spacing=sp))
    expect_raise("block_split", "both shape and spacing", lambda: vd.block_split((east, north), spacing=sp, shape=(2, 2)), lambda: vd.block_split((east, north), shape=(2, 2)))
    expect_raise("block_split", "invalid region", lambda: vd.block_split((east, north), spacing=sp, region=[region[1], region[0], region[2], region[3]]), lambda: vd.block_split((east, north), spacing=sp, region=region))
    expect_raise("rolling_window", "coordinate shapes differ", lambda: vd.rolling_window((east, north[:-1]), size=span / 2, spacing=span / 4), lambda: vd.rolling_window((east, north), size=span / 2, spacing=span / 4))
    expect_raise("rolling_window", "neither shape nor spacing", lambda: vd.rolling_window((east, north), size=span / 2), lambda: vd.rolling_window((east, north), size=span / 2, spacing=span / 4))
    expect_raise("rolling_window", "both shape and spacing", lambda: vd.rolling_window((east, north), size=span / 2, spacing=span / 4, shape=(2, 2)), lambda: vd.rolling_window((east, north), size=span / 2, shape=(2, 2)))
    expect_raise("rolling_window", "invalid region", lambda: vd.rolling_window((east, north), size=span / 2, spacing=span / 4, region=[region[0], region[1], region[3], region[2]]), lambda: vd.rolling_window((east, north), size=span / 2, spacing=span / 4, region=region))
    expect_raise("expanding_window", "coordinate shapes differ", lambda: vd.expanding_window((east, north[:-1]), center=(east[0], north[0]), sizes=[span]), lambda: vd.expanding_window((east, north), center=(east[0], north[0]), sizes=[span]))
    expect_raise("grid_coordinates", "neither shape nor spacing", lambda: vd.grid_coordinates(region), lambda: vd.grid_coordinates(region, spacing=sp))
    expect_raise("grid_coordinates", "both shape and spacing", lambda: vd.grid_coordinates(region, shape=(3, 3), spacing=sp), lambda: vd.grid_coordinates(region, shape=(3, 3)))
    expect_raise("grid_coordinates", "three spacings", lambda: vd.grid_coordinates(region, spacing=(sp, sp, sp)), lambda: vd.grid_coordinates(region, spacing=(sp, sp)))
    expect_raise("grid_coordinates", "invalid region (S > N)", lambda: vd.grid_coordinates([region[0], region[1], region[3], region[2]], shape=(3, 3)), lambda: vd.grid_coordinates(region, shape=(3, 3)))
    expect_raise("grid_coordinates", "region with three values", lambda: vd.grid_coordinates(region[:3], shape=(3, 3)), lambda: vd.grid_coordinates(region, shape=(3, 3)))
    expect_raise("line_coordinates", "neither size nor spacing", lambda: vd.line_coordinates(0, 1), lambda: vd.line_coordinates(0, 1, size=3))
    expect_raise("line_coordinates", "both size and spacing", lambda: vd.line_coordinates(0, 1, size=3, spacing=0.5), lambda: vd.line_coordinates(0, 1, spacing=0.5))
    expect_raise("scatter_points", "invalid region", lambda: vd.scatter_points([region[1], region[0], region[2], region[3]], 5, random_state=0), lambda: vd.scatter_points(region, 5, random_state=0))
    expect_raise("inside", "invalid region", lambda: vd.inside((east, north), [region[0], region[1], region[3], region[2]]), lambda: vd.inside((east, north), region))
    ge, gn = np.meshgrid(np.linspace(0, 1, 4), np.linspace(0, 2, 3))
    vals = ge + 10 * gn
    expect_raise("make_xarray_grid", "two names for one data array", lambda: vd.make_xarray_grid((ge, gn), vals, data_names=["a", "b"]), lambda: vd.make_xarray_grid((ge, gn), vals, data_names=["a"]))
    expect_raise("make_xarray_grid", "extra coordinate without a name", lambda: vd.make_xarray_grid((ge, gn, ge), vals, data_names="a"), lambda: vd.make_xarray_grid((ge, gn, ge), vals, data_names="a", extra_coords_names="h"))
    expect_raise("make_xarray_grid", "two names for one extra coordinate", lambda: vd.make_xarray_grid((ge, gn, ge), vals, data_names="a", extra_coords_names=["h", "t"]), lambda: vd.make_xarray_grid((ge, gn, ge), vals, data_names="a", extra_coords_names=["h"]))
    expect_raise("make_xarray_grid", "2-D coordinates that are not a meshgrid", lambda: vd.make_xarray_grid((ge + 0.3 * gn, gn), vals, data_names="a"), lambda: vd.make_xarray_grid((ge, gn), vals, data_names="a"))
    expect_raise("make_xarray_grid", "1-D easting with 2-D northing", lambda: vd.make_xarray_grid((ge[0], gn), vals, data_names="a"), lambda: vd.make_xarray_grid((ge[0], gn[:, 0]), vals, data_names="a"))
    expect_raise("distance_mask", "neither coordinates nor grid", lambda: vd.distance_mask((east, north), maxdist=span), lambda: vd.distance_mask((east, north), maxdist=span, coordinates=(ge, gn)))
    expect_raise("distance_mask", "query coordinate shapes differ", lambda: vd.distance_mask((east, north), maxdist=span, coordinates=(ge, gn[:-1])), lambda: vd.distance_mask((east, north), maxdist=span, coordinates=(ge, gn)))
    expect_raise("convexhull_mask", "neither coordinates nor grid", lambda: vd.convexhull_mask((east, north)), lambda: vd.convexhull_mask((east, north), coordinates=(ge, gn)))


def on_exception(run, stream, index, exc):  # noqa: U100
    return False
