"""
C02 - Trend, Spline and VectorSpline2D fits are the weighted, damped least-squares optimum.

Monitors sit on ``fit`` and ``predict`` of the three estimators.  Every ``fit`` return is judged by a numpy-only
reference (``vmon.ref.LeastSquares``) that assembles the design matrix from its *own* kernels, scales the columns to unit
population variance (exactly constant columns stay unscaled), stacks ``sqrt(w)`` rows and ``sqrt(damping)`` rows and tests
first-order optimality of verde's parameters; every later ``predict`` return of the same object is compared with the
prediction of the independently solved reference problem when that problem is well conditioned.  Two relations between
executions are driven by the workload: weight-scale invariance of undamped fits and the vanishing-weight limit.
"""
import collections
import warnings
import weakref

import numpy as np

from .. import gen, ref
from . import _c02_layouts as lay
from ._c01_defaults import defaults_case

ID = "C02"
LEVEL = "exploration"
K = 100.0               # prediction agreement: K * kappa_eff * eps * scale
GRADIENT_TOL = 1e-12    # normalised first-order optimality residual (measured <= 1e-15 on correct fits)
INFORMATIVE = 1e-3      # tolerances above 1e-3 of the data scale decide nothing -> skipped
VANISH_FACTOR = 50.0    # |fit(eps-weighted outlier) - fit(without)| <= 50 * eps * |outlier| ...
LEVERAGE_MAX = 25.0     # ... decided only when the reference cross-leverage |j_q M^-1 j_k| of the datum is <= 25 (exact influence: eps * leverage * residual)
EPS = ref.EPS
WEIGHT_MAGNITUDES = (1e-15, 1e-12, 1e-9, 1e-6, 1.0, 1e6, 1e12)   # all weights times this (e.g. 1/sigma^2 with sigma ~ 1e5): absolute-tolerance shortcuts show
DATA_MAGNITUDES = (1e-15, 1e-12, 1e-9, 1e-6, 1e-3, 1.0, 1e3, 1e6, 1e9, 1e12, 1e15)

RULE = (
    "cases = seeded fits of Trend(0..4), Spline and VectorSpline2D on 3..300 points (uniform, jittered grid, clusters, anisotropic; logical shapes "
    "1-D or non-square 2-D grids with every argument - each coordinate, each data component, each weight component, the force coordinates - in an "
    "independently chosen memory layout / container: C, Fortran, transposed view, strided, negative strides, read-only, pandas Series; the reference "
    "pairs weight k with datum k of the C-order element sequences; coordinate scales 1e-2..1e6, offsets 0..1e3 extents; data magnitudes 1e-3..1e6) with weights None or 10^[-3,1] per datum (different "
    "per vector component), damping None or 10^[-8,2], forces at the data or at a separate set of ceil(n/4)..n points, Poisson ratio in [-1,1], "
    "mindist 0 or small (Spline) / >0 (VectorSpline2D); MAGNITUDE classes: all weights times 1e-15, 1e-12, 1e-9, 1e-6, 1, 1e6, 1e12 (stream wmag: every "
    "estimator configuration x every magnitude, undamped ones also against the fit with the unscaled weights) and all data times 1e-15..1e15; undamped "
    "fits with fewer forces than data and non-uniform weights are counted as their own class; DEFAULTS stream: Spline / VectorSpline2D / Trend built with NO optional arguments and fitted without the weights argument against "
    "the documented defaults spelled out (get_params() and bit-identical predictions; the monitors read constructor parameters from the instance); "
    "LARGE_JACOBIAN stream: Spline with 20001 / 20011 / 20483 data and ~510 separate forces, VectorSpline2D with ~7000 data and ~365 forces "
    "(more than 1e7 design-matrix elements), the last 1-11 data rows carrying large weights and off-field values; CONCURRENT stream: two to four "
    "Trend / Spline / VectorSpline2D fit+predict sequences running at the same time in threads (core.run_threads) on problems of the same "
    "(n_data, n_forces) shape but different coordinates, data and weights - big ones (n_data*n_forces > 2e5, 2 rounds) and small ones (30-45 rounds, with GIL hand-offs injected at random statement starts of the verde sources) - "
    "each judged in its thread against its own reference; DUPLICATES stream: repeated stations (5-40 % of the data at locations that occur two or more times, different values) "
    "fitted by Spline / VectorSpline2D with damping 1e-8..1e2 and the default force layout - one force under every datum, checked by the force_layout "
    "monitor, reference on the full duplicate-column design; SPELLINGS stream: damping (1, 10, 100 as int, np.int64, np.int32, np.float32, np.float64, 0-d arrays), degree, "
    "poisson (0, -1, 1 as ints), mindist given as Python int / numpy integer / numpy floating / 0-d array, each against the twin built with the plain "
    "float (reference: float(value)); forces may also be the data points in another order; HISTORY stream: the same object fitted again (after "
    "predict / grid / filter / score / jacobian or directly; other locations, smaller / equal / larger size, other layouts; the caller's buffers re-used "
    "with new contents), re-configured through set_params or attribute assignment after or before first use (Trend degree, Spline / VectorSpline2D "
    "damping, mindist, poisson, force_coords None <-> explicit; also through instances held in a Chain / Vector), and fitted validly after a fit() "
    "that raised ValueError on other coordinates - every fit judged against the arguments and the configuration of THAT fit; each fit is followed by predictions at the data and at 20 query points inside the data "
    "region. Relations: undamped fits with weights w and c*w (c in 1e-3..1e3); an outlier with weight 1e-4 / 1e-8 against the fit without the datum "
    "(n >= 5 x parameters). Non-trivial = over-determined or damped, and weights non-constant when given; distinct = hash of kind, configuration, "
    "coordinates, data, weights. Fits are binned by decade of the reference condition number of the augmented scaled design."
)
ASSUMPTIONS = [
    "objective: sum_i w_i r_i^2 + damping * |S p|^2 with S = diag(population std of the columns of the Jacobian over all data rows, unweighted; "
    "exactly constant columns keep scale 1); weights are used as given (not normalised); verified against scikit-learn 1.9.1 Ridge/LinearRegression",
    "first-order optimality: |A^T (A p - b)| <= 1e-12 * |A| (|A||p| + |b|) with A = [sqrt(w) J S^-1; sqrt(damping) I] built from reference kernels; "
    "for damped fits with fewer data than parameters (they arise when an estimator with fixed forces is refitted to fewer points) the threshold is "
    "max(1e-12, 100 kappa^2 eps): scikit-learn solves those in the dual, whose backward error maps to a primal gradient of that size (measured <= 12 kappa^2 eps)",
    "damped fits depend on the column scales themselves; the standard deviation of a column of magnitude m and spread s is defined to eps*m/s only, so "
    "for damped fits the gradient threshold gains 4 eps (m/s) damping/|A|^2 and the prediction tolerance the factor max(1, m/s) (nearly constant "
    "columns arise when fixed forces lie far from the data of a refit)",
    "prediction agreement: 100 * kappa_eff * eps * max(|prediction|, |data|), kappa_eff = kappa (undamped, lstsq) or kappa^2 (damped, Cholesky on the "
    "normal equations); judged only when 100*kappa_eff*eps < 1e-3 and, for under-determined undamped fits, only at the data points",
    "columns that are constant only up to round-off (relative spread <= 1e-10) make the scaling ill-defined: the fit is skipped",
    "vanishing weight: for undamped fits the reference is the fit with the datum deleted; for damped fits the deleted datum would also change the "
    "column scaling (verde scales with all rows, whatever their weight), so the reference is the same fit with the datum's value not displaced "
    "(the influence of the datum's *value* vanishes); query points are the data points and 20 points inside the data region; other weights in [0.5, 2]; "
    "the bound 50*eps*|outlier| is decided only when the reference cross-leverage max_q |j_q M^-1 j_k| of the datum is <= 25 (the exact influence is "
    "eps * leverage * residual, so the bound then has a factor 2 of slack); higher-leverage data are skipped and counted",
    "weights are strictly positive and finite, data finite (the statement's quantifier); other fits are skipped",
    "default force layout (force_coords=None): one force under every datum, in data order, also when data share a location (force_layout monitor); "
    "the reference keeps the identical columns of such a design - with damping the problem is well posed; undamped fits of data with repeated "
    "locations are singular and are not generated",
    "the reference uses the weights exactly as given at every magnitude (damped fits depend on it); undamped fits are additionally compared with the "
    "fit for the unscaled relative weights (fit(w) == fit(c w), c spanning 1e-15..1e12)",
    "coordinates, data and weights are flattened in C (row-major) order of the logical arrays whatever their memory layout (what check_fit_input / "
    "n_1d_arrays document via np.ravel); the reference takes np.asarray(arg).ravel() of every argument",
]
FLOORS = {
    "quick": {'eval:optimality': 2880, 'eval:prediction_agreement': 4504, 'eval:weight_scale_invariance': 126, 'eval:vanishing_weight': 96, 'fit:trend': 450, 'fit:spline': 480, 'fit:vspline': 300, 'informative_undamped_kappa_ge_1e6': 140, 'distinct_nontrivial': 1200, 'layout:weights:2d_fortran': 50, 'layout:weights:2d_transposed_view': 50, 'layout:weights:2d_strided': 55, 'layout:weights:2d_negative_stride': 55, 'layout:weights:2d_readonly_fortran': 50, 'layout:weights:1d_series': 80, 'layout:data:2d_fortran': 65, 'layout:data:2d_transposed_view': 65, 'layout:data:2d_strided': 75, 'layout:data:1d_series': 95, 'layout:coordinates:2d_fortran': 120, 'layout:coordinates:2d_transposed_view': 110, 'layout:coordinates:1d_series': 160, 'layout:force_coords:2d_fortran': 10, 'layout:weights_laid_out_differently_from_data': 540, 'class:undamped_fewer_forces_than_data_nonuniform_weights:spline': 159, 'class:undamped_fewer_forces_than_data_nonuniform_weights:vspline': 135, 'data_magnitude:1e+00': 497, 'data_magnitude:1e+03': 48, 'data_magnitude:1e+06': 46, 'data_magnitude:1e+09': 40, 'data_magnitude:1e+12': 40, 'data_magnitude:1e+15': 42, 'data_magnitude:1e-03': 36, 'data_magnitude:1e-06': 42, 'data_magnitude:1e-09': 39, 'data_magnitude:1e-12': 35, 'data_magnitude:1e-15': 38, 'weight_magnitude:1e+00': 324, 'weight_magnitude:1e+06': 38, 'weight_magnitude:1e+12': 36, 'weight_magnitude:1e-06': 28, 'weight_magnitude:1e-09': 38, 'weight_magnitude:1e-12': 37, 'weight_magnitude:1e-15': 34, 'weight_magnitude_class:spline_damped:1e+00': 2, 'weight_magnitude_class:spline_damped:1e+06': 2, 'weight_magnitude_class:spline_damped:1e+12': 2, 'weight_magnitude_class:spline_damped:1e-06': 2, 'weight_magnitude_class:spline_damped:1e-09': 2, 'weight_magnitude_class:spline_damped:1e-12': 2, 'weight_magnitude_class:spline_damped:1e-15': 2, 'weight_magnitude_class:spline_damped_fewer_forces:1e+00': 2, 'weight_magnitude_class:spline_damped_fewer_forces:1e+06': 2, 'weight_magnitude_class:spline_damped_fewer_forces:1e+12': 2, 'weight_magnitude_class:spline_damped_fewer_forces:1e-06': 2, 'weight_magnitude_class:spline_damped_fewer_forces:1e-09': 2, 'weight_magnitude_class:spline_damped_fewer_forces:1e-12': 2, 'weight_magnitude_class:spline_damped_fewer_forces:1e-15': 2, 'weight_magnitude_class:spline_undamped_fewer_forces:1e+00': 2, 'weight_magnitude_class:spline_undamped_fewer_forces:1e+06': 2, 'weight_magnitude_class:spline_undamped_fewer_forces:1e+12': 2, 'weight_magnitude_class:spline_undamped_fewer_forces:1e-06': 2, 'weight_magnitude_class:spline_undamped_fewer_forces:1e-09': 2, 'weight_magnitude_class:spline_undamped_fewer_forces:1e-12': 2, 'weight_magnitude_class:spline_undamped_fewer_forces:1e-15': 2, 'weight_magnitude_class:trend:1e+00': 2, 'weight_magnitude_class:trend:1e+06': 2, 'weight_magnitude_class:trend:1e+12': 2, 'weight_magnitude_class:trend:1e-06': 2, 'weight_magnitude_class:trend:1e-09': 2, 'weight_magnitude_class:trend:1e-12': 2, 'weight_magnitude_class:trend:1e-15': 2, 'weight_magnitude_class:vspline_damped:1e+00': 2, 'weight_magnitude_class:vspline_damped:1e+06': 2, 'weight_magnitude_class:vspline_damped:1e+12': 2, 'weight_magnitude_class:vspline_damped:1e-06': 2, 'weight_magnitude_class:vspline_damped:1e-09': 2, 'weight_magnitude_class:vspline_damped:1e-12': 2, 'weight_magnitude_class:vspline_damped:1e-15': 2, 'weight_magnitude_class:vspline_undamped_fewer_forces:1e+00': 2, 'weight_magnitude_class:vspline_undamped_fewer_forces:1e+06': 2, 'weight_magnitude_class:vspline_undamped_fewer_forces:1e+12': 2, 'weight_magnitude_class:vspline_undamped_fewer_forces:1e-06': 2, 'weight_magnitude_class:vspline_undamped_fewer_forces:1e-09': 2, 'weight_magnitude_class:vspline_undamped_fewer_forces:1e-12': 2, 'weight_magnitude_class:vspline_undamped_fewer_forces:1e-15': 2, 'weight_scale_invariance:magnitude:1e+06': 5, 'weight_scale_invariance:magnitude:1e+12': 5, 'weight_scale_invariance:magnitude:1e-06': 6, 'weight_scale_invariance:magnitude:1e-09': 5, 'weight_scale_invariance:magnitude:1e-12': 5, 'weight_scale_invariance:magnitude:1e-15': 5, 'history:error_then_fit:spline': 4, 'history:error_then_fit:trend': 4, 'history:error_then_fit:vspline': 4, 'history:reconfigure_after_use:spline': 4, 'history:reconfigure_after_use:trend': 4, 'history:reconfigure_after_use:vspline': 4, 'history:reconfigure_before_use:spline': 4, 'history:reconfigure_before_use:trend': 4, 'history:reconfigure_before_use:vspline': 4, 'history:reconfigure_held_in_chain:spline': 4, 'history:reconfigure_held_in_chain:trend': 4, 'history:reconfigure_held_in_chain:vspline': 4, 'history:refit_after_resetting_forces:spline': 4, 'history:refit_after_resetting_forces:vspline': 4, 'history:refit_after_use:spline': 4, 'history:refit_after_use:trend': 9, 'history:refit_after_use:vspline': 4, 'history:refit_directly:spline': 4, 'history:refit_directly:trend': 4, 'history:refit_directly:vspline': 4, 'history:refit_same_arrays_new_contents:spline': 4, 'history:refit_same_arrays_new_contents:trend': 4, 'history:refit_same_arrays_new_contents:vspline': 4, 'history:size_change:equal': 15, 'history:size_change:larger': 13, 'history:size_change:smaller': 14, 'history:trend_degree_down': 5, 'history:trend_degree_up': 5, 'history:use:filter': 5, 'history:use:grid': 6, 'history:use:jacobian': 5, 'history:use:nothing': 4, 'history:use:predict_data': 8, 'history:use:predict_elsewhere': 7, 'history:use:score': 6, 'history:via_attribute_assignment': 16, 'history:via_set_params': 15, 'fit_raised:vspline:ValueError': 4, 'eval:equivalent_spelling': 72, 'forces:spline:at_data': 104, 'forces:spline:data_points_in_another_order': 21, 'forces:spline:grid': 104, 'forces:spline:moved_subset': 102, 'forces:vspline:at_data': 53, 'forces:vspline:data_points_in_another_order': 10, 'forces:vspline:grid': 58, 'forces:vspline:moved_subset': 42, 'spelling:spline_damping:float32(0.5)': 1, 'spelling:spline_damping:float32(8.0)': 1, 'spelling:spline_damping:float64(0.25)': 1, 'spelling:spline_damping:int(1.0)': 1, 'spelling:spline_damping:int(10.0)': 1, 'spelling:spline_damping:int(100.0)': 1, 'spelling:spline_damping:int32(1.0)': 1, 'spelling:spline_damping:int64(10.0)': 1, 'spelling:spline_damping:ndarray(10.0)': 1, 'spelling:spline_damping:ndarray(3.0)': 1, 'spelling:spline_mindist:0-d array': 2, 'spelling:spline_mindist:int': 3, 'spelling:spline_mindist:np.float32': 2, 'spelling:spline_mindist:np.int64': 3, 'spelling:trend_degree:int32': 3, 'spelling:trend_degree:int64': 3, 'spelling:trend_degree:ndarray': 2, 'spelling:trend_degree:uint8': 2, 'spelling:vspline_damping:float32(0.5)': 1, 'spelling:vspline_damping:float32(8.0)': 1, 'spelling:vspline_damping:float64(0.25)': 1, 'spelling:vspline_damping:int(1.0)': 1, 'spelling:vspline_damping:int(10.0)': 1, 'spelling:vspline_damping:int(100.0)': 1, 'spelling:vspline_damping:int32(1.0)': 1, 'spelling:vspline_damping:int64(10.0)': 1, 'spelling:vspline_damping:ndarray(10.0)': 1, 'spelling:vspline_damping:ndarray(3.0)': 1, 'spelling:vspline_mindist:0-d array': 2, 'spelling:vspline_mindist:int': 3, 'spelling:vspline_mindist:np.float32': 2, 'spelling:vspline_mindist:np.int64': 3, 'spelling:vspline_poisson:float32(0.5)': 1, 'spelling:vspline_poisson:int(-1.0)': 1, 'spelling:vspline_poisson:int(0.0)': 1, 'spelling:vspline_poisson:int(1.0)': 1, 'spelling:vspline_poisson:int64(0.0)': 1, 'spelling:vspline_poisson:int64(1.0)': 1, 'spelling:vspline_poisson:ndarray(-1.0)': 1, 'spelling:vspline_poisson:ndarray(0.25)': 1, 'eval:force_layout': 368, 'duplicates:spline': 40, 'duplicates:spline:informative': 32, 'duplicates:vspline': 20, 'duplicates:vspline:informative': 19, 'force_layout:data_with_repeated_locations:spline': 40, 'force_layout:data_with_repeated_locations:vspline': 20, 'concurrent_fits:spline': 277, 'concurrent_fits:trend': 240, 'concurrent_fits:vspline': 546, 'large_jacobian:spline': 1, 'large_jacobian:vspline': 1, 'yields_injected': 61980, 'concurrent:with_yield_injection': 8, 'concurrent:without_yield_injection': 2, 'defaults:Spline': 2, 'defaults:VectorSpline2D': 2, 'defaults:Trend': 2, 'eval:documented_defaults': 7},
    "thorough": {'eval:optimality': 54007, 'eval:prediction_agreement': 84465, 'eval:weight_scale_invariance': 2370, 'eval:vanishing_weight': 1800, 'fit:trend': 11250, 'fit:spline': 12000, 'fit:vspline': 7500, 'informative_undamped_kappa_ge_1e6': 3500, 'distinct_nontrivial': 30000, 'layout:weights:2d_fortran': 1250, 'layout:weights:2d_transposed_view': 1250, 'layout:weights:2d_strided': 1375, 'layout:weights:2d_negative_stride': 1375, 'layout:weights:2d_readonly_fortran': 1250, 'layout:weights:1d_series': 2000, 'layout:data:2d_fortran': 1625, 'layout:data:2d_transposed_view': 1625, 'layout:data:2d_strided': 1875, 'layout:data:1d_series': 2375, 'layout:coordinates:2d_fortran': 3000, 'layout:coordinates:2d_transposed_view': 2750, 'layout:coordinates:1d_series': 4000, 'layout:force_coords:2d_fortran': 250, 'layout:weights_laid_out_differently_from_data': 13500, 'class:undamped_fewer_forces_than_data_nonuniform_weights:spline': 3577, 'class:undamped_fewer_forces_than_data_nonuniform_weights:vspline': 3037, 'data_magnitude:1e+00': 11182, 'data_magnitude:1e+03': 1080, 'data_magnitude:1e+06': 1035, 'data_magnitude:1e+09': 900, 'data_magnitude:1e+12': 900, 'data_magnitude:1e+15': 945, 'data_magnitude:1e-03': 810, 'data_magnitude:1e-06': 945, 'data_magnitude:1e-09': 877, 'data_magnitude:1e-12': 787, 'data_magnitude:1e-15': 855, 'weight_magnitude:1e+00': 7290, 'weight_magnitude:1e+06': 855, 'weight_magnitude:1e+12': 810, 'weight_magnitude:1e-06': 630, 'weight_magnitude:1e-09': 855, 'weight_magnitude:1e-12': 832, 'weight_magnitude:1e-15': 765, 'weight_magnitude_class:spline_damped:1e+00': 45, 'weight_magnitude_class:spline_damped:1e+06': 45, 'weight_magnitude_class:spline_damped:1e+12': 45, 'weight_magnitude_class:spline_damped:1e-06': 45, 'weight_magnitude_class:spline_damped:1e-09': 45, 'weight_magnitude_class:spline_damped:1e-12': 45, 'weight_magnitude_class:spline_damped:1e-15': 45, 'weight_magnitude_class:spline_damped_fewer_forces:1e+00': 45, 'weight_magnitude_class:spline_damped_fewer_forces:1e+06': 45, 'weight_magnitude_class:spline_damped_fewer_forces:1e+12': 45, 'weight_magnitude_class:spline_damped_fewer_forces:1e-06': 45, 'weight_magnitude_class:spline_damped_fewer_forces:1e-09': 45, 'weight_magnitude_class:spline_damped_fewer_forces:1e-12': 45, 'weight_magnitude_class:spline_damped_fewer_forces:1e-15': 45, 'weight_magnitude_class:spline_undamped_fewer_forces:1e+00': 45, 'weight_magnitude_class:spline_undamped_fewer_forces:1e+06': 45, 'weight_magnitude_class:spline_undamped_fewer_forces:1e+12': 45, 'weight_magnitude_class:spline_undamped_fewer_forces:1e-06': 45, 'weight_magnitude_class:spline_undamped_fewer_forces:1e-09': 45, 'weight_magnitude_class:spline_undamped_fewer_forces:1e-12': 45, 'weight_magnitude_class:spline_undamped_fewer_forces:1e-15': 45, 'weight_magnitude_class:trend:1e+00': 45, 'weight_magnitude_class:trend:1e+06': 45, 'weight_magnitude_class:trend:1e+12': 45, 'weight_magnitude_class:trend:1e-06': 45, 'weight_magnitude_class:trend:1e-09': 45, 'weight_magnitude_class:trend:1e-12': 45, 'weight_magnitude_class:trend:1e-15': 45, 'weight_magnitude_class:vspline_damped:1e+00': 45, 'weight_magnitude_class:vspline_damped:1e+06': 45, 'weight_magnitude_class:vspline_damped:1e+12': 45, 'weight_magnitude_class:vspline_damped:1e-06': 45, 'weight_magnitude_class:vspline_damped:1e-09': 45, 'weight_magnitude_class:vspline_damped:1e-12': 45, 'weight_magnitude_class:vspline_damped:1e-15': 45, 'weight_magnitude_class:vspline_undamped_fewer_forces:1e+00': 45, 'weight_magnitude_class:vspline_undamped_fewer_forces:1e+06': 45, 'weight_magnitude_class:vspline_undamped_fewer_forces:1e+12': 45, 'weight_magnitude_class:vspline_undamped_fewer_forces:1e-06': 45, 'weight_magnitude_class:vspline_undamped_fewer_forces:1e-09': 45, 'weight_magnitude_class:vspline_undamped_fewer_forces:1e-12': 45, 'weight_magnitude_class:vspline_undamped_fewer_forces:1e-15': 45, 'weight_scale_invariance:magnitude:1e+06': 112, 'weight_scale_invariance:magnitude:1e+12': 112, 'weight_scale_invariance:magnitude:1e-06': 135, 'weight_scale_invariance:magnitude:1e-09': 112, 'weight_scale_invariance:magnitude:1e-12': 112, 'weight_scale_invariance:magnitude:1e-15': 112, 'history:error_then_fit:spline': 80, 'history:error_then_fit:trend': 80, 'history:error_then_fit:vspline': 80, 'history:reconfigure_after_use:spline': 80, 'history:reconfigure_after_use:trend': 80, 'history:reconfigure_after_use:vspline': 80, 'history:reconfigure_before_use:spline': 80, 'history:reconfigure_before_use:trend': 80, 'history:reconfigure_before_use:vspline': 80, 'history:reconfigure_held_in_chain:spline': 80, 'history:reconfigure_held_in_chain:trend': 80, 'history:reconfigure_held_in_chain:vspline': 80, 'history:refit_after_resetting_forces:spline': 80, 'history:refit_after_resetting_forces:vspline': 80, 'history:refit_after_use:spline': 80, 'history:refit_after_use:trend': 180, 'history:refit_after_use:vspline': 80, 'history:refit_directly:spline': 80, 'history:refit_directly:trend': 80, 'history:refit_directly:vspline': 80, 'history:refit_same_arrays_new_contents:spline': 80, 'history:refit_same_arrays_new_contents:trend': 80, 'history:refit_same_arrays_new_contents:vspline': 80, 'history:size_change:equal': 337, 'history:size_change:larger': 303, 'history:size_change:smaller': 330, 'history:trend_degree_down': 128, 'history:trend_degree_up': 114, 'history:use:filter': 114, 'history:use:grid': 135, 'history:use:jacobian': 114, 'history:use:nothing': 108, 'history:use:predict_data': 189, 'history:use:predict_elsewhere': 168, 'history:use:score': 141, 'history:via_attribute_assignment': 378, 'history:via_set_params': 351, 'fit_raised:vspline:ValueError': 80, 'eval:equivalent_spelling': 1350, 'forces:spline:at_data': 2080, 'forces:spline:data_points_in_another_order': 420, 'forces:spline:grid': 2080, 'forces:spline:moved_subset': 2040, 'forces:vspline:at_data': 1060, 'forces:vspline:data_points_in_another_order': 200, 'forces:vspline:grid': 1160, 'forces:vspline:moved_subset': 840, 'spelling:spline_damping:float32(0.5)': 20, 'spelling:spline_damping:float32(8.0)': 20, 'spelling:spline_damping:float64(0.25)': 20, 'spelling:spline_damping:int(1.0)': 20, 'spelling:spline_damping:int(10.0)': 20, 'spelling:spline_damping:int(100.0)': 20, 'spelling:spline_damping:int32(1.0)': 20, 'spelling:spline_damping:int64(10.0)': 20, 'spelling:spline_damping:ndarray(10.0)': 20, 'spelling:spline_damping:ndarray(3.0)': 20, 'spelling:spline_mindist:0-d array': 40, 'spelling:spline_mindist:int': 60, 'spelling:spline_mindist:np.float32': 40, 'spelling:spline_mindist:np.int64': 60, 'spelling:trend_degree:int32': 60, 'spelling:trend_degree:int64': 60, 'spelling:trend_degree:ndarray': 40, 'spelling:trend_degree:uint8': 40, 'spelling:vspline_damping:float32(0.5)': 20, 'spelling:vspline_damping:float32(8.0)': 20, 'spelling:vspline_damping:float64(0.25)': 20, 'spelling:vspline_damping:int(1.0)': 20, 'spelling:vspline_damping:int(10.0)': 20, 'spelling:vspline_damping:int(100.0)': 20, 'spelling:vspline_damping:int32(1.0)': 20, 'spelling:vspline_damping:int64(10.0)': 20, 'spelling:vspline_damping:ndarray(10.0)': 20, 'spelling:vspline_damping:ndarray(3.0)': 20, 'spelling:vspline_mindist:0-d array': 40, 'spelling:vspline_mindist:int': 60, 'spelling:vspline_mindist:np.float32': 40, 'spelling:vspline_mindist:np.int64': 60, 'spelling:vspline_poisson:float32(0.5)': 20, 'spelling:vspline_poisson:int(-1.0)': 20, 'spelling:vspline_poisson:int(0.0)': 20, 'spelling:vspline_poisson:int(1.0)': 20, 'spelling:vspline_poisson:int64(0.0)': 20, 'spelling:vspline_poisson:int64(1.0)': 20, 'spelling:vspline_poisson:ndarray(-1.0)': 20, 'spelling:vspline_poisson:ndarray(0.25)': 20, 'eval:force_layout': 6914, 'duplicates:spline': 900, 'duplicates:spline:informative': 720, 'duplicates:vspline': 450, 'duplicates:vspline:informative': 427, 'force_layout:data_with_repeated_locations:spline': 900, 'force_layout:data_with_repeated_locations:vspline': 450, 'concurrent_fits:spline': 3539, 'concurrent_fits:trend': 3070, 'concurrent_fits:vspline': 6971, 'large_jacobian:spline': 6, 'large_jacobian:spline:damped': 2, 'large_jacobian:vspline': 6, 'large_jacobian:vspline:damped': 2, 'large_jacobian:spline:undamped': 2, 'large_jacobian:vspline:undamped': 2, 'yields_injected': 1053675, 'concurrent:with_yield_injection': 140, 'concurrent:without_yield_injection': 24, 'defaults:Spline': 24, 'defaults:VectorSpline2D': 24, 'defaults:Trend': 24, 'eval:documented_defaults': 72},
}
JOBS = {"quick": 1, "thorough": 16}
CASE_TIMEOUT_S = 300


def plan(tier):
    if tier == "quick":
        return collections.OrderedDict(trend=600, spline=700, vspline=280, wscale=240, vanish=240, wmag=210, history=288, spellings=180, duplicates=150, large_jacobian=2, concurrent=24, defaults=18)
    return collections.OrderedDict(trend=15000, spline=17500, vspline=7000, wscale=6000, vanish=6000, wmag=5250, history=7200, spellings=4500, duplicates=3750, large_jacobian=32, concurrent=420, defaults=180)


# ----------------------------------------------------------------------
# side table
# ----------------------------------------------------------------------
class _State:
    def __init__(self):
        self.records = {}
        self.vforce = {}  # VectorSpline2D: where the forces are documented to be (tracked over the object's history, incl. failed fits)


_S = _State()


def _seq(x):
    return np.array(np.asarray(x), dtype="float64").ravel()


def _stack(parts):
    if isinstance(parts, tuple):
        return np.concatenate([_seq(p) for p in parts]), len(parts)
    return _seq(parts), 1


class Rec:
    """What one fit was given, and the reference problem built from it."""

    def __init__(self, obj, kind, cfg):
        self.ref = weakref.ref(obj)
        self.kind = kind
        self.cfg = cfg
        self.skip = None
        self.lsq = None
        self.ncomp = 1
        self.east = self.north = self.data = self.weights = None
        self.force = None
        self.gradient = None
        self.scale_amp = 1.0

    def jacobian(self, east, north):
        if self.kind == "trend":
            return ref.trend_jacobian(east, north, self.cfg["degree"])
        if self.kind == "spline":
            return ref.spline_jacobian(east, north, self.force[0], self.force[1], self.cfg["mindist"])[0]
        return ref.elastic_jacobian(east, north, self.force[0], self.force[1], self.cfg["mindist"], self.cfg["poisson"])[0]

    @property
    def rel_tol(self):
        # damped fits depend on the column scales themselves, which are defined to eps * scale_amp only; undamped fits do not depend on them
        return K * self.lsq.kappa_eff * EPS * (self.scale_amp if self.lsq.damped else 1.0)

    @property
    def informative(self):
        return bool(self.rel_tol < INFORMATIVE)

    def same_points(self, coordinates):
        east, north = _seq(coordinates[0]), _seq(coordinates[1])
        return east.shape == self.east.shape and np.array_equal(east, self.east) and np.array_equal(north, self.north)


def _lookup(obj):
    rec = _S.records.get(id(obj))
    if rec is None or rec.ref() is not obj:
        return None
    return rec


def _decade(kappa):
    if not np.isfinite(kappa) or kappa <= 0:
        return 99
    return int(np.floor(np.log10(max(kappa, 1.0))))


# ----------------------------------------------------------------------
# monitors
# ----------------------------------------------------------------------
def install(tap, run):
    import verde

    def build(ev, kind, cfg, force_given):
        """Assemble the reference problem of one fit return; returns the record (rec.skip says why it cannot be judged)."""
        obj, a = ev.obj, ev.args
        rec = Rec(obj, kind, cfg)
        _S.records[id(obj)] = rec
        coordinates, data, weights = a["coordinates"], a["data"], a["weights"]
        rec.east, rec.north = _seq(coordinates[0]), _seq(coordinates[1])
        rec.data, rec.ncomp = _stack(data)
        if kind == "vspline" and rec.ncomp != 2:
            rec.skip = "not two components"
            return rec
        if weights is None or (isinstance(weights, tuple) and all(w is None for w in weights)):
            rec.weights = None
        elif isinstance(weights, tuple) and any(w is None for w in weights):
            rec.skip = "weights given for some components only"
            return rec
        else:
            rec.weights, _ = _stack(weights)
        if kind != "trend":
            if force_given is None:
                rec.force = (rec.east.copy(), rec.north.copy())
            else:
                rec.force = (_seq(force_given[0]), _seq(force_given[1]))
        n_rows = rec.east.size * rec.ncomp
        if rec.data.size != n_rows or (rec.weights is not None and rec.weights.size != n_rows):
            rec.skip = "sizes of data / weights / coordinates differ"
            return rec
        if not (np.all(np.isfinite(rec.data)) and np.all(np.isfinite(rec.east)) and np.all(np.isfinite(rec.north))):
            rec.skip = "non-finite input"
            return rec
        if rec.weights is not None and not (np.all(np.isfinite(rec.weights)) and np.all(rec.weights > 0)):
            rec.skip = "weights not strictly positive"
            return rec
        damping = cfg.get("damping")
        if damping is not None and not (np.isfinite(damping) and damping > 0):
            rec.skip = "damping not positive"
            return rec
        with np.errstate(all="ignore"):
            jac = rec.jacobian(rec.east, rec.north)
        if not np.all(np.isfinite(jac)):
            rec.skip = "reference kernel not finite (zero distance with mindist=0 in the elastic kernel)"
            return rec
        rec.lsq = ref.LeastSquares(jac, rec.data, rec.weights, damping)
        # how well the unit-variance scaling itself is defined: the standard deviation of a column with magnitude m and spread s is known to
        # about eps * m / s only (cancellation in x - mean); exactly constant columns have the exact scale 1
        if jac.size:
            varying = ~np.all(jac == jac[0:1, :], axis=0)
            ratio = np.max(np.abs(jac), axis=0)[varying] / rec.lsq.scale[varying]
            rec.scale_amp = float(max(1.0, ratio.max())) if ratio.size else 1.0
        if rec.lsq.skip:
            rec.skip = rec.lsq.skip
        return rec

    def judge_fit(ev, rec, params):
        kind = rec.kind
        run.count("fit:" + kind)
        if rec.skip:
            run.count("skipped:%s:%s" % (kind, rec.skip[:48]))
            return
        lsq = rec.lsq
        damped = lsq.damped
        rows, cols = lsq.a.shape[0] - (lsq.a.shape[1] if damped else 0), lsq.a.shape[1]
        tag = "damped" if damped else "undamped"
        dec = _decade(lsq.cond)
        run.count("kappa_bin:%s:%s:1e%02d" % (kind, tag, dec))
        run.count("class:%s:%s:%s:%s" % (kind, tag, "weighted" if rec.weights is not None else "unweighted",
                                         "overdetermined" if rows > cols else ("square" if rows == cols else "underdetermined")))
        witness = {"kind": kind, "config": rec.cfg, "easting": rec.east, "northing": rec.north, "data_stacked": rec.data,
                   "weights_stacked": rec.weights, "force_coords": rec.force, "kappa": lsq.cond}
        run.evaluated("optimality")
        params = np.asarray(params, dtype="float64").ravel()
        if params.shape != (cols,):
            run.violation("optimality", "%d parameters returned for a design with %d columns" % (params.size, cols), witness, key=kind + ":nparams")
            return
        grad = lsq.gradient_norm(params)
        rec.gradient = grad
        witness.update(parameters=params, normalised_gradient=grad)
        grad_tol = GRADIENT_TOL
        if damped:
            # verde's scales S' = S (1 + delta), |delta| <~ eps * scale_amp, move the stationary point: reference gradient = -2 damping delta S p,
            # i.e. at most 2 eps scale_amp damping / smax^2 in the normalised measure (factor 2 of slack on top)
            grad_tol += 4 * EPS * rec.scale_amp * float(rec.cfg["damping"]) / max(lsq.smax ** 2, np.finfo("float64").tiny)
            run.observe_max("scale_amplification:damped:" + kind, rec.scale_amp)
        if damped and rows < cols:
            # scikit-learn solves damped problems with fewer data than parameters in the dual (K + damping I) c = d, p = A^T c: a backward-stable
            # dual solve leaves a primal gradient A^T r with |r| <= eps |K + damping I| |c|, i.e. up to kappa^2 eps in the normalised measure
            grad_tol = max(grad_tol, K * lsq.cond ** 2 * EPS)
            run.count("class:damped_fewer_data_than_parameters:" + kind)
            if lsq.cond ** 2 * EPS > 0:
                run.observe_max("gradient_over_kappa2_eps:damped_fewer_data_than_parameters", grad / (lsq.cond ** 2 * EPS))
        if not grad <= grad_tol:
            run.violation(
                "optimality",
                "%s fit (%s, %s, %d x %d, kappa %.3g) is not a stationary point of sum w r^2 + damping |S p|^2: normalised gradient %.3g > %.1g"
                % (kind, tag, "weights" if rec.weights is not None else "no weights", rows, cols, lsq.cond, grad, grad_tol),
                witness, key="%s:%s:%s" % (kind, tag, "w" if rec.weights is not None else "nw"))
            return
        run.observe_max("gradient_norm:%s:%s" % (kind, tag), grad)
        if not damped and rec.informative and dec >= 6:
            run.count("informative_undamped_kappa_ge_1e6")
        if not damped and rows > cols and rec.weights is not None and np.ptp(rec.weights) > 0 and kind != "trend":
            run.count("class:undamped_fewer_forces_than_data_nonuniform_weights:" + kind)
        if rec.weights is not None:
            run.count("fit_weight_magnitude:%s:%s:1e%+03d" % (kind, tag, int(np.floor(np.log10(float(np.median(rec.weights))) / 3) * 3)))
        run.count("fit_data_magnitude:%s:1e%+03d" % (kind, int(np.floor(np.log10(max(float(np.max(np.abs(rec.data))), 1e-300)) / 3) * 3)))
        nonconstant = rec.weights is None or np.ptp(rec.weights) > 0
        if (rows > cols or damped) and nonconstant and rec.east.size >= 3:
            run.mark_nontrivial(kind, repr(sorted(rec.cfg.items())), rec.east, rec.north, rec.data, rec.weights, rec.force)

    def force_layout(rec, fitted):
        """Default layout: one force under every datum, in data order - also when several data share a location."""
        run.evaluated("force_layout")
        n = rec.east.size
        try:
            fe, fn = _seq(fitted[0]), _seq(fitted[1])
        except Exception:  # noqa: BLE001
            fe = fn = np.zeros(0)
        duplicated = n - np.unique(np.stack([rec.east, rec.north], axis=1), axis=0).shape[0] if n else 0
        if duplicated:
            run.count("force_layout:data_with_repeated_locations:" + rec.kind)
        if fe.size != n or fn.size != n or not (np.array_equal(fe, rec.east) and np.array_equal(fn, rec.north)):
            run.violation("force_layout",
                          "%s with force_coords=None fitted to %d data (%d at repeated locations) holds %d forces%s: the documented default is one force at every datum, in data order"
                          % (rec.kind, n, duplicated, fe.size, "" if fe.size != n else " at other places / in another order"),
                          {"kind": rec.kind, "config": rec.cfg, "easting": rec.east, "northing": rec.north, "force_easting": fe, "force_northing": fn},
                          key="force_layout:" + rec.kind)

    def post_trend_fit(ev):
        if ev.exc is not None:
            return
        rec = build(ev, "trend", {"degree": int(ev.obj.degree), "damping": None}, None)
        judge_fit(ev, rec, ev.obj.coef_)

    def post_spline_fit(ev):
        if ev.exc is not None:
            return
        obj = ev.obj
        rec = build(ev, "spline", {"mindist": float(obj.mindist), "damping": None if obj.damping is None else float(obj.damping)}, obj.force_coords)
        if obj.force_coords is None:
            force_layout(rec, getattr(obj, "force_coords_", None))
        judge_fit(ev, rec, obj.force_)

    def pre_vspline_fit(ev):
        """
        Where the documentation puts the forces of this fit: the configured force_coords, or - when None - the data of the first
        *successful* fit (they then stay there until the parameter is set again). Tracked by the monitor over the object's history so that
        a call that raised, or anything cached at first use, cannot redefine the expectation: the parameter is taken from the object only when
        the object shows a value the monitor has not seen at the end of the previous fit call (the user re-configured it).
        """
        obj = ev.args["self"]
        track = _S.vforce.get(id(obj))
        current = obj.force_coords
        if track is None or track["ref"]() is not obj or current is not track["last_seen"]:
            return None if current is None else (_seq(current[0]), _seq(current[1]))
        return track["expected"]

    def post_vspline_fit(ev):
        obj = ev.obj
        expected = ev.pre
        if ev.exc is None and expected is None:
            try:
                coordinates = ev.args["coordinates"]
                expected_after = (_seq(coordinates[0]), _seq(coordinates[1]))
            except Exception:  # noqa: BLE001
                expected_after = None
        else:
            expected_after = expected
        _S.vforce[id(obj)] = {"ref": weakref.ref(obj), "expected": expected_after, "last_seen": obj.force_coords}
        if ev.exc is not None:
            run.count("fit_raised:vspline:" + type(ev.exc).__name__)
            return
        rec = build(ev, "vspline", {"mindist": float(obj.mindist), "poisson": float(obj.poisson),
                                    "damping": None if obj.damping is None else float(obj.damping)}, expected)
        if expected is None:
            force_layout(rec, obj.force_coords)
        judge_fit(ev, rec, obj.force_)

    def post_predict(ev):
        if ev.exc is not None:
            return
        rec = _lookup(ev.obj)
        if rec is None:
            run.count("predict_without_fit_record")
            return
        if rec.skip:
            run.count("skipped:predict:%s:%s" % (rec.kind, rec.skip[:48]))
            return
        kind, lsq = rec.kind, rec.lsq
        tag = "damped" if lsq.damped else "undamped"
        if not rec.informative:
            run.count("skipped:uninformative:%s:%s" % (kind, tag))
            return
        at_data = rec.same_points(ev.args["coordinates"])
        if lsq.underdetermined and not lsq.damped and not at_data:
            run.count("either_way:underdetermined_off_data")
            return
        qe, qn = _seq(ev.args["coordinates"][0]), _seq(ev.args["coordinates"][1])
        got, ncomp = _stack(ev.result if isinstance(ev.result, tuple) else (ev.result,))
        run.evaluated("prediction_agreement")
        witness = {"kind": kind, "config": rec.cfg, "easting": rec.east, "northing": rec.north, "data_stacked": rec.data, "weights_stacked": rec.weights,
                   "force_coords": rec.force, "kappa": lsq.cond, "query_easting": qe, "query_northing": qn, "prediction_stacked": got}
        if ncomp != rec.ncomp or got.size != qe.size * rec.ncomp:
            run.violation("prediction_agreement", "predict returned %d components / %d values for %d points" % (ncomp, got.size, qe.size), witness, key=kind + ":shape")
            return
        with np.errstate(all="ignore"):
            want = rec.jacobian(qe, qn) @ lsq.params()
        if not np.all(np.isfinite(want)):
            run.count("skipped:reference_prediction_not_finite")
            return
        scale = max(float(np.max(np.abs(want))) if want.size else 0.0, float(np.max(np.abs(rec.data))) if rec.data.size else 0.0)
        tol = rec.rel_tol * scale
        err = float(np.max(np.abs(got - want))) if want.size else 0.0
        dec = _decade(lsq.cond)
        run.count("informative_kappa_bin:%s:%s:1e%02d" % (kind, tag, dec))
        run.count("prediction_agreement:at_the_data" if at_data else "prediction_agreement:elsewhere")
        if not err <= tol:
            witness.update(reference_prediction_stacked=want, tolerance=tol, max_error=err)
            run.violation(
                "prediction_agreement",
                "%s (%s, kappa %.3g): prediction differs from the independently solved weighted damped least-squares problem by %.3g > tolerance %.3g (scale %.3g)"
                % (kind, tag, lsq.cond, err, tol, scale), witness, key="%s:%s:predict" % (kind, tag))
            return
        if tol > 0:
            run.observe_max("err_over_tol:%s:%s:kappa_1e%02d" % (kind, tag, dec), err / tol)
            run.observe_max("err_over_tol:%s:%s" % (kind, tag), err / tol)

    tap.method(verde.Trend, "fit", post=post_trend_fit, documented={"weights": None})
    tap.method(verde.Spline, "fit", post=post_spline_fit, documented={"weights": None})
    tap.method(verde.VectorSpline2D, "fit", post=post_vspline_fit, pre=pre_vspline_fit, documented={"weights": None})
    tap.method(verde.Trend, "predict", post=post_predict)
    tap.method(verde.Spline, "predict", post=post_predict)
    tap.method(verde.VectorSpline2D, "predict", post=post_predict)


# ----------------------------------------------------------------------
# workloads
# ----------------------------------------------------------------------
def _size(rng, lo, hi, big_share=0.3, big_lo=100):
    if hi > big_lo and rng.random() < big_share:
        n = int(rng.integers(big_lo, hi + 1))
    else:
        n = int(round(gen.log_uniform(rng, lo, min(hi, big_lo))))
    if n >= 6 and n % 2 and rng.random() < 0.7:
        n += 1
    return n


def _present_fit(run, rng, kind, east, north, data, weights, shape=None):
    """
    The arguments of one fit in independently chosen memory layouts / containers over one logical shape.
    Returns ((easting, northing), data, weights, description). The logical element sequences (C order) are unchanged.
    """
    n = east.size
    if shape is None:
        shape = lay.logical_shape(rng, n)
    desc = {"logical_shape": list(shape)}

    def one(arg, flat):
        name, out = lay.present(rng, flat, shape)
        cls = lay.layout_class(name, shape)
        run.count("layout:%s:%s" % (arg, cls))
        desc.setdefault(arg, []).append(cls)
        return out

    coords = (one("coordinates", east), one("coordinates", north))
    if isinstance(data, tuple):
        shaped = tuple(one("data", d) for d in data)
    else:
        shaped = one("data", data)
    if weights is None:
        shaped_w = None
    elif isinstance(weights, tuple):
        shaped_w = tuple(one("weights", w) for w in weights)
    else:
        shaped_w = one("weights", weights)
    classes = set(desc["coordinates"] + desc["data"] + desc.get("weights", []))
    if len(classes) > 1:
        run.count("layout:arguments_in_different_layouts")
    if weights is not None and set(desc["weights"]) - set(desc["data"]):
        run.count("layout:weights_laid_out_differently_from_data")
    run.count("layout:logical_%dd" % len(shape))
    return coords, shaped, shaped_w, desc


def _weights(rng, n):
    return 10 ** rng.uniform(-3, 1, n)


def _damping(rng, p_none=0.4):
    if rng.random() < p_none:
        return None
    return float(10 ** rng.uniform(-8, 2))


def _queries(rng, east, north, nq=20):
    return (rng.uniform(east.min(), east.max(), nq), rng.uniform(north.min(), north.max(), nq))


def _forces(rng, east, north, lo_frac=0.25):
    """Force locations: None (= at the data) or a separate, possibly smaller, set inside the data region."""
    n = east.size
    mode = rng.random()
    if mode < 0.33:
        return None, "at_data"
    if mode < 0.4:  # the data points themselves, listed in another order: a square system that is not symmetric
        idx = rng.permutation(n) if rng.random() < 0.6 else np.arange(n)[::-1]
        return (east[idx].copy(), north[idx].copy()), "data_points_in_another_order"
    m = int(rng.integers(max(1, int(np.ceil(lo_frac * n))), n + 1))
    if mode < 0.7:  # a subset of the data points, moved a little
        idx = rng.permutation(n)[:m]
        spacing = np.hypot(np.ptp(east), np.ptp(north)) / np.sqrt(n)
        return (east[idx] + rng.normal(0, 0.05 * spacing, m), north[idx] + rng.normal(0, 0.05 * spacing, m)), "moved_subset"
    side = int(np.ceil(np.sqrt(m)))  # a regular layout over the region
    gx, gy = np.meshgrid(np.linspace(east.min(), east.max(), side), np.linspace(north.min(), north.max(), side))
    idx = rng.permutation(side * side)[:m]
    return (gx.ravel()[idx].copy(), gy.ravel()[idx].copy()), "grid"


def _mean_spacing(east, north):
    return float(np.hypot(np.ptp(east), np.ptp(north)) / np.sqrt(max(east.size, 1))) or 1.0


def _make(rng, verde, kind, east, north, damping="random", forces="random", over=None, run=None):
    """A configured estimator of the kind plus a description."""
    n = east.size
    cfg = {}
    with warnings.catch_warnings():
        warnings.simplefilter("ignore")
        if kind == "trend":
            degree = int(rng.integers(0, 5)) if over is None else int(over)
            return verde.Trend(degree), {"degree": degree}
        damp = _damping(rng) if damping == "random" else damping
        if forces == "random":
            force, where = _forces(rng, east, north)
        elif forces is None:
            force, where = None, "at_data"
        else:
            force, where = forces, "given"
        cfg.update(damping=damp, forces=where, n_forces=n if force is None else int(force[0].size))
        if run is not None:
            run.count("forces:%s:%s" % (kind, where))
        if force is not None and run is not None:  # force locations in independent layouts as well (n_1d_arrays flattens them in C order)
            fshape = lay.logical_shape(rng, force[0].size, p_2d=0.5)
            shaped = []
            for comp in force:
                name, out = lay.present(rng, comp, fshape, allow=("c", "fortran", "transposed_view", "strided", "negative_stride", "readonly"))
                run.count("layout:force_coords:" + lay.layout_class(name, fshape))
                shaped.append(out)
            force = tuple(shaped)
        if kind == "spline":
            mindist = None
            if rng.random() < 0.3:
                mindist = _mean_spacing(east, north) * gen.log_uniform(rng, 1e-3, 1.0)
            cfg["mindist"] = mindist
            kwargs = {} if mindist is None else {"mindist": mindist}
            return verde.Spline(damping=damp, force_coords=force, **kwargs), cfg
        mindist = _mean_spacing(east, north) * gen.log_uniform(rng, 1e-2, 2.0)
        poisson = float(rng.choice([-1.0, 1.0, 0.5, 0.0])) if rng.random() < 0.3 else float(rng.uniform(-1, 1))
        cfg.update(mindist=mindist, poisson=poisson)
        return verde.VectorSpline2D(poisson=poisson, mindist=mindist, damping=damp, force_coords=force), cfg


def _data(rng, kind, east, north, run=None):
    """Smooth non-separable fields; half of the time all values are multiplied by one of DATA_MAGNITUDES ('all finite data values')."""
    factor = float(rng.choice(DATA_MAGNITUDES)) if rng.random() < 0.5 else 1.0
    if run is not None:
        run.count("data_magnitude:%.0e" % factor)
    d = gen.smooth_field(rng, east, north) * factor
    if kind != "vspline":
        return d
    return (d, gen.smooth_field(rng, east, north, amplitude=float(np.abs(d).max() or 1.0) * gen.log_uniform(rng, 0.1, 10)))


def _weight_magnitude(rng, run=None, p=0.5):
    factor = float(rng.choice(WEIGHT_MAGNITUDES)) if rng.random() < p else 1.0
    if run is not None:
        run.count("weight_magnitude:%.0e" % factor)
    return factor


def _cross_leverage(rec, east_k, north_k, qe, qn):
    """
    max over query rows q of sum over the datum's rows k of |j_q M^-1 j_k^T|, M = sum_i w_i j_i j_i^T (+ damping I), all in the
    reference's scaled space. The exact influence of an extra row k with weight eps and residual r on the prediction at q is
    eps * (j_q M^-1 j_k^T) * r / (1 + eps * j_k M^-1 j_k^T).
    """
    lsq = rec.lsq
    with np.errstate(all="ignore"):
        jk = rec.jacobian(np.array([east_k]), np.array([north_k])) / lsq.scale
        jq = rec.jacobian(qe, qn) / lsq.scale
    if not (np.all(np.isfinite(jk)) and np.all(np.isfinite(jq))):
        return None
    normal = lsq.a.T @ lsq.a
    sol = np.linalg.lstsq(normal, jk.T, rcond=None)[0]
    return float(np.abs(jq @ sol).sum(axis=1).max())


def _fit(est, coords, data, weights):
    with warnings.catch_warnings():
        warnings.simplefilter("ignore")
        return est.fit(coords, data) if weights is None else est.fit(coords, data, weights)


def _predict(est, coords):
    with warnings.catch_warnings():
        warnings.simplefilter("ignore")
        out = est.predict(coords)
    return np.concatenate([np.asarray(o, dtype="float64").ravel() for o in out]) if isinstance(out, tuple) else np.asarray(out, dtype="float64").ravel()


def _problem(run, rng, kind, n):
    east, north = gen.cloud(rng, n)
    data = _data(rng, kind, east, north, run)
    weights = None
    if rng.random() < 0.7:
        mag = _weight_magnitude(rng, run, p=0.2)
        weights = (mag * _weights(rng, n), mag * _weights(rng, n) * gen.log_uniform(rng, 1e-1, 1e1)) if kind == "vspline" else mag * _weights(rng, n)
    return east, north, data, weights


def _fit_problem(run, rng, kind, est, problem):
    coords, data, weights, _ = _present_fit(run, rng, kind, *problem)
    _fit(est, coords, data, weights)
    return coords, data, weights


def _use(run, rng, verde, est, kind, problem, args):
    """Something a user does with a fitted estimator between two fits (every nested fit / predict is judged by the monitors)."""
    east, north = problem[0], problem[1]
    coords, data, weights = args
    choice = str(rng.choice(["predict_data", "predict_elsewhere", "grid", "filter", "score", "jacobian", "nothing"]))
    run.count("history:use:" + choice)
    with warnings.catch_warnings():
        warnings.simplefilter("ignore")
        if choice == "predict_data":
            est.predict(coords)
        elif choice == "predict_elsewhere":
            est.predict(_queries(rng, east, north))
        elif choice == "grid":
            est.grid(shape=(int(rng.integers(3, 7)), int(rng.integers(3, 7))))
        elif choice == "filter":
            est.filter(coords, data, weights)
        elif choice == "score":
            est.score(coords, data, weights)
        elif choice == "jacobian":
            if kind == "trend":
                est.jacobian(coords)
            else:
                est.jacobian(coords, est.force_coords_ if kind == "spline" else est.force_coords)


def _other_size(rng, n, lo=6):
    how = str(rng.choice(["smaller", "equal", "larger"]))
    if how == "smaller":
        return max(lo, int(n * rng.uniform(0.3, 0.8))), how
    if how == "larger":
        return int(n * rng.uniform(1.3, 2.2)) + 1, how
    return n, how


def _reconfigure(run, rng, verde, est, kind, east, north):
    """Give *est* the parameters of a freshly drawn configuration, through set_params or plain attribute assignment."""
    if kind == "trend":
        degree = int(rng.choice([d for d in range(5) if d != est.degree]))
        run.count("history:trend_degree_" + ("up" if degree > est.degree else "down"))
        params = {"degree": degree}
    else:
        donor, _ = _make(rng, verde, kind, east, north, run=run)
        params = {k: v for k, v in donor.get_params().items() if k != "engine"}
        run.count("history:force_coords:%s_to_%s" % ("none" if est.force_coords is None else "explicit", "none" if params["force_coords"] is None else "explicit"))
        run.count("history:damping:%s_to_%s" % ("none" if est.damping is None else "set", "none" if params["damping"] is None else "set"))
    if rng.random() < 0.5:
        est.set_params(**params)
        run.count("history:via_set_params")
    else:
        for name, value in params.items():
            setattr(est, name, value)
        run.count("history:via_attribute_assignment")
    return params


DAMPING_SPELLINGS = (1, 10, 100, np.int64(10), np.int32(1), np.float32(0.5), np.float32(8.0), np.array(10.0), np.array(3), np.float64(0.25))


def _spellings(run, rng, verde, index):
    """
    The same scalar parameter value written as Python int / numpy integer / numpy floating / 0-d array must give the same model as the plain
    Python float (int for the degree). The monitors judge every fit with float(value) in the reference; the twin fit is compared directly.
    """
    what = ["spline_damping", "vspline_damping", "trend_degree", "vspline_poisson", "spline_mindist", "vspline_mindist"][index % 6]
    kind = what.split("_")[0]
    n = _size(rng, 10, 120 if kind != "vspline" else 60, big_share=0.15, big_lo=60 if kind != "vspline" else 30)
    scale = float(rng.choice([30.0, 100.0, 1e3, 1e4])) * np.sqrt(n) / 10
    east, north = gen.cloud(rng, n, scale=scale, offset_factor=float(rng.choice([0.0, 1.0])))
    spacing = _mean_spacing(east, north)
    data = _data(rng, kind, east, north, run)
    weights = None
    if rng.random() < 0.7:
        weights = (_weights(rng, n), _weights(rng, n) * gen.log_uniform(rng, 1e-1, 1e1)) if kind == "vspline" else _weights(rng, n)
    forces = None
    if kind != "trend" and rng.random() < 0.6:
        m = int(rng.integers(max(2, n // 4), n))
        idx = rng.permutation(n)[:m]
        forces = (east[idx] + rng.normal(0, 0.05 * spacing, m), north[idx] + rng.normal(0, 0.05 * spacing, m))
    k = index // 6

    def spell_real(value, how):
        return {"int": int(value), "np.int64": np.int64(value), "np.float32": np.float32(value), "0-d array": np.array(float(value)),
                "np.float64": np.float64(value)}[how]

    if what.endswith("damping"):
        spelled = DAMPING_SPELLINGS[k % len(DAMPING_SPELLINGS)]
        plain = float(spelled)
        label = "%s(%s)" % (type(spelled).__name__, plain)
        other = {"mindist": float(spacing * rng.uniform(0.2, 1.0)), "poisson": float(rng.uniform(-1, 1))} if kind == "vspline" else {}
        build = lambda d: (verde.VectorSpline2D(damping=d, force_coords=forces, **other) if kind == "vspline" else verde.Spline(damping=d, force_coords=forces))  # noqa: E731
    elif what == "trend_degree":
        degree = int(rng.integers(0, 5))
        spelled = [np.int64(degree), np.int32(degree), np.uint8(degree), np.array(degree)][k % 4]
        plain = degree
        label = type(spelled).__name__
        build = lambda d: verde.Trend(d)  # noqa: E731
    elif what == "vspline_poisson":
        spelled = [0, -1, 1, np.int64(0), np.int64(1), np.float32(0.5), np.array(0.25), np.array(-1)][k % 8]
        plain = float(spelled)
        label = "%s(%s)" % (type(spelled).__name__, plain)
        damping = _damping(rng)
        mind = float(spacing * rng.uniform(0.2, 1.0))
        build = lambda v: verde.VectorSpline2D(poisson=v, mindist=mind, damping=damping, force_coords=forces)  # noqa: E731
    else:
        how = ["int", "np.int64", "np.float32", "0-d array"][k % 4]
        plain = float(max(1, int(round(spacing * rng.uniform(0.1, 0.8)))))
        spelled = spell_real(plain, how)
        label = how
        damping = _damping(rng)
        poisson = float(rng.uniform(-1, 1))
        build = lambda v: (verde.VectorSpline2D(poisson=poisson, mindist=v, damping=damping, force_coords=forces) if kind == "vspline"  # noqa: E731
                           else verde.Spline(mindist=v, damping=damping, force_coords=forces))
    run.count("spelling:%s:%s" % (what, label))
    with warnings.catch_warnings():
        warnings.simplefilter("ignore")
        est, twin = build(spelled), build(plain)
    coords_fit, d_fit, w_fit, _ = _present_fit(run, rng, kind, east, north, data, weights)
    _fit(est, coords_fit, d_fit, w_fit)
    _fit(twin, (east, north), data, weights)
    qe, qn = _queries(rng, east, north)
    coords = (np.concatenate([east, qe]), np.concatenate([north, qn]))
    got, want = _predict(est, coords), _predict(twin, coords)
    rec = _lookup(twin)
    run.sample("spellings", {"parameter": what, "spelling": label, "value": plain, "n": n})
    if rec is None or rec.skip or not rec.informative:
        run.count("skipped:equivalent_spelling:" + ("no_record" if rec is None else (rec.skip or "uninformative")[:40]))
        return
    scale_of = max(float(np.abs(want).max()), float(np.abs(rec.data).max()))
    tol = 2 * rec.rel_tol * scale_of
    err = float(np.max(np.abs(got - want)))
    run.evaluated("equivalent_spelling")
    if not err <= tol:
        run.violation("equivalent_spelling",
                      "%s given as %s and as the plain %r give different models: predictions differ by %.3g > tolerance %.3g" % (what, label, plain, err, tol),
                      {"parameter": what, "spelling": label, "value": plain, "easting": east, "northing": north, "data": list(data) if isinstance(data, tuple) else data,
                       "weights": None if weights is None else (list(weights) if isinstance(weights, tuple) else weights), "force_coords": forces,
                       "prediction_spelled": got, "prediction_plain": want}, key="spelling:" + what)
        return
    if tol > 0:
        run.observe_max("equivalent_spelling_err_over_tol:" + what, err / tol)
    run.mark_nontrivial("spelling", what, label, plain, east, north, list(data) if isinstance(data, tuple) else data)


LARGE_N = (20001, 20011, 20483)   # not multiples of the usual block sizes; times ~500 forces: more than 1e7 Jacobian elements


def _large_jacobian(run, rng, verde, index):
    """
    Design matrices with more than 1e7 elements (fast paths / chunked branches above a size threshold). The LAST data rows carry information:
    large weights and values off the smooth field, so a dropped or stale tail shows in the optimality and prediction-agreement monitors.
    """
    kind = "spline" if index % 2 == 0 else "vspline"
    if kind == "spline":
        n = int(LARGE_N[(index // 2) % len(LARGE_N)])
        m = int(rng.integers(500, 520))
    else:
        n = int([7001, 7013, 7177][(index // 2) % 3])
        m = int(rng.integers(360, 372))
    scale = gen.log_uniform(rng, 1e2, 1e5)
    east, north = rng.uniform(0, scale, n), rng.uniform(0, scale, n)
    forces = (rng.uniform(0, scale, m), rng.uniform(0, scale, m))
    data = _data(rng, kind, east, north, run)
    comps = list(data) if isinstance(data, tuple) else [data]
    tail = int(rng.integers(1, 12))
    weights = []
    for c in comps:
        c[-tail:] += float(np.ptp(c)) * rng.uniform(0.5, 2.0, tail) * rng.choice([-1, 1], tail)
        w = 10 ** rng.uniform(-2, 0, n)
        w[-tail:] = 10 ** rng.uniform(2, 3, tail)
        weights.append(w)
    damping = None if rng.random() < 0.5 else float(10 ** rng.uniform(-4, 1))
    with warnings.catch_warnings():
        warnings.simplefilter("ignore")
        if kind == "spline":
            est = verde.Spline(damping=damping, force_coords=forces)
        else:
            est = verde.VectorSpline2D(poisson=float(rng.uniform(-1, 1)), mindist=float(scale / np.sqrt(n) * rng.uniform(0.5, 2)), damping=damping, force_coords=forces)
    d_arg, w_arg = (tuple(comps), tuple(weights)) if kind == "vspline" else (comps[0], weights[0])
    _fit(est, (east, north), d_arg, w_arg)
    sel = np.concatenate([np.arange(n - 40, n), rng.choice(n - 40, 160, replace=False)])  # the tail and a sample of the rest
    _predict(est, (east[sel], north[sel]))
    _predict(est, _queries(rng, east, north))
    rec = _lookup(est)
    elements = (n * m) * (4 if kind == "vspline" else 1)
    run.count("large_jacobian:%s" % kind)
    run.count("large_jacobian:%s:%s" % (kind, "damped" if damping is not None else "undamped"))
    if elements <= 1e7:
        run.note_inconclusive("large_jacobian case with only %d elements" % elements)
    run.sample("large_jacobian", {"kind": kind, "n_data": n, "n_forces": m, "jacobian_elements": elements, "damping": damping, "informative_tail_rows": tail,
                                  "reference_kappa": None if rec is None or rec.lsq is None else rec.lsq.cond,
                                  "normalised_gradient": None if rec is None else rec.gradient})


def _concurrent(run, rng, verde, index):
    """
    Two to four fits running at the same time in different threads on problems of the SAME (n_data, n_forces) shape but different
    coordinates / data / weights, several rounds; every fit and predict is judged in its thread against its own reference problem.
    """
    from .. import core

    kind = ["vspline", "spline", "trend", "vspline"][index % 4]
    big = (index // 4) % 7 == 0  # one block of large-array cases, six blocks of short calls with many passes
    nthreads = 2 + index % 3 if big else 3 + index % 2
    if big:
        n, m, rounds = {"spline": (900, 260), "vspline": (460, 130), "trend": (30000, None)}[kind] + (2,)
    else:
        n, m, rounds = {"spline": (16, 6), "vspline": (12, 5), "trend": (30, None)}[kind] + (int(rng.integers(30, 46)),)  # short calls, many passes
    damping = None if (kind == "trend" or rng.random() < 0.5) else float(10 ** rng.uniform(-4, 1))
    degree = int(rng.integers(1, 5))
    poisson = float(rng.uniform(-1, 1))
    jobs, ests = [], []
    for _ in range(nthreads):
        if n > 2000:  # gen.cloud checks all pairwise distances
            scale = gen.log_uniform(rng, 1e-2, 1e6)
            offset = float(rng.choice([0.0, 1.0])) * scale
            east, north = offset + rng.uniform(0, scale, n), rng.uniform(0, scale, n) - offset
        else:
            east, north = gen.cloud(rng, n)
        data = _data(rng, kind, east, north, run)
        weights = None
        if rng.random() < 0.7:
            weights = (_weights(rng, n), _weights(rng, n)) if kind == "vspline" else _weights(rng, n)
        with warnings.catch_warnings():
            warnings.simplefilter("ignore")
            if kind == "trend":
                est = verde.Trend(degree)
            else:
                idx = rng.permutation(n)[:m]
                jitter = 0.05 * _mean_spacing(east, north)
                forces = (east[idx] + rng.normal(0, jitter, m), north[idx] + rng.normal(0, jitter, m))
                est = (verde.Spline(damping=damping, force_coords=forces) if kind == "spline" else
                       verde.VectorSpline2D(poisson=poisson, mindist=_mean_spacing(east, north) * rng.uniform(0.3, 1.5), damping=damping, force_coords=forces))
        ests.append(est)
        qe, qn = _queries(rng, east, north)

        def job(est=est, east=east, north=north, data=data, weights=weights, qe=qe, qn=qn):
            # no warnings.catch_warnings() inside the threads: the filter list is process-wide (silenced once around run_threads)
            est.fit((east, north), data) if weights is None else est.fit((east, north), data, weights)
            est.predict((east, north))
            return est.predict((qe, qn))

        jobs.append(job)
    inject = not big  # GIL hand-offs at random statement starts inside the verde sources (narrow race windows); too slow for the large-array rounds
    with warnings.catch_warnings():
        warnings.simplefilter("ignore")
        results = core.run_threads(jobs, rounds=rounds, yield_probability=0.25 if inject else 0.0, seed=index)
    run.count("yields_injected", getattr(core.run_threads, "yields_injected", 0) - run.counters.get("yields_injected", 0))
    run.count("concurrent:%s_yield_injection" % ("with" if inject else "without"))
    run.count("concurrent:%s:%s:%d_threads" % (kind, "big" if big else "small_many_rounds", nthreads))
    run.count("concurrent_fits:" + kind, nthreads * rounds)
    for k, (_, exc) in enumerate(results):
        if isinstance(exc, TimeoutError):
            run.note_inconclusive("concurrent %s fit: %s" % (kind, exc))
        elif exc is not None:
            run.violation("concurrent_exception", "%s.fit / predict running concurrently with %d other fits raised %s: %s" % (kind, nthreads - 1, type(exc).__name__, exc),
                          {"kind": kind, "threads": nthreads, "n_data": n, "n_forces": m, "rounds": rounds}, key="concurrent:" + kind)
    run.sample("concurrent", {"kind": kind, "threads": nthreads, "rounds": rounds, "n_data": n, "n_forces": m, "damping": damping})


def _duplicates(run, rng, verde, index):
    """
    Repeated stations / concatenated surveys: some (easting, northing) locations occur more than once, with different data values, fitted with
    damping and the default force layout (one force under every datum). The design then has identical columns; with damping the problem is well
    posed and the model is the damped optimum over all n_data forces. (Undamped fits of such data are singular: not generated.)
    """
    kind = "spline" if index % 3 else "vspline"
    n = _size(rng, 10, 150 if kind == "spline" else 70, big_share=0.2, big_lo=70 if kind == "spline" else 35)
    repeated = max(1, int(round(n * rng.uniform(0.05, 0.4))))
    unique_e, unique_n = gen.cloud(rng, n - repeated)
    again = rng.integers(0, n - repeated, repeated)  # a location may be visited three or more times
    order = rng.permutation(n) if rng.random() < 0.7 else np.arange(n)  # shuffled together, or the second survey appended
    east = np.concatenate([unique_e, unique_e[again]])[order]
    north = np.concatenate([unique_n, unique_n[again]])[order]
    data = _data(rng, kind, east, north, run)  # the noise term makes repeated stations disagree
    comps = data if isinstance(data, tuple) else (data,)
    spread = max(float(np.ptp(c)) for c in comps) or 1.0
    comps = tuple(c + 0.05 * spread * rng.normal(size=n) for c in comps)
    data = comps if kind == "vspline" else comps[0]
    weights = None
    if rng.random() < 0.6:
        mag = _weight_magnitude(rng, run, p=0.2)
        weights = (mag * _weights(rng, n), mag * _weights(rng, n) * gen.log_uniform(rng, 1e-1, 1e1)) if kind == "vspline" else mag * _weights(rng, n)
    damping = float(10 ** rng.uniform(-8, 2))
    with warnings.catch_warnings():
        warnings.simplefilter("ignore")
        if kind == "spline":
            mindist = None if rng.random() < 0.7 else _mean_spacing(east, north) * gen.log_uniform(rng, 1e-3, 1.0)
            est = verde.Spline(damping=damping) if mindist is None else verde.Spline(damping=damping, mindist=mindist)
        else:
            est = verde.VectorSpline2D(poisson=float(rng.uniform(-1, 1)), mindist=_mean_spacing(east, north) * gen.log_uniform(rng, 1e-2, 2.0), damping=damping)
    coords, shaped, shaped_w, layouts = _present_fit(run, rng, kind, east, north, data, weights)
    _fit(est, coords, shaped, shaped_w)
    _predict(est, coords)
    qe, qn = _queries(rng, east, north)
    pred = _predict(est, (qe, qn))
    rec = _lookup(est)
    run.count("duplicates:%s:damping_1e%+03d" % (kind, int(np.floor(np.log10(damping) / 2) * 2)))
    run.count("duplicates:%s" % kind)
    if rec is not None and rec.lsq is not None and not rec.skip:
        run.count("duplicates:%s:%s" % (kind, "informative" if rec.informative else "uninformative_for_predictions"))
    run.sample("duplicates", {"kind": kind, "n": n, "repeated": repeated, "damping": damping, "layouts": layouts, "easting": east, "northing": north,
                              "data": [c for c in comps], "prediction_at_queries": pred,
                              "reference_kappa": None if rec is None or rec.lsq is None else rec.lsq.cond,
                              "normalised_gradient": None if rec is None else rec.gradient})


HISTORY_MODES = ("refit_after_use", "refit_directly", "refit_same_arrays_new_contents", "reconfigure_after_use", "reconfigure_before_use",
                 "reconfigure_held_in_chain", "error_then_fit", "refit_after_resetting_forces")


def _history(run, rng, verde, index):
    kind = ["trend", "spline", "vspline"][index % 3]
    mode = HISTORY_MODES[(index // 3) % len(HISTORY_MODES)]
    if mode == "refit_after_resetting_forces" and kind == "trend":
        mode = "refit_after_use"
    run.count("history:%s:%s" % (mode, kind))
    n = _size(rng, 8, 120 if kind != "vspline" else 60, big_share=0.15, big_lo=60 if kind != "vspline" else 30)
    first = _problem(run, rng, kind, n)
    est, cfg = _make(rng, verde, kind, first[0], first[1], run=run)
    n2, how = _other_size(rng, n)
    second = _problem(run, rng, kind, n2)

    def finish(obj, problem, args):
        _predict(obj, args[0])
        _predict(obj, _queries(rng, problem[0], problem[1]))

    if mode in ("refit_after_use", "refit_directly", "refit_after_resetting_forces"):
        args = _fit_problem(run, rng, kind, est, first)
        if mode != "refit_directly":
            _use(run, rng, verde, est, kind, first, args)
        if mode == "refit_after_resetting_forces":
            est.set_params(force_coords=None)
        run.count("history:size_change:" + how)
        args = _fit_problem(run, rng, kind, est, second)
        finish(est, second, args)
    elif mode == "refit_same_arrays_new_contents":
        shape = lay.logical_shape(rng, n)
        east, north, data, weights = first
        east2, north2, data2, weights2 = _problem(run, rng, kind, n)
        own = lambda a: np.array(a.reshape(shape), order="C", copy=True)  # noqa: E731
        e, nn = own(east), own(north)
        d = tuple(own(c) for c in data) if isinstance(data, tuple) else own(data)
        w = None if weights is None else (tuple(own(c) for c in weights) if isinstance(weights, tuple) else own(weights))
        _fit(est, (e, nn), d, w)
        _use(run, rng, verde, est, kind, first, ((e, nn), d, w))
        e[...] = east2.reshape(shape)  # the caller re-uses its buffers: same objects (same id), new contents
        nn[...] = north2.reshape(shape)
        for target, source in zip(d if isinstance(d, tuple) else (d,), data2 if isinstance(data2, tuple) else (data2,)):
            target[...] = source.reshape(shape)
        if w is not None:
            new_w = weights2 if weights2 is not None else (tuple(np.ones(n) for _ in w) if isinstance(w, tuple) else np.ones(n))
            for target, source in zip(w if isinstance(w, tuple) else (w,), new_w if isinstance(new_w, tuple) else (new_w,)):
                target[...] = np.asarray(source).reshape(shape)
        _fit(est, (e, nn), d, w)
        finish(est, (east2, north2), ((e, nn), d, w))
    elif mode in ("reconfigure_after_use", "reconfigure_before_use"):
        if mode == "reconfigure_after_use":
            args = _fit_problem(run, rng, kind, est, first)
            _use(run, rng, verde, est, kind, first, args)
        elif rng.random() < 0.5:  # the only use before the change: building a design matrix with the first configuration
            with warnings.catch_warnings():
                warnings.simplefilter("ignore")
                if kind == "trend":
                    est.jacobian((first[0], first[1]))
                else:
                    est.jacobian((first[0], first[1]), (first[0], first[1]) if est.force_coords is None else est.force_coords)
        target = second if rng.random() < 0.6 else first
        _reconfigure(run, rng, verde, est, kind, target[0], target[1])
        args = _fit_problem(run, rng, kind, est, target)
        finish(est, target, args)
    elif mode == "reconfigure_held_in_chain":
        trends = verde.Trend(int(rng.integers(0, 3))) if kind != "vspline" else verde.Vector([verde.Trend(int(rng.integers(0, 3))) for _ in range(2)])
        held = est if kind != "trend" else verde.Trend(int(rng.integers(0, 5)))
        chain = verde.Chain([("first", trends), ("held", held)])
        args = _fit_problem(run, rng, kind, chain, first)
        if rng.random() < 0.6:
            _predict(chain, args[0])
        for trend in (trends.components if kind == "vspline" else [trends]):
            trend.set_params(degree=int(rng.choice([d for d in range(4) if d != trend.degree])))
        _reconfigure(run, rng, verde, held, kind, second[0], second[1])
        args = _fit_problem(run, rng, kind, chain, second)
        _predict(chain, args[0])
        _predict(chain, _queries(rng, second[0], second[1]))
    elif mode == "error_then_fit":
        east, north, data, weights = first
        which = str(rng.choice(["data_shape", "coordinate_shape", "components", "weights_count"]))
        if kind == "vspline" and (index // (3 * len(HISTORY_MODES))) % 2 == 0:
            which = "components"
        bad_coords, bad_data, bad_weights = (east, north), data, weights
        if which == "data_shape":
            bad_data = tuple(c[:-1] for c in data) if isinstance(data, tuple) else data[:-1]
            bad_weights = None
        elif which == "coordinate_shape":
            bad_coords = (east, north[:-1])
        elif which == "components":
            bad_data = (data[0], data[1], data[0]) if kind == "vspline" else data
            bad_weights = None
            if kind != "vspline":
                bad_weights = (np.ones(n), np.ones(n))
                which = "weights_count"
        else:
            bad_weights = (np.ones(n),) * 3 if kind == "vspline" else (np.ones(n), np.ones(n))
        try:
            _fit(est, bad_coords, bad_data, bad_weights)
            run.count("history:error_path:%s:accepted" % which)
        except ValueError:
            run.count("history:error_path:%s:ValueError" % which)
        run.count("history:size_change:" + how)
        args = _fit_problem(run, rng, kind, est, second)
        finish(est, second, args)
    run.sample("history", {"mode": mode, "kind": kind, "first_config": {k: v for k, v in cfg.items()}, "n_first": n, "n_second": n2})


def run_case(run, tap, stream, index, rng):
    import verde

    _S.records.clear()
    _S.vforce.clear()
    if stream in ("trend", "spline", "vspline"):
        kind = stream
        hi = {"trend": 300, "spline": 300, "vspline": 150}[kind]
        n = _size(rng, 3, hi, big_lo=100 if kind != "vspline" else 50)
        east, north = gen.cloud(rng, n)
        data = _data(rng, kind, east, north, run)
        est, cfg = _make(rng, verde, kind, east, north, run=run)
        weights = None
        if rng.random() < 0.7:
            mag = _weight_magnitude(rng, run)
            weights = (mag * _weights(rng, n), mag * _weights(rng, n) * gen.log_uniform(rng, 1e-1, 1e1)) if kind == "vspline" else mag * _weights(rng, n)
        (e, nn), shaped_data, shaped_w, layouts = _present_fit(run, rng, kind, east, north, data, weights)
        cfg = dict(cfg, layouts=layouts)
        _fit(est, (e, nn), shaped_data, shaped_w)
        _predict(est, (e, nn))
        qe, qn = _queries(rng, east, north)
        pred = _predict(est, (qe.reshape(4, 5), qn.reshape(4, 5)))
        rec = _lookup(est)
        run.sample(kind, {"config": cfg, "n": n, "easting": east, "northing": north, "data": list(data) if isinstance(data, tuple) else data,
                          "weights": None if weights is None else (list(weights) if isinstance(weights, tuple) else weights),
                          "query_easting": qe, "query_northing": qn, "prediction_at_queries": pred,
                          "reference_kappa": None if rec is None or rec.lsq is None else rec.lsq.cond,
                          "normalised_gradient": None if rec is None else rec.gradient})
        if kind != "trend" and index % 9 == 4:  # nested use: a Chain fits the spline on the residual of a Trend
            first = verde.Trend(1) if kind == "spline" else verde.Vector([verde.Trend(1), verde.Trend(1)])
            chain = verde.Chain([("trend", first), ("spline", est)])
            _fit(chain, (east, north), data, weights)
            with warnings.catch_warnings():
                warnings.simplefilter("ignore")
                chain.predict((qe, qn))
            run.count("nested_chain_fits")
    elif stream == "wscale":
        kind = ["trend", "spline", "vspline"][index % 3]
        n = _size(rng, 6, 200 if kind != "vspline" else 100, big_lo=80 if kind != "vspline" else 40)
        east, north = gen.cloud(rng, n)
        data = _data(rng, kind, east, north, run)
        state = rng.bit_generator.state
        est1, cfg = _make(rng, verde, kind, east, north, damping=None)
        rng.bit_generator.state = state
        est2, _ = _make(rng, verde, kind, east, north, damping=None)
        mag = _weight_magnitude(rng, run, p=0.3)
        if rng.random() < 0.5:
            factor = gen.log_uniform(rng, 1e-3, 1e3)
        else:  # jump to another magnitude class
            factor = float(rng.choice(WEIGHT_MAGNITUDES)) / mag * gen.log_uniform(rng, 0.3, 3)
        run.count("weight_scale_constant:1e%+03d" % int(np.floor(np.log10(factor) / 3) * 3))
        if kind == "vspline":
            w1 = (mag * _weights(rng, n), mag * _weights(rng, n) * gen.log_uniform(rng, 1e-1, 1e1))
            w2 = tuple(factor * w for w in w1)
        else:
            w1 = mag * _weights(rng, n)
            w2 = factor * w1
        shape = lay.logical_shape(rng, n)
        c1, d1, sw1, layouts = _present_fit(run, rng, kind, east, north, data, w1, shape)
        c2, d2, sw2, _ = _present_fit(run, rng, kind, east, north, data, w2, shape)
        cfg = dict(cfg, layouts=layouts)
        _fit(est1, c1, d1, sw1)
        _fit(est2, c2, d2, sw2)
        qe, qn = _queries(rng, east, north)
        coords = (np.concatenate([east, qe]), np.concatenate([north, qn]))
        p1, p2 = _predict(est1, coords), _predict(est2, coords)
        rec = _lookup(est1)
        if rec is None or rec.skip or not rec.informative:
            run.count("skipped:weight_scale_invariance:" + ("no_record" if rec is None else (rec.skip or "uninformative")[:40]))
            return
        scale = max(float(np.abs(p1).max()), float(np.abs(rec.data).max()))
        tol = 2 * rec.rel_tol * scale
        err = float(np.max(np.abs(p1 - p2)))
        run.evaluated("weight_scale_invariance")
        run.count("weight_scale_invariance:" + kind)
        if not err <= tol:
            run.violation("weight_scale_invariance",
                          "undamped %s: fits with weights w and %.3g*w differ by %.3g > tolerance %.3g (kappa %.3g)" % (kind, factor, err, tol, rec.lsq.cond),
                          {"kind": kind, "config": cfg, "easting": east, "northing": north, "data": list(data) if isinstance(data, tuple) else data,
                           "weights": list(w1) if isinstance(w1, tuple) else w1, "factor": factor, "prediction_w": p1, "prediction_cw": p2,
                           "force_coords": rec.force}, key="wscale:" + kind)
            return
        if tol > 0:
            run.observe_max("weight_scale_invariance_err_over_tol:" + kind, err / tol)
        rows, cols = rec.lsq.a.shape
        if rows > cols:
            run.mark_nontrivial("wscale", kind, repr(sorted(cfg.items(), key=str)), east, north, data if not isinstance(data, tuple) else list(data), factor)
        run.sample("wscale", {"kind": kind, "config": cfg, "n": n, "factor": factor, "max_difference": err, "tolerance": tol})
    elif stream == "vanish":
        kind = ["trend", "spline", "vspline"][index % 3]
        damped = kind != "trend" and (index // 3) % 2 == 1
        if kind == "trend":
            degree = int(rng.integers(0, 4))
            nparams = len(ref.trend_exponents(degree))
            n = max(5 * nparams + int(rng.integers(0, 40)), 8)
            east, north = gen.cloud(rng, n, offset_factor=float(rng.choice([0.0, 1.0])))
            forces = None
        else:
            m = int(rng.integers(3, 25 if kind == "spline" else 13))
            n = 5 * m + int(rng.integers(0, 40))
            east, north = gen.cloud(rng, n)
            side = int(np.ceil(np.sqrt(m)))
            gx, gy = np.meshgrid(np.linspace(east.min(), east.max(), side), np.linspace(north.min(), north.max(), side))
            idx = rng.permutation(side * side)[:m]
            forces = (gx.ravel()[idx].copy(), gy.ravel()[idx].copy())
            degree = None
        data = _data(rng, kind, east, north, run)
        comps = data if isinstance(data, tuple) else (data,)
        k = int(np.argmin((east - east.mean()) ** 2 + (north - north.mean()) ** 2))  # an interior datum
        spread = max(float(np.ptp(c)) for c in comps) or 1.0
        delta = spread * gen.log_uniform(rng, 10, 1e3) * float(rng.choice([-1, 1]))
        damping = float(10 ** rng.uniform(-4, 1)) if damped else None
        base = tuple(rng.uniform(0.5, 2.0, n) for _ in comps)
        state = rng.bit_generator.state

        def fresh():
            rng.bit_generator.state = state
            return _make(rng, verde, kind, east, north, damping=damping, forces=forces, over=degree)

        def weighted(eps):
            out = tuple(w.copy() for w in base)
            for w in out:
                w[k] = eps
            return out if kind == "vspline" else out[0]

        def displaced(amount):
            out = tuple(c.copy() for c in comps)
            for c in out:
                c[k] += amount
            return out if kind == "vspline" else out[0]

        qe, qn = _queries(rng, east, north)
        coords = (np.concatenate([east, qe]), np.concatenate([north, qn]))
        fits = {}
        for eps in (1e-4, 1e-8):
            est, cfg = fresh()
            _fit(est, (east, north), displaced(delta), weighted(eps))
            fits[eps] = _predict(est, coords)
            rec = _lookup(est)
            if eps == 1e-4:
                rec_lev = rec
        if damped:  # reference: the same fit with the datum's value not displaced (see ASSUMPTIONS)
            reference = {}
            for eps in (1e-4, 1e-8):
                est, _ = fresh()
                _fit(est, (east, north), displaced(0.0), weighted(eps))
                reference[eps] = _predict(est, coords)
        else:  # reference: the fit without the datum
            keep = np.arange(n) != k
            est, _ = fresh()
            w_wo = tuple(w[keep] for w in base)
            d_wo = tuple(c[keep] for c in comps)
            _fit(est, (east[keep], north[keep]), d_wo if kind == "vspline" else d_wo[0], w_wo if kind == "vspline" else w_wo[0])
            without = _predict(est, coords)
            reference = {1e-4: without, 1e-8: without}
            rec_lev = _lookup(est)
        if rec is None or rec.skip or not rec.informative:
            run.count("skipped:vanishing_weight:" + ("no_record" if rec is None else (rec.skip or "uninformative")[:40]))
            return
        if rec_lev is None or rec_lev.skip:
            run.count("skipped:vanishing_weight:no_reference_for_the_leverage")
            return
        leverage = _cross_leverage(rec_lev, east[k], north[k], coords[0], coords[1])
        if leverage is None or not leverage <= LEVERAGE_MAX:
            run.count("skipped:vanishing_weight:high_leverage_datum")
            return
        run.observe_max("vanishing_weight_cross_leverage:" + kind, leverage)
        scale = max(float(np.abs(fits[1e-8]).max()), max(float(np.abs(c).max()) for c in comps))
        tol = 2 * rec.rel_tol * scale
        diff = {eps: float(np.max(np.abs(fits[eps] - reference[eps]))) for eps in fits}
        run.evaluated("vanishing_weight")
        run.count("vanishing_weight:%s:%s" % (kind, "damped" if damped else "undamped"))
        witness = {"kind": kind, "config": cfg, "easting": east, "northing": north, "data": [c for c in comps], "other_weights": [w for w in base],
                   "datum": k, "outlier": delta, "force_coords": forces, "difference": {str(e): v for e, v in diff.items()}, "numerical_tolerance": tol,
                   "reference": "same fit, datum not displaced" if damped else "fit without the datum"}
        problem = None
        for eps in (1e-4, 1e-8):
            bound = VANISH_FACTOR * eps * abs(delta) + tol
            run.observe_max("vanishing_weight_diff_over_eps_outlier:%s" % kind, (diff[eps] - tol) / (eps * abs(delta)))
            if not diff[eps] <= bound:
                problem = "a datum displaced by %.3g with weight %.0e still moves the %s fit by %.3g > %.3g" % (delta, eps, kind, diff[eps], bound)
                break
        if problem is None and not (diff[1e-8] <= tol and diff[1e-4] <= tol) and not diff[1e-8] <= diff[1e-4] / 100 + tol:
            problem = ("the influence of the datum does not vanish with its weight: difference %.3g at weight 1e-4, %.3g at weight 1e-8 (%s)"
                       % (diff[1e-4], diff[1e-8], kind))
        if problem:
            run.violation("vanishing_weight", problem, witness, key="vanish:%s:%s" % (kind, "damped" if damped else "undamped"))
            return
        run.mark_nontrivial("vanish", kind, repr(sorted(cfg.items(), key=str)), east, north, [c for c in comps], k, delta)
        run.sample("vanish", {"kind": kind, "config": cfg, "n": n, "datum": k, "outlier": delta, "difference": {str(e): v for e, v in diff.items()},
                              "numerical_tolerance": tol})
    elif stream == "history":
        _history(run, rng, verde, index)
    elif stream == "spellings":
        _spellings(run, rng, verde, index)
    elif stream == "defaults":
        defaults_case(run, rng, verde, index, ("Spline", "VectorSpline2D", "Trend"))
    elif stream == "duplicates":
        _duplicates(run, rng, verde, index)
    elif stream == "large_jacobian":
        _large_jacobian(run, rng, verde, index)
    elif stream == "concurrent":
        _concurrent(run, rng, verde, index)
    elif stream == "wmag":
        # weight-magnitude classes: the same non-uniform relative weights times 1e-15 ... 1e12, for every estimator configuration
        configs = ["trend", "spline_damped", "spline_undamped_fewer_forces", "vspline_damped", "vspline_undamped_fewer_forces", "spline_damped_fewer_forces"]
        config = configs[index % len(configs)]
        mag = WEIGHT_MAGNITUDES[(index // len(configs)) % len(WEIGHT_MAGNITUDES)]
        kind = config.split("_")[0]
        damped = "_damped" in config
        n = _size(rng, 12, 160 if kind != "vspline" else 80, big_share=0.2, big_lo=80 if kind != "vspline" else 40)
        east, north = gen.cloud(rng, n)
        data = _data(rng, kind, east, north, run)
        forces = None
        if "fewer_forces" in config:
            m = int(rng.integers(max(2, n // 6), max(3, n // 2)))
            idx = rng.permutation(n)[:m]
            jitter = 0.05 * _mean_spacing(east, north)
            forces = (east[idx] + rng.normal(0, jitter, m), north[idx] + rng.normal(0, jitter, m))
        damping = float(10 ** rng.uniform(-6, 1)) if damped else None
        relative = (_weights(rng, n), _weights(rng, n) * gen.log_uniform(rng, 1e-1, 1e1)) if kind == "vspline" else _weights(rng, n)
        scaled = tuple(mag * w for w in relative) if kind == "vspline" else mag * relative
        state = rng.bit_generator.state

        def fresh():
            rng.bit_generator.state = state
            return _make(rng, verde, kind, east, north, damping=damping, forces=forces)

        shape = lay.logical_shape(rng, n)
        est, cfg = fresh()
        coords_fit, d_fit, w_fit, layouts = _present_fit(run, rng, kind, east, north, data, scaled, shape)
        _fit(est, coords_fit, d_fit, w_fit)
        qe, qn = _queries(rng, east, north)
        coords = (np.concatenate([east, qe]), np.concatenate([north, qn]))
        got = _predict(est, coords)
        rec = _lookup(est)
        run.count("weight_magnitude_class:%s:%.0e" % (config, mag))
        run.sample("wmag", {"config": dict(cfg, layouts=layouts), "class": config, "weight_magnitude": mag, "n": n,
                            "normalised_gradient": None if rec is None else rec.gradient,
                            "reference_kappa": None if rec is None or rec.lsq is None else rec.lsq.cond})
        if damped or mag == 1.0:
            return  # damped fits depend on the magnitude: decided by the optimality / prediction-agreement monitors with the weights as given
        est1, _ = fresh()  # undamped: fit(w) == fit(c w) with c spanning up to 15 decades
        _fit(est1, (east, north), data, relative)
        base = _predict(est1, coords)
        rec1 = _lookup(est1)
        if rec1 is None or rec1.skip or not rec1.informative:
            run.count("skipped:weight_scale_invariance:" + ("no_record" if rec1 is None else (rec1.skip or "uninformative")[:40]))
            return
        scale = max(float(np.abs(base).max()), float(np.abs(rec1.data).max()))
        tol = 2 * rec1.rel_tol * scale
        err = float(np.max(np.abs(got - base)))
        run.evaluated("weight_scale_invariance")
        run.count("weight_scale_invariance:magnitude:%.0e" % mag)
        if not err <= tol:
            run.violation("weight_scale_invariance",
                          "undamped %s: fits with weights w and %.0e*w differ by %.3g > tolerance %.3g (kappa %.3g)" % (config, mag, err, tol, rec1.lsq.cond),
                          {"class": config, "config": cfg, "easting": east, "northing": north, "data": list(data) if isinstance(data, tuple) else data,
                           "weights": list(relative) if isinstance(relative, tuple) else relative, "factor": mag, "prediction_w": base, "prediction_cw": got,
                           "force_coords": rec1.force}, key="wmag:%s:%.0e" % (config, mag))
            return
        if tol > 0:
            run.observe_max("weight_scale_invariance_err_over_tol:magnitude:%.0e" % mag, err / tol)
        run.mark_nontrivial("wmag", config, mag, east, north, list(data) if isinstance(data, tuple) else data)
    else:
        raise ValueError(stream)


LEVEL_TEXT = (
    "Every fit() return of Trend, Spline and VectorSpline2D produced by the workload (direct, or nested in a Chain) is tested for first-order "
    "optimality of the objective sum w r^2 + damping |S p|^2 on a design matrix assembled by an independent numpy reference; every following "
    "predict() return is compared with the independently solved problem when it is well conditioned; weight-scale invariance and the "
    "vanishing-weight limit are checked as relations between monitored executions. Seeded random exploration; held = no refutation among the "
    "monitored executions."
)
LEVEL_NOTE = (
    "Trusted: numpy SVD/lstsq, float64 evaluation of the reference kernels. Prediction agreement is decided only for informative cases "
    "(100*kappa_eff*eps < 1e-3); the optimality test is decided for every fit with well-defined column scaling."
)
TECHNIQUE = (
    "runtime postcondition monitors on fit/predict of the real estimators with an independent numpy least-squares reference "
    "(gradient test + independently solved problem), plus metamorphic relations (weight scaling, vanishing weight) over monitored executions"
)
