"""
C11 - blocked cross-validators never split a block and partition the data.

Monitors
--------
* ``BaseBlockCrossValidator.split`` is wrapped at class level as a generator: every
  ``(train, test)`` pair yielded anywhere (direct calls, ``cross_val_score``,
  ``train_test_split``) is judged, with the labels of the nested ``block_split``
  event **and** with labels recomputed independently (floor arithmetic on the
  reference block geometry, region = bounding box of the points).
* ``partition_by_sum`` (direct and nested): split points strictly increasing, inside
  ``1..size-1`` (no empty part), parts within one element of the ideal sum; a refusal
  must be a case where the documented split points do not exist.
* ``train_test_split`` abandons its generator after the first pair, so its monitor
  judges the nested ``split`` event (the tap does not post abandoned generators).
* The workload records warnings (``warnings.catch_warnings(record=True)``); the monitor
  reads the live log to know whether BlockKFold's documented fallback warning was
  emitted during *this* split.

Oracles never import verde. scikit-learn's public ``ShuffleSplit`` is used where the
statement itself refers to it (number of test blocks, candidate shuffles).
"""
import bisect
import collections
import copy
import itertools
import warnings

import numpy as np

from .. import ref
from ..core import digest

ID = "C11"
LEVEL = "exploration"
RULE = (
    "cases = (point set X, cross-validator configuration). EXHAUSTIVE part: single-row layouts of B <= 6 blocks "
    "(quick tier: B <= 4, plus sampled vectors of 5..9 blocks with populations from {0,1,2,3,7,50,200}) with block populations in {0,1,2,3,50}^B whose end blocks are occupied (the blocks of a "
    "cross-validator always span the bounding box of the points, so a vector with an empty end block is the same input as "
    "a shorter vector) x all n_splits from 2 to the number of occupied blocks x shuffle off / 3 seeds x balance on/off, "
    "geometry given alternately by shape and by spacing; plus per vector one n_splits = occupied+1 rejection, one repeated "
    "run and one BlockShuffleSplit run. RANDOM part: 2-D layouts up to 8x8 blocks, 10-2000 points (uniform / gaussian / "
    "clustered / one heavy block / sparse), shape or spacing (scalar or per direction, non-square blocks), coordinates "
    "1e-2..1e6 with offsets up to 1e3 extents, C / Fortran / strided / float32 / int64 matrices, BlockKFold (n_splits 2..occupied, "
    "shuffle, balance, int / RandomState / None random_state) and BlockShuffleSplit (test/train sizes as fractions and "
    "counts, balancing 1..20); SPARSE part: 100-1000 clustered points on fine meshes of 60x60 .. 200x200 blocks (shape or spacing), "
    "so that the occupied block ids span more than 10 x (points + selected blocks) with several blocks holding 2+ points, float64 / "
    "float32 / int64 / int32 coordinates, C / Fortran / strided matrices, BlockShuffleSplit test_size 0.05..0.5 / counts / train_size "
    "(a handful to > 100 test blocks), balancing 1..10, BlockKFold n_splits 2..10 shuffle on/off; LARGE part: 100 001 .. 260 000 samples (130 000, 230 000, random; never a multiple of 100 000) on 4x4 .. 10x10 meshes through "
    "both cross-validators; DEFAULTS part: cross-validators built with no optional argument against the documented defaults spelled out; EXTREMES part: "
    "1-3 points per block with n_splits = 2 / occupied / occupied-1, balancing 1 and 2, absolute test/train sizes; SPELLINGS part: one configuration written with python / numpy integers, 0-d arrays, tuple / list / ndarray spacings and "
    "shapes, scalar spacing = equal pair, np.True_ / 1 flags, counts as python / numpy ints, fractions as float / np.float64 (np.float32 "
    "fractions are driven too but are a configuration of their own); every seeded configuration is run at least twice (same and fresh "
    "instance, after next(cv.split(X)) on an abandoned generator) with numpy's GLOBAL generator re-seeded differently before every pass; "
    "nested use through cross_val_score (serial and dask-delayed) and train_test_split; points are "
    "kept >= 1e-6 block sizes away from interior block edges. Non-trivial = unequal block populations, or an empty block, "
    "or n_splits = number of occupied blocks; distinct = hash of (class, parameters, X)."
)
ASSUMPTIONS = [
    "blocks are the cells of the pixel-registered grid over the bounding box of the points (region=None, adjust='spacing'); a point "
    "farther than max(1e-7 block sizes, 8 ulp of the coordinates' own dtype) from every interior edge gets label row*n_east+col by floor arithmetic, a nearer point takes the "
    "label of the observed nested block_split event (either neighbour is correct by C08)",
    "'balanced to within one block's population' is decided as |fold points - floor(N/k)| < largest block population + (N mod k), "
    "the bound that follows from cutting the cumulative block populations at multiples of floor(N/k)",
    "'achievable' = the documented split points (cumulative block population crossing multiples of floor(N/k), in the block order "
    "used) are distinct and leave no empty fold; a fallback is accepted only then, and only with the documented UserWarning",
    "BlockShuffleSplit replay: candidates are ShuffleSplit(n_splits*balancing, test_size, train_size, random_state).split(sorted "
    "occupied block ids); per group of `balancing` the candidate minimising |train_pts/test_pts - train_blocks/test_blocks| wins; "
    "candidates within 1e-9 of the minimum are accepted either way",
    "reproducibility is demanded for integer random_state (and for BlockKFold without shuffling); RandomState instances are replayed "
    "from a snapshot taken at call time, random_state=None is only checked for the partition clauses",
    "warnings are observed through warnings.catch_warnings(record=True) opened by the workload",
    "different spellings of one configuration must give identical splits; an np.float32 test/train fraction is NOT identified with the "
    "python float of equal value because scikit-learn's ShuffleSplit itself evaluates ceil(fraction * n) in the precision it is given",
]
FLOORS = {
    "quick": {"eval:split_partition": 21000, "eval:block_integrity": 21000, "eval:kfold_folds": 6000,
              "eval:kfold_balance": 1300, "eval:kfold_equal_blocks": 4500, "eval:kfold_fallback_justified": 1600,
              "eval:kfold_rejects_excess_splits": 250, "eval:shuffle_n_splits": 600, "eval:shuffle_test_block_count": 1800,
              "eval:shuffle_replay": 1700, "eval:reproducible": 1200, "eval:partition_by_sum": 1500,
              "eval:partition_by_sum_refusal": 1900, "eval:labels_match_reference": 6800, "distinct_nontrivial": 5700,
              "class:sparse_ids:pairs": 400, "class:sparse_ids:pairs_many_selected_blocks(sort regime)": 280,
              "class:sparse_ids:pairs_few_selected_blocks(loop regime)": 100, "class:sparse_ids:pairs_over_100_test_blocks": 20,
              "class:sparse_ids:BlockKFold": 45, "class:sparse_ids:BlockShuffleSplit": 45, "class:integer_coordinates": 150,
              "class:float32_coordinates": 130, "class:fortran_ordered_X": 180,
              "eval:spelling_equivalence": 250, "spelling:BlockKFold_variants": 150, "spelling:BlockShuffleSplit_variants": 180,
              "reproducible:kfold_shuffled_balanced": 190, "reproducible:kfold_shuffled_fallback": 200,
              "reproducible:kfold_shuffled_unbalanced": 500, "reproducible:shuffle_split_seeded": 170, "partially_consumed_generators": 330,
              "class:over_100000_samples:BlockKFold": 3, "class:over_100000_samples:BlockShuffleSplit": 1,
              "class:over_100000_samples:pairs": 10, "class:over_100000_samples:labels_one_per_sample_checked": 4,
              "eval:defaults_documented": 4, "eval:defaults_same_splits": 8, "eval:constructor_fidelity": 450, "eval:get_n_splits_matches": 7000,
              "class:extremes:layouts_1_to_3_points_per_block": 9, "class:extremes:kfold_n_splits=2": 38, "class:extremes:kfold_n_splits=occupied": 35,
              "class:extremes:kfold_fewer_points_per_fold_than_folds": 70, "class:extremes:shuffle_balancing=1": 55,
              "class:extremes:shuffle_balancing=2": 55, "class:extremes:shuffle_integer_sizes": 110},
    "thorough": {"eval:split_partition": 720000, "eval:block_integrity": 720000, "eval:kfold_folds": 187000,
                 "eval:kfold_balance": 38000, "eval:kfold_equal_blocks": 149000, "eval:kfold_fallback_justified": 55000,
                 "eval:kfold_rejects_excess_splits": 5500, "eval:shuffle_n_splits": 10000, "eval:shuffle_test_block_count": 28000,
                 "eval:shuffle_replay": 27000, "eval:reproducible": 59000, "eval:partition_by_sum": 40000,
                 "eval:partition_by_sum_refusal": 59000, "eval:labels_match_reference": 200000, "distinct_nontrivial": 180000,
                 "class:sparse_ids:pairs": 6400, "class:sparse_ids:pairs_many_selected_blocks(sort regime)": 4500,
                 "class:sparse_ids:pairs_few_selected_blocks(loop regime)": 1600, "class:sparse_ids:pairs_over_100_test_blocks": 500,
                 "class:sparse_ids:BlockKFold": 750, "class:sparse_ids:BlockShuffleSplit": 750, "class:integer_coordinates": 2000,
                 "class:float32_coordinates": 2000, "class:fortran_ordered_X": 2000,
                 "eval:spelling_equivalence": 4000, "spelling:BlockKFold_variants": 2600, "spelling:BlockShuffleSplit_variants": 3500,
                 "reproducible:kfold_shuffled_balanced": 11000, "reproducible:kfold_shuffled_fallback": 16000,
                 "reproducible:kfold_shuffled_unbalanced": 27000, "reproducible:shuffle_split_seeded": 2500,
                 "partially_consumed_generators": 16000,
                 "class:over_100000_samples:BlockKFold": 28, "class:over_100000_samples:BlockShuffleSplit": 10,
                 "class:over_100000_samples:pairs": 150, "class:over_100000_samples:labels_one_per_sample_checked": 40,
                 "eval:defaults_documented": 55, "eval:defaults_same_splits": 80, "eval:constructor_fidelity": 6000, "eval:get_n_splits_matches": 200000,
                 "class:extremes:layouts_1_to_3_points_per_block": 120, "class:extremes:kfold_n_splits=2": 500,
                 "class:extremes:kfold_n_splits=occupied": 450, "class:extremes:kfold_fewer_points_per_fold_than_folds": 900,
                 "class:extremes:shuffle_balancing=1": 750, "class:extremes:shuffle_balancing=2": 750, "class:extremes:shuffle_integer_sizes": 1500},
}
JOBS = {"quick": 1, "thorough": 8}
CASE_TIMEOUT_S = 300

OCCUPANCIES = (0, 1, 2, 3, 50)
EDGE_MARGIN = 1e-7  # block sizes; the workload keeps points >= 1e-6 away
FALLBACK_TEXT = "Could not balance folds"
LATTICE_CHUNKS = {"quick": 8, "thorough": 128}
SAMPLE_OCCUPANCIES = (0, 0, 1, 1, 2, 3, 7, 50, 200)


def plan(tier):
    if tier == "quick":
        return collections.OrderedDict(lattice=LATTICE_CHUNKS["quick"], lattice_sample=6, random2d=36, sparse_fine=10, spellings=5, large=2, defaults=2, extremes=6, nested=4, partition=2)
    return collections.OrderedDict(lattice=LATTICE_CHUNKS["thorough"], lattice_sample=64, random2d=480, sparse_fine=160, spellings=80, large=24, defaults=24, extremes=80, nested=48, partition=24)


class _State:
    """Shared between the workload and the monitors of one process."""

    warnlog = None  # the live list of warnings.catch_warnings(record=True) of the running case
    history = collections.OrderedDict()  # (class, params, X digest) -> yielded test sets
    canon_history = collections.OrderedDict()  # (class, canonical params, X digest) -> (spelling, yielded test sets)
    judged = set()  # seq ids of split events already judged


ST = _State()


# ----------------------------------------------------------------------
# reference models (no verde)
# ----------------------------------------------------------------------
def _axis_cells(values, n_cells, resolution):
    """
    Cell index by floor arithmetic on [min, max] cut into n_cells, and which points are clear of interior edges
    (farther than EDGE_MARGIN cells, and farther than the round-off of the coordinates' own dtype).
    """
    lo, hi = float(values.min()), float(values.max())
    if n_cells <= 1:
        return np.zeros(values.size, dtype=np.int64), np.ones(values.size, dtype=bool)
    if hi == lo:  # several cells of zero width: the cell of a point is not defined
        return np.zeros(values.size, dtype=np.int64), np.zeros(values.size, dtype=bool)
    t = (values - lo) / (hi - lo) * n_cells
    idx = np.clip(np.floor(t), 0, n_cells - 1).astype(np.int64)
    nearest = np.rint(t)
    interior = (nearest >= 1) & (nearest <= n_cells - 1)
    margin = max(EDGE_MARGIN, 8 * resolution * max(abs(lo), abs(hi)) * n_cells / (hi - lo))
    sure = ~interior | (np.abs(t - nearest) >= margin)
    return idx, sure


def reference_labels(xmat, spacing, shape):
    """Independent block labels (row * n_east + col) of the rows of a two-column matrix."""
    resolution = float(np.finfo(xmat.dtype).eps) if np.asarray(xmat).dtype.kind == "f" else ref.EPS
    east = np.asarray(xmat[:, 0], dtype="float64")
    north = np.asarray(xmat[:, 1], dtype="float64")
    west, east_max, south, north_max = east.min(), east.max(), north.min(), north.max()
    if shape is not None:
        n_north, n_east, tie = int(shape[0]), int(shape[1]), False
    else:
        sp = np.atleast_1d(spacing)
        sp_north, sp_east = (sp[0], sp[0]) if sp.size == 1 else (sp[0], sp[1])
        n_east, tie_e = ref.n_intervals_for(west, east_max, None, sp_east)
        n_north, tie_n = ref.n_intervals_for(south, north_max, None, sp_north)
        tie = bool(tie_e or tie_n)
    col, sure_c = _axis_cells(east, n_east, resolution)
    row, sure_r = _axis_cells(north, n_north, resolution)
    return {"labels": row * n_east + col, "sure": sure_c & sure_r, "n_east": n_east, "n_north": n_north, "tie": tie}


_LABEL_CACHE = collections.OrderedDict()


def cached_reference_labels(xmat, xdigest, spacing, shape):
    """reference_labels memoised on the *content* of X and the geometry (the lattice presents one X to many configurations)."""
    key = (xdigest, repr(spacing), repr(shape))
    hit = _LABEL_CACHE.get(key)
    if hit is None:
        hit = reference_labels(xmat, spacing, shape)
        _LABEL_CACHE[key] = hit
        while len(_LABEL_CACHE) > 8:
            _LABEL_CACHE.popitem(last=False)
    return hit


def reference_partition(sizes, parts):
    """
    The documented split points: where the cumulative sum crosses m * (total // parts), m = 1..parts-1.
    None when they do not exist (more parts than elements, repeated points, or an empty first part).
    """
    sizes = [int(v) for v in sizes]
    if parts > len(sizes) or parts < 1:
        return None
    cumulative = list(itertools.accumulate(sizes))
    ideal = cumulative[-1] // parts
    points = [bisect.bisect_right(cumulative, m * ideal) for m in range(1, parts)]
    if points and points[0] == 0:
        return None
    if any(b <= a for a, b in zip(points, points[1:])):
        return None
    if points and points[-1] >= len(sizes):
        return None
    return points


_PRESCRIBED = {}


def prescribed_counts(n_blocks, test_size, train_size):
    """(n_train, n_test) that scikit-learn's ShuffleSplit takes from n_blocks items, or None when it refuses."""
    from sklearn.model_selection import ShuffleSplit

    key = (int(n_blocks), repr(test_size), repr(train_size))
    if key not in _PRESCRIBED:
        try:
            train, test = next(ShuffleSplit(n_splits=1, test_size=test_size, train_size=train_size, random_state=0)
                               .split(np.arange(n_blocks)))
            _PRESCRIBED[key] = (int(train.size), int(test.size))
        except ValueError:
            _PRESCRIBED[key] = None
    return _PRESCRIBED[key]


def _is_int(value):
    return isinstance(value, (int, np.integer)) and not isinstance(value, (bool, np.bool_))


def _params(cv):
    return {k: v for k, v in sorted(vars(cv).items())}


def _canon_text(cv):
    """The parameters with their spelling removed (python / numpy scalars, 0-d arrays, tuple / list / ndarray, scalar = pair)."""
    out = []
    for key, val in _params(cv).items():
        if val is None:
            pass
        elif isinstance(val, np.random.RandomState):
            val = "RandomState@%x" % id(val)
        elif key == "spacing":
            arr = np.atleast_1d(np.asarray(val, dtype="float64")).ravel()
            val = tuple(float(v) for v in (arr if arr.size > 1 else [arr[0], arr[0]]))
        elif key == "shape":
            val = tuple(int(v) for v in np.asarray(val).ravel())
        elif key in ("shuffle", "balance"):
            val = bool(val)
        elif key in ("test_size", "train_size"):
            # scikit-learn evaluates ceil(test_size * n) in the precision of the value it is given, so an np.float32 fraction is
            # NOT the same configuration as the python float of equal value (ShuffleSplit itself differs: 1/3 of 12 blocks)
            if np.asarray(val).dtype.kind in "iu":
                val = ("count", int(val))
            else:
                val = ("fraction32" if isinstance(val, np.float32) else "fraction", float(val))
        elif key in ("n_splits", "balancing", "random_state"):
            val = int(val)
        out.append("%s=%r" % (key, val))
    return ", ".join(out)


def _params_text(cv):
    out = []
    for key, val in _params(cv).items():
        if isinstance(val, np.random.RandomState):
            val = "RandomState"
        elif isinstance(val, np.ndarray):
            val = val.tolist()
        out.append("%s=%r" % (key, val))
    return ", ".join(out)


# ----------------------------------------------------------------------
# monitors
# ----------------------------------------------------------------------
def install(tap, run):
    import verde.base.base_classes as bc
    import verde.coordinates as vc
    import verde.model_selection as ms
    import verde.utils as vu
    from sklearn.model_selection import ShuffleSplit

    ST.warnlog = None
    ST.history = collections.OrderedDict()
    ST.canon_history = collections.OrderedDict()
    ST.judged = set()

    def witness(cv, xmat, labels=None, **extra):
        out = {"class": type(cv).__name__, "parameters": _params_text(cv), "X": np.asarray(xmat)}
        if labels is not None:
            out["block_labels"] = labels
            out["block_populations"] = np.bincount(labels)
        out.update(extra)
        return out

    # -- partition_by_sum ------------------------------------------------
    def post_pbs(ev):
        a = ev.args
        try:
            arr = np.atleast_1d(np.asarray(a["array"])).ravel()
            parts = int(a["parts"])
        except (TypeError, ValueError, KeyError):
            return
        if arr.size == 0 or arr.dtype.kind not in "iu" or (arr < 1).any() or parts < 1:
            # block populations of occupied blocks are positive integers; C11 says nothing about other arrays
            run.count("skipped:partition_by_sum_array_not_positive_integers")
            return
        expect = reference_partition(arr, parts)
        wit = {"array": arr, "parts": parts, "documented_split_points": expect}
        if ev.exc is not None:
            if not isinstance(ev.exc, ValueError):
                return
            run.evaluated("partition_by_sum_refusal")
            if expect is not None:
                run.violation("partition_by_sum_refusal",
                              "partition_by_sum refused although the documented split points %r exist (no repeated point, no empty part)" % (expect,),
                              wit, key="pbs:unjustified-refusal")
            return
        run.evaluated("partition_by_sum")
        res = np.asarray(ev.result)
        wit["result"] = res
        problem = None
        if res.ndim != 1 or res.size != parts - 1 or res.dtype.kind not in "iu":
            problem = "expected %d integer split points, got %r" % (parts - 1, res)
        elif res.size and (res[0] < 1 or res[-1] > arr.size - 1):
            problem = "split points %s leave an empty part (must lie in 1..%d)" % (res.tolist(), arr.size - 1)
        elif res.size > 1 and (np.diff(res) <= 0).any():
            problem = "split points %s are not strictly increasing (empty part)" % (res.tolist(),)
        else:
            total = int(arr.sum())
            sums = np.array([int(p.sum()) for p in np.split(arr, res)])
            bound = int(arr.max()) + total % parts
            worst = int(np.max(np.abs(sums - total // parts)))
            if bound > 0:
                run.observe_max("partition_part_deviation_over_bound", worst / bound)
            if not worst < bound:
                problem = ("part sums %s differ from total//parts=%d by %d, not less than the largest element + total%%parts = %d"
                           % (sums.tolist(), total // parts, worst, bound))
        if problem:
            run.violation("partition_by_sum", problem, wit, key="pbs:" + problem.split(" ")[0])

    # -- split -----------------------------------------------------------
    def pre_split(ev):
        snap = {"mark": len(ST.warnlog) if ST.warnlog is not None else None}
        rs = getattr(ev.args.get("self"), "random_state", None)
        if isinstance(rs, np.random.RandomState):
            snap["rng"] = copy.deepcopy(rs)
        return snap

    def fallback_warned(ev):
        mark = (ev.pre or {}).get("mark")
        if ST.warnlog is None or mark is None:
            return None
        for msg in ST.warnlog[mark:]:
            if issubclass(msg.category, UserWarning) and FALLBACK_TEXT in str(msg.message):
                return True
        return False

    def judge(ev, complete):
        if ev.seq in ST.judged:
            return
        ST.judged.add(ev.seq)
        cv, xin = ev.args.get("self"), ev.args.get("X")
        kind = type(cv).__name__
        try:
            xmat = np.asarray(xin)
            usable_input = xmat.ndim == 2 and xmat.shape[1] == 2 and xmat.shape[0] >= 1 and xmat.dtype.kind in "fiu" \
                and bool(np.isfinite(xmat.astype("float64")).all())
        except (TypeError, ValueError):
            usable_input = False
        if not usable_input:
            run.count("skipped:X_not_a_finite_two_column_matrix")
            return
        pairs = list(ev.yielded or [])
        n = xmat.shape[0]
        via = ev.parent.name if ev.parent is not None else "direct"
        run.count("class:%s" % kind)
        run.count("via:%s" % via)

        # labels: observed (nested block_split event) and recomputed
        xdigest, ptext = digest(xmat), _params_text(cv)
        refl = cached_reference_labels(xmat, xdigest, cv.spacing, cv.shape)
        observed = None
        nested = [b for b in ev.descendants("block_split") if b.exc is None and b.result is not None]
        if nested:
            observed = np.asarray(nested[0].result[1]).ravel()
            if observed.shape != (n,) or observed.dtype.kind not in "iu":
                run.violation("labels_match_reference", "nested block_split returned labels of shape %s for %d points" % (observed.shape, n),
                              witness(cv, xmat), key="labels:shape")
                observed = None
        elif pairs:
            run.count("no_nested_block_split_event")
        sure = refl["sure"] & (not refl["tie"])
        if refl["tie"]:
            run.count("either_way:spacing_tie_number_of_blocks")
        n_unsure = int((~sure).sum())
        if n_unsure:
            run.count("either_way:points_within_margin_of_block_edge", n_unsure)
        labels = refl["labels"].copy()
        if observed is not None:
            if not refl["tie"] and sure.any():
                run.evaluated("labels_match_reference")
                bad = np.flatnonzero(sure & (observed != labels))
                if bad.size:
                    k = int(bad[0])
                    run.violation("labels_match_reference",
                                  "the cross-validator's block labels differ from the blocks containing the points: point %d at %r is in "
                                  "block %d of the %dx%d layout, labelled %d (%d points differ)"
                                  % (k, xmat[k].tolist(), int(labels[k]), refl["n_north"], refl["n_east"], int(observed[k]), bad.size),
                                  witness(cv, xmat, labels, observed_labels=observed), key="labels:mismatch")
            labels = np.where(sure, labels, observed)
            usable = np.ones(n, dtype=bool)
        else:
            usable = sure
        all_usable = bool(usable.all())
        populations = np.bincount(labels[usable])
        occupied = np.flatnonzero(populations)
        n_occupied = int(occupied.size)
        pops_occ = populations[occupied]
        check_observed = observed is not None and not np.array_equal(observed, labels)
        side = np.zeros(populations.size + 1, dtype=np.int8)
        n_cells = refl["n_east"] * refl["n_north"]

        # rejection clause
        if kind == "BlockKFold" and all_usable and _is_int(cv.n_splits) and cv.n_splits > n_occupied:
            run.evaluated("kfold_rejects_excess_splits")
            if not isinstance(ev.exc, ValueError):
                run.violation("kfold_rejects_excess_splits",
                              "n_splits=%d exceeds the %d occupied blocks but split did not raise ValueError (%d splits yielded, exc=%r)"
                              % (cv.n_splits, n_occupied, len(pairs), ev.exc), witness(cv, xmat, labels), key="kfold:no-rejection")
        if ev.exc is not None:
            run.count("raised:%s:%s" % (kind, type(ev.exc).__name__))

        # every yielded pair
        good_pairs = True
        for g, pair in enumerate(pairs):
            run.evaluated("split_partition")
            problem = None
            try:
                train, test = np.asarray(pair[0]), np.asarray(pair[1])
            except (TypeError, IndexError):
                train = test = None
                problem = "yielded item %d is not a (train, test) pair" % g
            if problem is None:
                both = np.concatenate([train.ravel(), test.ravel()])
                if train.ndim != 1 or test.ndim != 1 or train.dtype.kind not in "iu" or test.dtype.kind not in "iu":
                    problem = "split %d: train/test are not 1-D integer index arrays" % g
                elif both.size and (both.min() < 0 or both.max() >= n):
                    problem = "split %d: indices outside 0..%d" % (g, n - 1)
                else:
                    counts = np.bincount(both, minlength=n)
                    if (counts > 1).any():
                        k = int(np.flatnonzero(counts > 1)[0])
                        problem = "split %d: sample %d appears %d times in train+test (train and test must be disjoint)" % (g, k, counts[k])
                    elif (counts == 0).any():
                        problem = "split %d: %d samples are in neither train nor test" % (g, int((counts == 0).sum()))
            if problem:
                good_pairs = False
                run.violation("split_partition", problem, witness(cv, xmat, labels, split_index=g, train=pair[0], test=pair[1]),
                              key="partition:" + problem.split(": ")[-1].split(" ")[0])
                continue
            run.evaluated("block_integrity")
            if all_usable:
                lab_train, lab_test = labels[train], labels[test]
            else:
                lab_train, lab_test = labels[train[usable[train]]], labels[test[usable[test]]]
            side[:] = 0
            side[lab_train] = 1
            shared = np.unique(lab_test[side[lab_test] == 1]) if side[lab_test].any() else lab_test[:0]
            if shared.size:
                blk = int(shared[0])
                run.violation("block_integrity",
                              "split %d: block %d contributes %d points to train and %d to test (%d blocks are split)"
                              % (g, blk, int((labels[train] == blk).sum()), int((labels[test] == blk).sum()), shared.size),
                              witness(cv, xmat, labels, split_index=g, train=train, test=test), key="integrity")
            if check_observed:
                shared_obs = np.intersect1d(observed[train], observed[test])
                if shared_obs.size and not shared.size:
                    run.violation("block_integrity", "split %d: label %d of the nested block_split is on both sides" % (g, int(shared_obs[0])),
                                  witness(cv, xmat, labels, observed_labels=observed, split_index=g, train=train, test=test),
                                  key="integrity:observed")

        # input class "sparse ids": the occupied ids span far more than the number of points + selected blocks
        # (numpy's set-membership / unique routines switch algorithm on exactly these ratios)
        if good_pairs and all_usable and n_occupied:
            id_range = int(occupied[-1] - occupied[0])
            multi = int((pops_occ >= 2).sum())
            for pair in pairs:
                n_sel = int(np.count_nonzero(np.bincount(labels[np.asarray(pair[1])]))) if np.asarray(pair[1]).size else 0
                if id_range > 10 * (n + n_sel) and multi >= 2:
                    run.count("class:sparse_ids:pairs")
                    if n_sel >= 10 * n ** 0.145:
                        run.count("class:sparse_ids:pairs_many_selected_blocks(sort regime)")
                    else:
                        run.count("class:sparse_ids:pairs_few_selected_blocks(loop regime)")
                    if n_sel > 100:
                        run.count("class:sparse_ids:pairs_over_100_test_blocks")
            if id_range > 10 * (n + n_occupied) and multi >= 2:
                run.count("class:sparse_ids:%s" % kind)
        if n > 100000:  # branches that exist only above a size threshold (chunked processing)
            run.count("class:over_100000_samples:%s" % kind)
            run.count("class:over_100000_samples:pairs", len(pairs))
            if observed is not None:
                run.count("class:over_100000_samples:labels_one_per_sample_checked")
        if xmat.dtype.kind in "iu":
            run.count("class:integer_coordinates")
        elif xmat.dtype == np.float32:
            run.count("class:float32_coordinates")
        if xmat.flags.f_contiguous and not xmat.flags.c_contiguous:
            run.count("class:fortran_ordered_X")
        nontrivial = (pops_occ.size > 0 and pops_occ.min() != pops_occ.max()) or n_cells > n_occupied \
            or (kind == "BlockKFold" and cv.n_splits == n_occupied)
        if pairs and nontrivial:
            run.mark_nontrivial(kind, ptext, xdigest)
        if pops_occ.size and pops_occ.min() != pops_occ.max():
            run.count("input:unequal_block_populations")
        if n_cells > n_occupied:
            run.count("input:has_empty_block")
        if pops_occ.size and pops_occ.max() >= 10 * max(1, pops_occ.min()):
            run.count("input:very_uneven_populations(max>=10*min)")
        if not good_pairs or not all_usable:
            if not all_usable:
                run.count("skipped:fold_checks_without_labels_for_edge_points")
            return
        tests = [np.asarray(p[1]) for p in pairs]
        warned = None
        if kind == "BlockKFold":
            warned = fallback_warned(ev)
            if warned:
                run.count("fallback_warnings")
            if complete:
                judge_n_splits(ev, cv, xmat, labels, tests)
                judge_kfold(ev, cv, xmat, labels, occupied, populations, tests, warned)
        elif kind == "BlockShuffleSplit":
            if complete:
                judge_n_splits(ev, cv, xmat, labels, tests)
            judge_shuffle(ev, cv, xmat, labels, occupied, populations, tests, complete)
        else:
            run.count("class:other_subclass")

        # reproducibility (the workload re-seeds numpy's GLOBAL generator differently before every pass)
        rs = getattr(cv, "random_state", None)
        deterministic = _is_int(rs) or (kind == "BlockKFold" and not cv.shuffle)
        if complete and deterministic:
            key = (kind, ptext, xdigest)
            mine = tuple((t.dtype.str, t.tobytes()) for t in tests)
            prev = ST.history.get(key)
            if prev is None:
                ST.history[key] = mine
                while len(ST.history) > 256:
                    ST.history.popitem(last=False)
            else:
                run.evaluated("reproducible")
                if _is_int(rs) and (kind != "BlockKFold" or cv.shuffle):
                    run.count("reproducible:seeded_random_runs_compared")
                    if kind == "BlockKFold":
                        branch = ("fallback" if warned else "balanced") if cv.balance else "unbalanced"
                        run.count("reproducible:kfold_shuffled_%s" % branch)
                    else:
                        run.count("reproducible:shuffle_split_seeded")
                if prev != mine:
                    run.violation("reproducible", "the same %s (random_state=%r) on the same X yielded different splits on a second run "
                                  "(numpy's global generator was re-seeded differently in between)" % (kind, rs),
                                  witness(cv, xmat, labels, second_run_tests=tests), key="reproducible")
            # the same configuration spelled differently (python / numpy scalars, 0-d arrays, lists, ndarrays, scalar = pair)
            try:
                ckey = (kind, _canon_text(cv), xdigest)
            except (TypeError, ValueError):
                ckey = None
            if ckey is not None:
                first = ST.canon_history.get(ckey)
                if first is None:
                    ST.canon_history[ckey] = (ptext, mine)
                    while len(ST.canon_history) > 256:
                        ST.canon_history.popitem(last=False)
                elif first[0] != ptext:
                    run.evaluated("spelling_equivalence")
                    if first[1] != mine:
                        run.violation("spelling_equivalence",
                                      "the same configuration spelled differently yields different splits: [%s] versus [%s]" % (first[0], ptext),
                                      witness(cv, xmat, labels, tests=tests, other_spelling=first[0]), key="spelling")

    def judge_n_splits(ev, cv, xmat, labels, tests):
        if ev.exc is not None:
            return
        run.evaluated("get_n_splits_matches")
        try:
            said = [cv.get_n_splits(xmat), cv.get_n_splits()]
        except Exception as exc:  # noqa: BLE001
            said = [repr(exc)]
        if any(v != len(tests) for v in said):
            run.violation("get_n_splits_matches", "get_n_splits() says %r but split yielded %d splits" % (said, len(tests)),
                          witness(cv, xmat, labels), key="get_n_splits")

    def judge_kfold(ev, cv, xmat, labels, occupied, populations, tests, warned):
        n, k = xmat.shape[0], int(cv.n_splits)
        n_occupied = int(occupied.size)
        if ev.exc is not None or k > n_occupied:
            return
        run.evaluated("kfold_folds")
        sizes = [int(t.size) for t in tests]
        problem = None
        if len(tests) != k:
            problem = "%d splits yielded, n_splits=%d" % (len(tests), k)
        elif min(sizes) == 0:
            problem = "test fold %d is empty (fold sizes %s)" % (sizes.index(0), sizes)
        else:
            counts = np.bincount(np.concatenate(tests), minlength=n)
            if (counts > 1).any():
                problem = "test folds overlap: sample %d is tested %d times" % (int(np.argmax(counts)), int(counts.max()))
            elif (counts == 0).any():
                problem = "%d samples are in no test fold" % int((counts == 0).sum())
        if problem:
            run.violation("kfold_folds", problem, witness(cv, xmat, labels, fold_sizes=sizes), key="kfold:" + problem.split(" ")[0] + problem.split(" ")[1])
            return
        if n_occupied == k:
            run.count("input:n_splits_equals_occupied_blocks")
        fold_blocks = [int(np.count_nonzero(np.bincount(labels[t]))) for t in tests]
        pbs = ev.descendants("partition_by_sum")
        pbs_refused = any(isinstance(p.exc, ValueError) for p in pbs)
        balance = bool(cv.balance)
        if balance and warned is None:
            run.count("skipped:balance_without_warning_capture")
            return
        if balance and not warned:
            run.count("class:kfold_balanced")
            if pbs_refused:
                run.evaluated("kfold_fallback_warning")
                run.violation("kfold_fallback_warning", "partition_by_sum refused (fallback to equal block counts) but no '%s' UserWarning was emitted" % FALLBACK_TEXT,
                              witness(cv, xmat, labels, fold_sizes=sizes), key="kfold:silent-fallback")
                return
            run.evaluated("kfold_balance")
            ideal, rem, biggest = n // k, n % k, int(populations.max())
            worst = max(abs(s - ideal) for s in sizes)
            run.observe_max("kfold_fold_deviation_over_bound", worst / (biggest + rem))
            if not worst < biggest + rem:
                run.violation("kfold_balance",
                              "balance=True, no fallback warning: fold point counts %s differ from floor(N/k)=%d by %d, not less than the largest "
                              "block population %d + (N mod k)=%d" % (sizes, ideal, worst, biggest, rem),
                              witness(cv, xmat, labels, fold_sizes=sizes, fold_block_counts=fold_blocks), key="kfold:balance")
            return
        # equal block counts: balance=False, or the documented fallback
        run.count("class:kfold_fallback" if balance else "class:kfold_unbalanced")
        if warned and not balance:
            run.count("fallback_warning_with_balance_off")
        run.evaluated("kfold_equal_blocks")
        if max(fold_blocks) - min(fold_blocks) > 1:
            run.violation("kfold_equal_blocks",
                          "%s: folds hold %s blocks (must differ by at most one)" % ("fallback warning emitted" if balance else "balance=False", fold_blocks),
                          witness(cv, xmat, labels, fold_sizes=sizes, fold_block_counts=fold_blocks), key="kfold:equal-blocks")
        if balance:  # was the fallback justified?
            order = None
            refused = [p for p in pbs if isinstance(p.exc, ValueError)]
            if refused:
                try:
                    cand = [int(v) for v in np.atleast_1d(np.asarray(refused[0].args["array"])).ravel()]
                except (TypeError, ValueError, KeyError):
                    cand = None
                if cand is not None and sorted(cand) == sorted(int(v) for v in populations[occupied]):
                    order = cand
            if order is None and not cv.shuffle:
                order = [int(v) for v in populations[occupied]]
            if order is None:
                run.count("skipped:fallback_block_order_unknown")
                return
            run.evaluated("kfold_fallback_justified")
            points = reference_partition(order, k)
            if points is not None:
                run.violation("kfold_fallback_justified",
                              "fell back to equal block counts although balancing is achievable: block populations %s cut at %s give %d non-empty "
                              "folds within the bound" % (order, points, k),
                              witness(cv, xmat, labels, block_order_populations=order, documented_split_points=points, fold_sizes=sizes),
                              key="kfold:unjustified-fallback")

    def judge_shuffle(ev, cv, xmat, labels, occupied, populations, tests, complete):
        n_occupied = int(occupied.size)
        counts = prescribed_counts(n_occupied, cv.test_size, cv.train_size)
        if ev.exc is not None:
            if isinstance(ev.exc, ValueError) and counts is None:
                run.count("refused:ShuffleSplit_rejects_sizes")
            return
        if complete:
            run.evaluated("shuffle_n_splits")
            if len(tests) != int(cv.n_splits):
                run.violation("shuffle_n_splits", "%d splits yielded, n_splits=%d" % (len(tests), cv.n_splits), witness(cv, xmat, labels),
                              key="shuffle:n_splits")
        if counts is None:
            if tests:
                run.violation("shuffle_test_block_count", "scikit-learn's ShuffleSplit refuses test_size=%r train_size=%r for %d blocks but splits were yielded"
                              % (cv.test_size, cv.train_size, n_occupied), witness(cv, xmat, labels), key="shuffle:not-refused")
            return
        n_train_ref, n_test_ref = counts
        for g, test in enumerate(tests):
            run.evaluated("shuffle_test_block_count")
            got = int(np.count_nonzero(np.bincount(labels[test])))
            if got != n_test_ref:
                run.violation("shuffle_test_block_count",
                              "split %d tests %d blocks; ShuffleSplit(test_size=%r, train_size=%r) prescribes %d of the %d occupied blocks"
                              % (g, got, cv.test_size, cv.train_size, n_test_ref, n_occupied),
                              witness(cv, xmat, labels, split_index=g, test=test), key="shuffle:test-blocks")
        # replay
        rs = cv.random_state
        if _is_int(rs):
            seed = int(rs)
            run.count("replay:int_seed")
        elif isinstance(rs, np.random.RandomState) and (ev.pre or {}).get("rng") is not None:
            seed = copy.deepcopy(ev.pre["rng"])
            run.count("replay:RandomState_snapshot")
        else:
            run.count("skipped:replay_random_state_none")
            return
        balancing = int(cv.balancing)
        cands = list(ShuffleSplit(n_splits=int(cv.n_splits) * balancing, test_size=cv.test_size, train_size=cv.train_size,
                                  random_state=seed).split(occupied))
        for g, test in enumerate(tests):
            group = cands[g * balancing:(g + 1) * balancing]
            if len(group) < balancing:
                break
            run.evaluated("shuffle_replay")
            scores = []
            for tr_b, te_b in group:
                tr_pts, te_pts = int(populations[occupied[tr_b]].sum()), int(populations[occupied[te_b]].sum())
                scores.append(abs(tr_pts / te_pts - tr_b.size / te_b.size))
            best = min(scores)
            accept = [j for j, s in enumerate(scores) if s <= best + 1e-9 * max(1.0, best)]
            masks = [np.flatnonzero(np.isin(labels, occupied[group[j][1]])) for j in accept]
            if len({m.tobytes() for m in masks}) > 1:
                run.count("either_way:replay_tie_between_candidates")
            if any(m.size == test.size and (m == test).all() for m in masks):
                run.count("replay_matches")
            else:
                which = [j for j, (_, te_b) in enumerate(group) if np.array_equal(np.flatnonzero(np.isin(labels, occupied[te_b])), test)]
                run.violation("shuffle_replay",
                              "split %d is not the best point-balanced of its %d candidate shuffles: yielded candidate %s (imbalance %s), best is "
                              "candidate %d (imbalance %.6g)" % (g, balancing, which[:1] or "none of them",
                                                                 ["%.6g" % scores[j] for j in which[:1]], accept[0], best),
                              witness(cv, xmat, labels, split_index=g, test=test, candidate_imbalances=scores,
                                      candidate_test_blocks=[occupied[te_b] for _, te_b in group]), key="shuffle:replay")

    def post_split(ev):
        judge(ev, complete=ev.exc is None)

    def post_tts(ev):
        # train_test_split abandons the generator after one pair: judge what the nested split yielded
        for child in ev.descendants("split"):
            if child.yielded is not None and child.seq not in ST.judged:
                run.count("judged_from_train_test_split")
                judge(child, complete=False)

    tap.function(vc, "block_split", documented={"spacing": None, "adjust": "spacing", "region": None, "shape": None})
    tap.function(vu, "partition_by_sum", post=post_pbs)  # no optional arguments
    tap.method(bc.BaseBlockCrossValidator, "split", pre=pre_split, post=post_split, generator=True, documented={"y": None, "groups": None})
    tap.function(ms, "train_test_split", post=post_tts)
    tap.function(ms, "cross_val_score")  # only so that nested split events know their caller


# ----------------------------------------------------------------------
# workloads
# ----------------------------------------------------------------------
_LATTICE_CACHE = {}


def lattice_vectors(tier):
    """Occupancy vectors with occupied end blocks (>= 2 occupied follows), B = 2..4 (quick) or 2..6."""
    if tier not in _LATTICE_CACHE:
        top = 4 if tier == "quick" else 6
        vecs = []
        for nblocks in range(2, top + 1):
            for vec in itertools.product(OCCUPANCIES, repeat=nblocks):
                if vec[0] and vec[-1]:
                    vecs.append(vec)
        size = 0
        for vec in vecs:
            occ = sum(1 for v in vec if v)
            size += (occ - 1) * 8  # n_splits 2..occ  x  balance on/off  x  shuffle off + 3 seeds
        _LATTICE_CACHE[tier] = (vecs, size)
    return _LATTICE_CACHE[tier]


def _refusal_expected(cv, n_occupied):
    if type(cv).__name__ == "BlockKFold":
        return cv.n_splits > n_occupied
    return prescribed_counts(n_occupied, cv.test_size, cv.train_size) is None


_GLOBAL = [0]


def _perturb_global_state():
    """Put numpy's GLOBAL generator into a different state before every pass (reproducibility must not depend on it)."""
    _GLOBAL[0] += 1
    np.random.seed((_GLOBAL[0] * 2654435761) % (2 ** 32))
    for _ in range(_GLOBAL[0] % 3):
        np.random.random()


def _partial(run, cv, xmat, n_occupied):
    """next(cv.split(X)) and abandon the generator (what train_test_split does); must not influence later passes."""
    _perturb_global_state()
    try:
        gen = cv.split(xmat)
        next(gen)
        gen.close()
        run.count("partially_consumed_generators")
    except ValueError:
        if not _refusal_expected(cv, n_occupied):
            raise


def _drive(run, cv, xmat, n_occupied):
    """Consume one split completely inside the case's warning capture. Documented refusals are counted, the rest escapes."""
    _perturb_global_state()
    try:
        return list(cv.split(xmat))
    except ValueError:
        if _refusal_expected(cv, n_occupied):
            run.count("refused:%s" % type(cv).__name__)
            return None
        raise


def _row_points(rng, vec):
    """Points of a single-row layout with the given block populations; bounding box = the row exactly."""
    nblocks = len(vec)
    size = 10 ** rng.uniform(-2, 6)
    west = float(rng.choice([0.0, 1.0, 30.0, 1e3])) * nblocks * size * float(rng.choice([-1.0, 1.0])) * rng.uniform(0.5, 1.0)
    xs = []
    for i, k in enumerate(vec):
        if not k:
            continue
        u = rng.uniform(0.02, 0.98, k)
        if rng.random() < 0.25:
            u[int(rng.integers(0, k))] = 1e-6 if rng.random() < 0.5 else 1 - 1e-6
        if i == 0:
            u[0] = 0.0
        if i == nblocks - 1:
            u[-1] = 1.0
        xs.append(west + (i + u) * size)
    east = np.concatenate(xs)
    height = 0.3 * size
    north = rng.uniform(0, height, east.size) + float(rng.choice([0.0, -5.0, 1e3])) * size
    if rng.random() < 0.15:
        north[:] = north[0]  # a degenerate (zero-height) row
    perm = rng.permutation(east.size)
    return np.column_stack([east[perm], north[perm]]), size


def _lattice_vector(run, rng, verde, vec, pos, entry):
    """All BlockKFold configurations of the lattice on one occupancy vector, plus the extras."""
    nblocks = len(vec)
    occ = sum(1 for v in vec if v)
    xmat, _ = _row_points(rng, vec)
    if pos % 2:
        q = nblocks + rng.uniform(-0.3, 0.3)
        geometry = {"spacing": float((xmat[:, 0].max() - xmat[:, 0].min()) / q)}
    else:
        geometry = {"shape": (1, nblocks)}
    seeds = [int(s) for s in rng.integers(0, 2 ** 31 - 1, 3)]
    for k in range(2, occ + 1):
        for balance in (True, False):
            for seed in (None,) + tuple(seeds):
                cv = verde.BlockKFold(n_splits=k, shuffle=seed is not None, random_state=seed, balance=balance, **geometry)
                _drive(run, cv, xmat, occ)
                if entry is not None:
                    entry["done"] += 1
    # extras (not part of the lattice count): a repeated seeded run, the rejection clause, one BlockShuffleSplit
    for k in range(2, occ + 1):
        for balance in ((True, False) if run.tier == "thorough" or len(vec) <= 3 else (bool((k + pos) % 2),)):
            cv = verde.BlockKFold(n_splits=k, shuffle=True, random_state=seeds[0], balance=balance, **geometry)
            if (k + pos) % 3 == 0:
                _partial(run, cv, xmat, occ)
            _drive(run, cv, xmat, occ)  # second pass of this configuration (fresh instance), other global state
            if (k + pos) % 4 == 0:
                _drive(run, cv, xmat, occ)  # and once more from the same instance
    _drive(run, verde.BlockKFold(n_splits=occ + 1, balance=bool(pos % 2), **geometry), xmat, occ)
    test_size = [0.5, 1, 0.34, occ - 1, 0.1][pos % 5]
    cv = verde.BlockShuffleSplit(n_splits=2, test_size=test_size, balancing=int(rng.integers(1, 5)), random_state=seeds[1], **geometry)
    _drive(run, cv, xmat, occ)
    del ST.warnlog[:]
    return xmat, geometry, seeds, occ


def _run_lattice(run, index, rng):
    import verde

    tier = run.tier
    vecs, size = lattice_vectors(tier)
    chunks = LATTICE_CHUNKS[tier]
    entry = run.exhaustive.setdefault("occupancy_lattice_kfold_runs", {"size": size, "done": 0})
    done_vecs = run.exhaustive.setdefault("occupancy_vectors", {"size": len(vecs), "done": 0})
    for pos in range(index, len(vecs), chunks):
        vec = vecs[pos]
        xmat, geometry, seeds, occ = _lattice_vector(run, rng, verde, vec, pos, entry)
        done_vecs["done"] += 1
        run.count("lattice:vectors_B=%d" % len(vec))
        if pos == index:
            folds = _drive(run, verde.BlockKFold(n_splits=occ, **geometry), xmat, occ) or []
            run.sample("lattice", {"block_populations": list(vec), "geometry": geometry, "X": xmat, "n_splits": "2..%d" % occ,
                                   "shuffle_seeds": seeds, "BlockKFold(n_splits=occupied)_test_folds": [p[1] for p in folds]})


def _run_lattice_sample(run, index, rng):
    """Random occupancy vectors beyond the enumerated lattice (more blocks, more population levels), same configurations."""
    import verde

    for rep in range(10 if run.tier == "quick" else 12):
        nblocks = int(rng.integers(5, 10))
        while True:
            vec = tuple(int(v) for v in rng.choice(SAMPLE_OCCUPANCIES, nblocks))
            if vec[0] and vec[-1]:
                break
        _lattice_vector(run, rng, verde, vec, rep, None)
        run.count("lattice_sample:vectors")


def _random_layout(rng, tier, force_layout=None, npoints=None, mesh=None, counts=None):
    """A 2-D block layout with a point cloud whose bounding box is the layout's region; returns X, geometry, occupied count, info."""
    n_north, n_east = int(rng.integers(1, 9)), int(rng.integers(1, 9))
    if n_north * n_east == 1 and rng.random() < 0.85:
        n_east = int(rng.integers(2, 9))
    if mesh is not None:
        n_north, n_east = mesh
    scale = 10 ** rng.uniform(-2, 6)
    aspect = 1.0 if rng.random() < 0.4 else float(rng.uniform(0.2, 5.0))
    d_east, d_north = scale, scale * aspect
    west = float(rng.choice([0.0, 1.0, 30.0, 1e3])) * n_east * d_east * float(rng.choice([-1.0, 1.0])) * rng.uniform(0.5, 1.0)
    south = float(rng.choice([0.0, 1.0, 30.0, 1e3])) * n_north * d_north * float(rng.choice([-1.0, 1.0])) * rng.uniform(0.5, 1.0)
    top = 3.3 if tier == "thorough" else 3.0
    npoints = int(10 ** rng.uniform(1.0, top)) if npoints is None else int(npoints)
    cells = n_north * n_east
    kind = str(rng.choice(["uniform", "gaussian", "clustered", "one_heavy", "sparse"]))
    rows, cols = np.divmod(np.arange(cells), n_east)
    if kind == "uniform":
        weight = np.ones(cells)
    elif kind == "gaussian":
        c0, r0 = rng.uniform(0, n_east), rng.uniform(0, n_north)
        sc, sr = rng.uniform(0.3, 1.0) * n_east, rng.uniform(0.3, 1.0) * n_north
        weight = np.exp(-0.5 * (((cols + 0.5 - c0) / sc) ** 2 + ((rows + 0.5 - r0) / sr) ** 2))
    elif kind == "clustered":
        weight = np.full(cells, 0.1 / cells)
        hot = rng.choice(cells, size=min(cells, int(rng.integers(1, 4))), replace=False)
        weight[hot] += 0.9 / hot.size
    elif kind == "one_heavy":
        weight = np.full(cells, 1.0 / cells)
        weight[int(rng.integers(0, cells))] += rng.uniform(1.0, 19.0)
    else:
        weight = (rng.random(cells) > rng.uniform(0.3, 0.7)).astype(float)
        if weight.sum() == 0:
            weight[int(rng.integers(0, cells))] = 1.0
    counts = rng.multinomial(npoints, weight / weight.sum()) if counts is None else np.asarray(counts).copy()
    # the bounding box must be the region: every border line needs an occupied block
    for line in (np.flatnonzero(cols == 0), np.flatnonzero(cols == n_east - 1), np.flatnonzero(rows == 0), np.flatnonzero(rows == n_north - 1)):
        if counts[line].sum() == 0:
            counts[int(rng.choice(line))] = 1
    if counts.sum() < 2:
        counts[int(np.argmax(counts))] += 1
    block = np.repeat(np.arange(cells), counts)
    total = block.size
    u, v = rng.uniform(0.01, 0.99, total), rng.uniform(0.01, 0.99, total)
    layout = force_layout or str(rng.choice(["C", "C", "F", "strided", "float32", "int64"]))
    if layout == "int64":  # integer coordinates: blocks of 1000 x (500|1000|2000) units, points >= 10 units inside
        d_east, aspect = 1000.0, float(rng.choice([0.5, 1.0, 2.0]))
        d_north = d_east * aspect
        west, south = float(rng.integers(-10 ** 6, 10 ** 6)), float(rng.integers(-10 ** 6, 10 ** 6))
    if layout not in ("float32", "int64"):  # float32 cannot represent a point 1e-6 block sizes from an edge at these offsets
        hostile = rng.random(total) < 0.08
        u[hostile] = rng.choice([1e-6, 1 - 1e-6], int(hostile.sum()))
        hostile = rng.random(total) < 0.08
        v[hostile] = rng.choice([1e-6, 1 - 1e-6], int(hostile.sum()))
    prow, pcol = np.divmod(block, n_east)

    def pick(candidates, avoid=None):
        cand = candidates if avoid is None or candidates.size == 1 else candidates[candidates != avoid]
        return int(rng.choice(cand if cand.size else candidates))

    i_w = pick(np.flatnonzero(pcol == 0))
    i_e = pick(np.flatnonzero(pcol == n_east - 1), avoid=i_w)
    i_s = pick(np.flatnonzero(prow == 0))
    i_n = pick(np.flatnonzero(prow == n_north - 1), avoid=i_s)
    u[i_w], u[i_e], v[i_s], v[i_n] = 0.0, 1.0, 0.0, 1.0
    if i_w == i_e:
        u[i_w] = 0.0
    if i_s == i_n:
        v[i_s] = 0.0
    east = west + (pcol + u) * d_east
    north = south + (prow + v) * d_north
    if layout == "int64":
        east, north = np.rint(east), np.rint(north)
    perm = rng.permutation(total)
    xmat = np.column_stack([east[perm], north[perm]])
    ext_e, ext_n = xmat[:, 0].max() - xmat[:, 0].min(), xmat[:, 1].max() - xmat[:, 1].min()
    mode = str(rng.choice(["shape", "spacing_pair", "spacing_scalar"]))
    if ext_e == 0 or ext_n == 0:
        mode = "shape" if (n_east > 1 and ext_e == 0) or (n_north > 1 and ext_n == 0) else mode
    if mode == "spacing_scalar" and not (aspect == 1.0 and ext_e > 0 and ext_n > 0):
        mode = "spacing_pair"
    if mode == "shape":
        geometry = {"shape": (n_north, n_east)}
    elif mode == "spacing_scalar":
        c = 1.0 + rng.uniform(-0.3, 0.3) / max(n_east, n_north)
        geometry = {"spacing": float(d_east / c)}
    else:
        def one(extent, ncell, dsize):
            if extent == 0:
                return float(dsize)
            if ncell == 1 and rng.random() < 0.3:
                return float(extent / rng.uniform(0.05, 0.4))  # block much larger than the extent
            return float(extent / (ncell + rng.uniform(-0.3, 0.3)))
        geometry = {"spacing": (one(ext_n, n_north, d_north), one(ext_e, n_east, d_east))}
    if layout == "F":
        xmat = np.asfortranarray(xmat)
    elif layout == "strided":
        big = np.full((2 * total, 3), -777.0)
        big[::2, :2] = xmat
        xmat = big[::2, :2]
    elif layout == "float32":
        xmat = xmat.astype("float32")
    elif layout == "int64":
        xmat = xmat.astype("int64")
    info = {"layout": "%dx%d" % (n_north, n_east), "cloud": kind, "geometry_mode": mode, "matrix": layout, "points": total,
            "occupied_blocks": int((counts > 0).sum()), "largest_block": int(counts.max())}
    if layout == "float32":
        # float32 rounding can move a point across an edge: the occupied count is what the reference sees
        lab = reference_labels(xmat, geometry.get("spacing"), geometry.get("shape"))
        info["occupied_blocks"] = int(np.unique(lab["labels"]).size)
    return xmat, geometry, info


def _sparse_layout(rng):
    """
    A few hundred clustered points on a fine block mesh (60x60 .. 200x200): the occupied block ids span far more than
    10 x (points + blocks), several blocks hold 2+ points. Bounding box = the mesh region exactly.
    """
    npoints = int(10 ** rng.uniform(2.0, 3.0))
    need = 24 * npoints  # cells, so that id range > 10 x (points + selected blocks) with room to spare
    lo = max(60, int(np.ceil(np.sqrt(need) * 0.7)))
    n_north = int(rng.integers(min(lo, 180), 201))
    n_east = int(min(200, max(60, int(np.ceil(need / n_north)) + int(rng.integers(0, 30)))))
    if rng.random() < 0.5:
        n_north, n_east = n_east, n_north
    dtype = str(rng.choice(["float64", "float64", "float64", "float32", "int64", "int32"]))
    order = str(rng.choice(["C", "F", "F", "strided"]))
    if dtype in ("int64", "int32"):
        d_east, aspect = 100.0, float(rng.choice([0.5, 1.0, 2.0]))
        west, south = float(rng.integers(-10 ** 5, 10 ** 5)), float(rng.integers(-10 ** 5, 10 ** 5))
    else:
        d_east = 10 ** rng.uniform(-2, 5)
        aspect = 1.0 if rng.random() < 0.4 else float(rng.uniform(0.3, 3.0))
        big = [0.0, 1.0] if dtype == "float32" else [0.0, 1.0, 30.0, 1e3]
        west = float(rng.choice(big)) * n_east * d_east * float(rng.choice([-1.0, 1.0])) * rng.uniform(0.5, 1.0)
        south = float(rng.choice(big)) * n_north * d_east * aspect * float(rng.choice([-1.0, 1.0])) * rng.uniform(0.5, 1.0)
    d_north = d_east * aspect
    n_clusters = int(rng.integers(4, 40))
    centres = np.column_stack([rng.uniform(0, n_north, n_clusters), rng.uniform(0, n_east, n_clusters)])
    spread = rng.uniform(0.4, 4.0, n_clusters)
    which = rng.integers(0, n_clusters, npoints)
    prow = np.clip(np.floor(centres[which, 0] + rng.normal(size=npoints) * spread[which]), 0, n_north - 1).astype(int)
    pcol = np.clip(np.floor(centres[which, 1] + rng.normal(size=npoints) * spread[which]), 0, n_east - 1).astype(int)
    twins = rng.integers(0, npoints, max(4, npoints // 10))  # make sure several blocks hold 2+ points
    prow[twins], pcol[twins] = prow[(twins + 1) % npoints], pcol[(twins + 1) % npoints]
    u, v = rng.uniform(0.02, 0.98, npoints), rng.uniform(0.02, 0.98, npoints)
    if dtype == "float64":
        hostile = rng.random(npoints) < 0.05
        u[hostile] = rng.choice([1e-6, 1 - 1e-6], int(hostile.sum()))
        hostile = rng.random(npoints) < 0.05
        v[hostile] = rng.choice([1e-6, 1 - 1e-6], int(hostile.sum()))
    # anchors: the bounding box is the mesh region
    pcol[0], u[0] = 0, 0.0
    pcol[1], u[1] = n_east - 1, 1.0
    prow[2], v[2] = 0, 0.0
    prow[3], v[3] = n_north - 1, 1.0
    east = west + (pcol + u) * d_east
    north = south + (prow + v) * d_north
    if dtype in ("int64", "int32"):
        east, north = np.rint(east), np.rint(north)
    perm = rng.permutation(npoints)
    xmat = np.column_stack([east[perm], north[perm]]).astype(dtype)
    ext_e = float(xmat[:, 0].max()) - float(xmat[:, 0].min())
    ext_n = float(xmat[:, 1].max()) - float(xmat[:, 1].min())
    mode = str(rng.choice(["shape", "spacing_pair", "spacing_scalar"]))
    if mode == "spacing_scalar" and aspect != 1.0:
        mode = "spacing_pair"
    if mode == "shape":
        geometry = {"shape": (n_north, n_east)}
    elif mode == "spacing_scalar":
        geometry = {"spacing": float(d_east / (1.0 + rng.uniform(-0.3, 0.3) / max(n_east, n_north)))}
    else:
        geometry = {"spacing": (float(ext_n / (n_north + rng.uniform(-0.3, 0.3))), float(ext_e / (n_east + rng.uniform(-0.3, 0.3))))}
    if order == "F":
        xmat = np.asfortranarray(xmat)
    elif order == "strided":
        big = np.zeros((2 * npoints, 3), dtype=xmat.dtype)
        big[::2, :2] = xmat
        xmat = big[::2, :2]
    lab = reference_labels(xmat, geometry.get("spacing"), geometry.get("shape"))
    pops = np.bincount(lab["labels"])
    occupied = np.flatnonzero(pops)
    info = {"mesh": "%dx%d" % (n_north, n_east), "points": npoints, "dtype": dtype, "matrix": order, "geometry_mode": mode,
            "occupied_blocks": int(occupied.size), "blocks_with_2+_points": int((pops >= 2).sum()),
            "occupied_id_range": int(occupied[-1] - occupied[0]), "clusters": n_clusters}
    return xmat, geometry, info


def _run_sparse(run, index, rng):
    """Sparse data on fine meshes: the class in which numpy's isin/unique leave the lookup-table regime."""
    import verde

    for rep in range(3):
        xmat, geometry, info = _sparse_layout(rng)
        n_occ = info["occupied_blocks"]
        run.count("input:sparse_fine_layouts")
        run.count("input:sparse_fine:dtype=%s" % info["dtype"])
        run.count("input:sparse_fine:matrix=%s" % info["matrix"])
        run.count("input:sparse_fine:geometry=%s" % info["geometry_mode"])
        cvs = []
        for _ in range(3):
            state, state_kind = _random_state(rng)
            r = rng.random()
            train_size = None
            if r < 0.6:
                test_size = float(rng.choice([0.05, 0.1, 0.2, 0.3, 0.5, rng.uniform(0.05, 0.5)]))
            elif r < 0.75:
                test_size = int(rng.integers(3, max(5, n_occ // 2)))
            elif r < 0.9:
                test_size, train_size = None, float(rng.choice([0.5, 0.7, 0.9, 0.95]))
            else:
                test_size, train_size = float(rng.choice([0.05, 0.2, 0.4])), float(rng.choice([0.3, 0.5]))
            cvs.append((verde.BlockShuffleSplit(n_splits=int(rng.integers(1, 5)), test_size=test_size, train_size=train_size,
                                                random_state=state, balancing=int(rng.integers(1, 11)), **geometry), state_kind))
        for _ in range(3):
            state, state_kind = _random_state(rng)
            cvs.append((verde.BlockKFold(n_splits=int(rng.integers(2, 11)), shuffle=bool(rng.random() < 0.5), random_state=state,
                                         balance=bool(rng.random() < 0.6), **geometry), state_kind))
        pairs = None
        for cv, state_kind in cvs:
            run.count("input:random_state=%s" % state_kind)
            pairs = _drive(run, cv, xmat, n_occ)
            if pairs is not None and state_kind == "int" and rng.random() < 0.5:
                _drive(run, _clone(cv), xmat.copy(order="K"), n_occ)
        del ST.warnlog[:]
        if rep == 0 and pairs:
            run.sample("sparse_fine", {"layout": info, "geometry": geometry, "parameters": _params_text(cv), "X": np.asarray(xmat),
                                       "first_test_set": pairs[0][1], "n_pairs": len(pairs)})


def _run_large(run, index, rng):
    """More than 100 000 samples (never a multiple of 100 000) on a coarse mesh: code that works in chunks must not lose the remainder."""
    import verde

    npoints = int(rng.choice([130000, 230000, int(rng.integers(100001, 260000))]))
    if npoints % 100000 == 0:
        npoints += 12345
    mesh = (int(rng.integers(4, 11)), int(rng.integers(4, 11)))
    xmat, geometry, info = _random_layout(rng, "quick", force_layout=str(rng.choice(["C", "F", "strided", "float32", "int64"])),
                                          npoints=npoints, mesh=mesh)
    n_occ = info["occupied_blocks"]
    run.count("input:large_layouts")
    seed = int(rng.integers(0, 2 ** 31 - 1))
    cvs = [verde.BlockKFold(n_splits=int(rng.integers(2, min(n_occ, 6) + 1)), shuffle=bool(index % 2), random_state=seed, balance=True, **geometry),
           verde.BlockKFold(n_splits=int(rng.integers(2, min(n_occ, 6) + 1)), shuffle=not index % 2, random_state=seed, balance=False, **geometry),
           verde.BlockShuffleSplit(n_splits=2, test_size=float(rng.choice([0.1, 0.25, 0.5])), balancing=int(rng.integers(1, 4)),
                                   random_state=seed, **geometry)]
    pairs = None
    for j, cv in enumerate(cvs):
        pairs = _drive(run, cv, xmat, n_occ)
        if j == index % 3:
            _drive(run, _clone(cv), xmat, n_occ)
        del ST.warnlog[:]
    if pairs:
        run.sample("large", {"layout": info, "geometry": geometry, "parameters": _params_text(cvs[-1]), "n_pairs": len(pairs),
                             "test_sizes": [int(p[1].size) for p in pairs], "train_sizes": [int(p[0].size) for p in pairs]})


DOCUMENTED_DEFAULTS = {
    "BlockKFold": {"shape": None, "n_splits": 5, "shuffle": False, "random_state": None, "balance": True},
    "BlockShuffleSplit": {"shape": None, "n_splits": 10, "test_size": 0.1, "train_size": None, "random_state": None, "balancing": 10},
}


def _build(run, cls, **kwargs):
    """Construct a cross-validator and check that it stores exactly what it was given, and the documented default for the rest."""
    obj = cls(**kwargs)
    run.evaluated("constructor_fidelity")
    expect = dict(DOCUMENTED_DEFAULTS[cls.__name__], spacing=None)
    expect.update(kwargs)
    stored = vars(obj)
    wrong = {k: (stored.get(k, "<missing>"), v) for k, v in expect.items()
             if not (k in stored and (stored[k] is v or (type(stored[k]) is type(v) and not isinstance(v, (np.ndarray, list, tuple)) and stored[k] == v)))}
    if wrong:
        run.violation("constructor_fidelity", "%s(%s) stores %r as (stored, given or documented default)" % (cls.__name__, ", ".join(sorted(kwargs)), wrong),
                      {"given": {k: repr(v) for k, v in kwargs.items()}, "stored": {k: repr(v) for k, v in stored.items()}}, key="fidelity:" + cls.__name__)
    return obj


def _same_splits(a, b):
    return a is not None and b is not None and len(a) == len(b) and all(
        np.array_equal(p[0], q[0]) and np.array_equal(p[1], q[1]) for p, q in zip(a, b))


def _run_defaults(run, index, rng):
    """
    Cross-validators built with NO optional argument must be the ones with the documented defaults spelled out: stored constructor
    parameters (these classes have no get_params) equal to the documented values, identical folds (int seed for the shuffle split).
    """
    import verde

    for rep in range(3):
        mesh = (int(rng.integers(3, 8)), int(rng.integers(3, 8)))  # >= 9 cells so that the default 5 folds / 10 % are possible
        xmat, geometry, info = _random_layout(rng, "quick", force_layout="C", mesh=mesh, npoints=int(rng.integers(150, 600)))
        n_occ = info["occupied_blocks"]
        seed = int(rng.integers(0, 2 ** 31 - 1))
        for name in ("BlockKFold", "BlockShuffleSplit"):
            cls, doc = getattr(verde, name), DOCUMENTED_DEFAULTS[name]
            bare = cls(**geometry)
            run.evaluated("defaults_documented")
            stored = {k: v for k, v in vars(bare).items() if k in doc and not (k == "shape" and "shape" in geometry)}
            wrong = {k: (v, doc[k]) for k, v in stored.items() if not (v is doc[k] or (v is not None and doc[k] is not None and v == doc[k] and type(v) is type(doc[k])))}
            if wrong or set(doc) - set(vars(bare)):
                run.violation("defaults_documented", "%s(%s) stores %r (stored, documented); missing %r"
                              % (name, ", ".join(geometry), wrong, sorted(set(doc) - set(vars(bare)))), {"parameters": _params_text(bare)}, key="defaults:stored")
            explicit = dict(doc)
            explicit.update(geometry)
            if n_occ < 5:
                continue
            if name == "BlockKFold":
                a, b = _drive(run, bare, xmat, n_occ), _drive(run, cls(**explicit), xmat, n_occ)
                # the seed alone: every other argument left to its default
                c, d = _drive(run, _build(run, cls, shuffle=True, random_state=seed, **geometry), xmat, n_occ), \
                    _drive(run, _build(run, cls, **dict(explicit, shuffle=True, random_state=seed)), xmat, n_occ)
            else:
                a, b = _drive(run, _build(run, cls, random_state=seed, **geometry), xmat, n_occ), \
                    _drive(run, _build(run, cls, **dict(explicit, random_state=seed)), xmat, n_occ)
                c, d = _drive(run, cls(random_state=seed, train_size=None, **geometry), xmat, n_occ), \
                    _drive(run, cls(**dict(explicit, random_state=seed)), xmat, n_occ)
            for got, want, what in ((a, b, "all defaults"), (c, d, "seed only")):
                run.evaluated("defaults_same_splits")
                if not _same_splits(got, want):
                    run.violation("defaults_same_splits",
                                  "%s built with its defaults (%s) does not yield the splits of the documented defaults spelled out %r: %s versus %s splits"
                                  % (name, what, doc, None if got is None else len(got), None if want is None else len(want)),
                                  {"X": xmat, "geometry": repr(geometry), "seed": seed,
                                   "default_tests": None if got is None else [p[1] for p in got], "explicit_tests": None if want is None else [p[1] for p in want]},
                                  key="defaults:splits:" + name)
        # train_test_split relies on BlockShuffleSplit's defaults too (only n_splits=1 is forced)
        if n_occ >= 10:
            coords = (np.ascontiguousarray(xmat[:, 0]), np.ascontiguousarray(xmat[:, 1]))
            verde.train_test_split(coords, coords[0] + coords[1], random_state=seed, **geometry)
        del ST.warnlog[:]
    run.sample("defaults", {"documented": {k: repr(v) for k, v in DOCUMENTED_DEFAULTS.items()}, "geometry": repr(geometry), "occupied_blocks": n_occ})


def _run_extremes(run, index, rng):
    """Ends of the parameter domains on sparse data (1-3 points per block): n_splits = 2 and = occupied blocks, balancing 1 and 2, absolute sizes."""
    import verde

    for rep in range(4):
        n_north, n_east = int(rng.integers(1, 8)), int(rng.integers(2, 8))
        cells = n_north * n_east
        counts = np.where(rng.random(cells) < rng.uniform(0.4, 1.0), rng.integers(1, 4, cells), 0)
        xmat, geometry, info = _random_layout(rng, "quick", mesh=(n_north, n_east), counts=counts)
        n_occ = info["occupied_blocks"]
        seed = int(rng.integers(0, 2 ** 31 - 1))
        run.count("class:extremes:layouts_1_to_3_points_per_block")
        for k in sorted({2, n_occ, max(2, n_occ - 1)}):
            if k > n_occ:
                continue
            for balance in (True, False):
                for shuffle in (False, True):
                    run.count("class:extremes:kfold_n_splits=%s" % ("2" if k == 2 else "occupied" if k == n_occ else "occupied-1"))
                    if k > xmat.shape[0] // k:
                        run.count("class:extremes:kfold_fewer_points_per_fold_than_folds")
                    _drive(run, _build(run, verde.BlockKFold, n_splits=k, shuffle=shuffle, random_state=seed, balance=balance, **geometry), xmat, n_occ)
        for k in (3, 5, 10):  # the documented default and its neighbours, every flag combination
            for balance in (True, False):
                for shuffle in (False, True):
                    _build(run, verde.BlockKFold, n_splits=k, shuffle=shuffle, random_state=seed, balance=balance, **geometry)
                    _build(run, verde.BlockShuffleSplit, n_splits=k, balancing=k, test_size=0.1 if balance else 0.5, random_state=seed if shuffle else None, **geometry)
        if n_occ >= 2:
            sizes = [dict(test_size=1), dict(test_size=n_occ - 1), dict(test_size=None, train_size=1), dict(test_size=None, train_size=n_occ - 1),
                     dict(test_size=1, train_size=1), dict(test_size=max(1, n_occ // 2), train_size=max(1, n_occ - n_occ // 2 - 1) or 1)]
            for j, size_kwargs in enumerate(sizes):
                for balancing in (1, 2):
                    run.count("class:extremes:shuffle_balancing=%d" % balancing)
                    run.count("class:extremes:shuffle_integer_sizes")
                    cv = _build(run, verde.BlockShuffleSplit, n_splits=int(rng.integers(2, 6)), balancing=balancing, random_state=seed + j,
                                **size_kwargs, **geometry)
                    _drive(run, cv, xmat, n_occ)
        del ST.warnlog[:]
    run.sample("extremes", {"layout": info, "geometry": repr(geometry), "X": np.asarray(xmat)})


def _run_spellings(run, index, rng):
    """
    One configuration, many spellings: python / numpy integers, 0-d arrays, tuple / list / ndarray, np.float32 fractions,
    np.True_ / 1 flags, scalar spacing = equal pair. Integer block sizes (1000 x 500|1000|2000 units) make integer spacings possible.
    """
    import verde

    for rep in range(4):
        xmat, _, info = _random_layout(rng, "quick", force_layout="int64")
        if rng.random() < 0.5:
            xmat = xmat.astype("float64")
        n_occ = info["occupied_blocks"]
        n_north, n_east = (int(v) for v in info["layout"].split("x"))
        ext_e = int(round(float(xmat[:, 0].max()) - float(xmat[:, 0].min())))
        ext_n = int(round(float(xmat[:, 1].max()) - float(xmat[:, 1].min())))
        d_east, d_north = (ext_e // n_east if ext_e else 1000), (ext_n // n_north if ext_n else 1000)
        geometries = [{"shape": (n_north, n_east)}, {"shape": [n_north, n_east]}, {"shape": np.array([n_north, n_east])},
                      {"shape": (np.int32(n_north), np.int64(n_east))}]
        if ext_e and ext_n:
            geometries += [{"spacing": (d_north, d_east)}, {"spacing": [float(d_north), float(d_east)]}, {"spacing": np.array([d_north, d_east])},
                           {"spacing": (np.int64(d_north), np.float32(d_east))}]
            if d_east == d_north:
                geometries += [{"spacing": d_east}, {"spacing": float(d_east)}, {"spacing": np.int64(d_east)}, {"spacing": np.array(d_east)},
                               {"spacing": np.array(float(d_east))}, {"spacing": np.float32(d_east)}]
        seed = int(rng.integers(0, 2 ** 31 - 1))
        # BlockKFold
        k = int(rng.integers(2, max(n_occ, 2) + 1)) if n_occ >= 2 else 2
        for balance in (True, False):
            flags = [(True, balance), (np.True_, np.bool_(balance)), (1, int(balance))]
            ints = [(k, seed), (np.int64(k), np.int64(seed)), (np.int32(k), np.int32(seed % (2 ** 31 - 1)))]
            for j, geometry in enumerate(geometries):
                (shuffle, bal), (n_splits, state) = flags[j % 3], ints[(j // 2) % 3]
                if int(state) != seed:
                    state = seed
                run.count("spelling:BlockKFold_variants")
                _drive(run, verde.BlockKFold(n_splits=n_splits, shuffle=shuffle, random_state=state, balance=bal, **geometry), xmat, n_occ)
        # BlockShuffleSplit: counts as python / numpy ints, fractions as python float / np.float32 / np.float64 (of the float32 value)
        if n_occ >= 3:
            count = int(rng.integers(1, n_occ))
            frac = float(np.float32(rng.choice([0.1, 0.25, 1 / 3, 0.5, rng.uniform(0.05, 0.9)])))
            sizes = [[dict(test_size=count), dict(test_size=np.int64(count)), dict(test_size=np.int32(count))],
                     [dict(test_size=frac), dict(test_size=np.float32(frac)), dict(test_size=np.float64(frac))],
                     [dict(test_size=None, train_size=count), dict(test_size=None, train_size=np.int64(count))],
                     [dict(test_size=None, train_size=frac), dict(test_size=None, train_size=np.float32(frac))]]
            nsp, bal = int(rng.integers(1, 4)), int(rng.integers(1, 8))
            ints = [(nsp, bal, seed), (np.int64(nsp), np.int32(bal), np.int64(seed))]
            for group in sizes:
                for j, size_kwargs in enumerate(group):
                    for i, geometry in enumerate(geometries[j::3][:3]):
                        n_splits, balancing, state = ints[(i + j) % 2]
                        run.count("spelling:BlockShuffleSplit_variants")
                        cv = verde.BlockShuffleSplit(n_splits=n_splits, balancing=balancing, random_state=state, **size_kwargs, **geometry)
                        if (i + j) % 4 == 0:
                            _partial(run, cv, xmat, n_occ)
                        _drive(run, cv, xmat, n_occ)
        del ST.warnlog[:]
        if rep == 0:
            run.sample("spellings", {"layout": info, "geometries": [repr(g) for g in geometries], "n_splits": k, "seed": seed})


def _random_state(rng):
    r = rng.random()
    seed = int(rng.integers(0, 2 ** 31 - 1))
    if r < 0.7:
        return seed, "int"
    if r < 0.85:
        return np.random.RandomState(seed), "RandomState"
    return None, "None"


def _random_cv(rng, verde, geometry, n_occ):
    if rng.random() < 0.5:
        r = rng.random()
        if n_occ < 2 or r < 0.07:
            k = n_occ + int(rng.integers(1, 3))
        elif r < 0.3:
            k = n_occ
        elif r < 0.5:
            k = 2
        else:
            k = int(rng.integers(2, min(n_occ, 12) + 1))
        state, state_kind = _random_state(rng)
        cv = verde.BlockKFold(n_splits=max(k, 2), shuffle=bool(rng.random() < 0.5), random_state=state, balance=bool(rng.random() < 0.6), **geometry)
    else:
        r = rng.random()
        train_size = None
        if r < 0.55:
            test_size = float(rng.choice([0.1, 0.2, 0.25, 1 / 3, 0.5, 0.75, 0.9, rng.uniform(0.05, 0.95)]))
        elif r < 0.85:
            test_size = int(rng.integers(1, max(n_occ, 2)))
        elif r < 0.93:
            test_size, train_size = None, float(rng.choice([0.5, 0.7, 0.8]))
        else:
            test_size = float(rng.choice([0.2, 0.3]))
            train_size = float(rng.choice([0.4, 0.5])) if rng.random() < 0.5 else int(rng.integers(1, max(n_occ, 2)))
        state, state_kind = _random_state(rng)
        cv = verde.BlockShuffleSplit(n_splits=int(rng.integers(1, 7)), test_size=test_size, train_size=train_size, random_state=state,
                                     balancing=int(rng.choice([1, 2, 5, 10, 20, int(rng.integers(1, 21))])), **geometry)
    return cv, state_kind


def _clone(cv):
    return type(cv)(**{k: copy.deepcopy(v) for k, v in vars(cv).items()})


def _run_random(run, index, rng):
    import verde

    for rep in range(10):
        xmat, geometry, info = _random_layout(rng, run.tier)
        n_occ = info["occupied_blocks"]
        for key in ("cloud", "geometry_mode", "matrix"):
            run.count("input:%s=%s" % (key, info[key]))
        for _ in range(3):
            cv, state_kind = _random_cv(rng, verde, geometry, n_occ)
            run.count("input:random_state=%s" % state_kind)
            pairs = _drive(run, cv, xmat, n_occ)
            if pairs is not None and state_kind == "int" and rng.random() < 0.6:
                if rng.random() < 0.5:
                    _partial(run, cv, xmat, n_occ)
                _drive(run, cv, xmat, n_occ)  # the same object again
                _drive(run, _clone(cv), xmat.copy(), n_occ)  # a fresh object, a fresh copy of X
        del ST.warnlog[:]
        if rep == 0 and pairs:
            run.sample("random2d:" + type(cv).__name__, {"layout": info, "geometry": geometry, "parameters": _params_text(cv), "X": np.asarray(xmat),
                                                         "first_test_set": pairs[0][1], "n_pairs": len(pairs)})


def _run_nested(run, index, rng):
    import dask
    import verde

    for rep in range(6):
        xmat, geometry, info = _random_layout(rng, "quick")
        xmat = np.ascontiguousarray(xmat, dtype="float64")
        if info["matrix"] == "float32":
            lab = reference_labels(xmat, geometry.get("spacing"), geometry.get("shape"))
            info["occupied_blocks"] = int(np.unique(lab["labels"]).size)
        n_occ = info["occupied_blocks"]
        east, north = xmat[:, 0].copy(), xmat[:, 1].copy()
        span = max(np.ptp(east), np.ptp(north)) or 1.0
        data = 3.0 + 2.0 * (east - east.min()) / span - (north - north.min()) / span + 0.01 * rng.normal(size=east.size)
        coords = (east, north)
        if east.size % 2 == 0 and rng.random() < 0.5:
            coords = (east.reshape(2, -1), north.reshape(2, -1))
            data = data.reshape(2, -1)
        if n_occ >= 2:
            k = int(rng.integers(2, min(n_occ, 6) + 1))
            cvs = [verde.BlockKFold(n_splits=k, shuffle=bool(rng.random() < 0.5), random_state=int(rng.integers(0, 1000)),
                                    balance=bool(rng.random() < 0.6), **geometry)]
            if n_occ >= 3:
                cvs.append(verde.BlockShuffleSplit(n_splits=3, test_size=float(rng.choice([0.2, 0.34, 0.5])), random_state=int(rng.integers(0, 1000)),
                                                   balancing=int(rng.integers(1, 8)), **geometry))
            for cv in cvs:
                scores = verde.cross_val_score(verde.Trend(degree=1), coords, data, cv=cv)
                delayed = verde.cross_val_score(verde.Trend(degree=1), coords, data, cv=cv, delayed=True)
                dask.compute(*delayed)
                run.count("nested:cross_val_score")
            kwargs = dict(geometry)
            kwargs["random_state"] = int(rng.integers(0, 1000))
            kwargs["test_size"] = float(rng.choice([0.1, 0.3, 0.5])) if rng.random() < 0.7 else int(rng.integers(1, n_occ))
            if rng.random() < 0.5:
                kwargs["balancing"] = int(rng.integers(1, 15))
            if prescribed_counts(n_occ, kwargs["test_size"], None) is not None:
                train, test = verde.train_test_split(coords, data, **kwargs)
                run.count("nested:train_test_split")
                if rep == 0:
                    run.sample("nested", {"layout": info, "train_test_split_kwargs": kwargs, "cross_val_scores": scores,
                                          "test_points": int(np.asarray(test[1][0]).size), "train_points": int(np.asarray(train[1][0]).size)})
        del ST.warnlog[:]


def _run_partition(run, index, rng):
    import verde.utils as vu

    fixed = [([50, 2, 2, 2], 2), (np.arange(10), 2), (np.arange(10), 3), (np.arange(10), 5), ([5, 6, 4, 6, 8, 1, 2, 6, 3, 3], 2),
             ([5, 6, 4, 6, 8, 1, 2, 6, 3, 3], 5), (np.arange(10), 8), (np.arange(10), 11), ([1, 1, 1, 1], 2), ([1, 1, 1, 1], 4), ([3], 1)]
    out = None
    for rep in range(600):
        if rep < len(fixed):
            arr, parts = fixed[rep]
        else:
            size = int(rng.integers(1, 40))
            style = rng.integers(0, 4)
            if style == 0:
                arr = rng.integers(1, 6, size)
            elif style == 1:
                arr = rng.choice(OCCUPANCIES[1:], size)
            elif style == 2:
                arr = np.floor(10 ** rng.uniform(0, 3, size)).astype(int)
            else:
                arr = rng.integers(0 if rng.random() < 0.2 else 1, 4, size)
            parts = int(rng.integers(1, size + 2))
            if rng.random() < 0.3:
                arr = arr.tolist()
        try:
            out = vu.partition_by_sum(arr, parts)
            run.count("partition:returned")
        except ValueError:
            run.count("partition:refused")
            out = "ValueError"
    run.sample("partition", {"array": arr, "parts": parts, "result": out})


def run_case(run, tap, stream, index, rng):
    ST.history.clear()
    ST.canon_history.clear()
    ST.judged.clear()
    with warnings.catch_warnings(record=True) as log:
        warnings.simplefilter("always")
        ST.warnlog = log
        try:
            if stream == "lattice":
                _run_lattice(run, index, rng)
            elif stream == "lattice_sample":
                _run_lattice_sample(run, index, rng)
            elif stream == "random2d":
                _run_random(run, index, rng)
            elif stream == "sparse_fine":
                _run_sparse(run, index, rng)
            elif stream == "spellings":
                _run_spellings(run, index, rng)
            elif stream == "large":
                _run_large(run, index, rng)
            elif stream == "defaults":
                _run_defaults(run, index, rng)
            elif stream == "extremes":
                _run_extremes(run, index, rng)
            elif stream == "nested":
                _run_nested(run, index, rng)
            elif stream == "partition":
                _run_partition(run, index, rng)
        finally:
            ST.warnlog = None


LEVEL_TEXT = (
    "Every (train, test) pair yielded by BaseBlockCrossValidator.split during the workload - direct, inside cross_val_score (serial and "
    "dask-delayed) and inside train_test_split - is judged against block labels recomputed independently of verde (and against the nested "
    "block_split event): partition of the indices, no block on both sides, BlockKFold fold count / non-empty / disjoint / covering / balance "
    "bound or equal block counts with the documented warning, justified fallbacks, the n_splits rejection, BlockShuffleSplit test-block count "
    "and best-of-candidates replay against scikit-learn's ShuffleSplit, and reproducibility for fixed seeds; partition_by_sum returns are "
    "judged too. The occupancy lattice named in the property ({0,1,2,3,50}^B, B<=6, all n_splits, shuffle off/3 seeds, balance on/off) is "
    "enumerated completely in the thorough tier (B<=4 plus sampled longer vectors in the quick tier); everything else is seeded random exploration. Held means no "
    "refutation among the monitored executions, not a proof."
)
LEVEL_NOTE = (
    "Trusted: numpy, scikit-learn's ShuffleSplit (the statement's own reference for test-block counts and candidate shuffles), float64 floor "
    "arithmetic for points >= 1e-7 block sizes from an edge; warnings observed through warnings.catch_warnings in the workload."
)
TECHNIQUE = (
    "runtime monitors on the generator BaseBlockCrossValidator.split (class level, nested uses included), partition_by_sum and "
    "train_test_split, with independent block-label, partition-point and ShuffleSplit-replay reference models; exhaustive occupancy "
    "lattice + seeded random workload"
)
