"""
C19 reference side: an independent hand parser of Surfer ASCII grid text, the
generator of well-formed files (values, blanks, number formats, whitespace,
layouts) and the enumeration of single faults. Nothing here imports verde or
uses numpy's text readers.
"""
import re

import numpy as np

from .. import ref

SENTINEL = 1.70141e38
FLOAT_RE = re.compile(r"^[+-]?(?:\d+\.?\d*|\.\d+)(?:[eE][+-]?\d+)?$")
INT_RE = re.compile(r"^[+-]?\d+$")

# thresholds of the oracle (DESIGN C19): header and body *clearly agree* when every bound is within
# AGREE (relative) of the body's extreme; they *clearly disagree* when a bound is off by more than
# DISAGREE relative to the magnitude of THAT bound and by more than DISAGREE_ABS in absolute terms
# (the code's documented comparison is numpy.allclose, rtol 1e-5 / atol 1e-8: everything between is either-way).
AGREE = 1e-6
AGREE_ABS = 1e-30
DISAGREE = 1e-3
DISAGREE_ABS = 1e-6


class Parsed:
    """What the text says, decided without the code under test."""

    def __init__(self):
        self.status = None  # ok | wrapped | either | refuse | skip
        self.reason = ""
        self.grid_id = None
        self.shape = None
        self.region = None  # (south, north, west, east) as written
        self.zrange = None
        self.values = None  # float64 (n_north, n_east), row by row in file order
        self.blank = None  # bool mask in the requested dtype
        self.expected = None  # values cast to the requested dtype with NaN at blanks
        self.n_blank = 0
        self.layout = None

    def __repr__(self):
        return "<Parsed %s %s shape=%s>" % (self.status, self.reason, self.shape)


def _refuse(p, reason):
    p.status, p.reason = "refuse", reason
    return p


def parse_surfer(text, dtype="float64"):
    """
    Parse Surfer ASCII text (header: id / n_north n_east / south north / west east / zmin zmax; body: one grid
    row per line, or rows split over several whole lines) and decide what a faithful reader may do with it.
    """
    p = Parsed()
    dtype = np.dtype(dtype)
    if dtype not in (np.dtype("float64"), np.dtype("float32")):
        p.status, p.reason = "skip", "dtype outside the statement"
        return p
    lines = text.splitlines()
    if len(lines) < 5:
        return _refuse(p, "malformed: fewer than five header lines")
    p.grid_id = lines[0].strip()
    counts = lines[1].split()
    if len(counts) != 2 or not all(INT_RE.match(t) for t in counts):
        return _refuse(p, "malformed: shape line")
    n_north, n_east = int(counts[0]), int(counts[1])
    p.shape = (n_north, n_east)
    ranges = []
    lone_range_value = False
    for k in (2, 3, 4):
        toks = lines[k].split()
        if k == 4 and len(toks) == 1 and FLOAT_RE.match(toks[0]):
            # a range line with a single value: malformed, yet it contradicts nothing when every cell equals that
            # value - the statement demands refusal only for a body that *disagrees* with the header (either way)
            toks = [toks[0], toks[0]]
            lone_range_value = True
        if len(toks) != 2 or not all(FLOAT_RE.match(t) for t in toks):
            return _refuse(p, "malformed: header line %d" % (k + 1))
        ranges.append((float(toks[0]), float(toks[1])))
    p.region = ranges[0] + ranges[1]
    p.zrange = ranges[2]
    if not all(np.isfinite(v) for v in p.region + p.zrange):
        p.status, p.reason = "skip", "header number overflows float64"
        return p
    body = [ln.split() for ln in lines[5:]]
    body = [toks for toks in body if toks]
    for toks in body:
        for t in toks:
            if not FLOAT_RE.match(t):
                return _refuse(p, "malformed: non-numeric token in the body")
    if n_north < 1 or n_east < 1:
        return _refuse(p, "shape: non-positive count")
    total = sum(len(toks) for toks in body)
    if len(body) == n_north and all(len(toks) == n_east for toks in body):
        p.layout = "one_row_per_line"
    else:
        # rows split over several whole lines: consecutive lines group into rows of exactly n_east values
        groups, filled = 0, 0
        ok = total == n_north * n_east
        if ok:
            for toks in body:
                filled += len(toks)
                if filled == n_east:
                    groups, filled = groups + 1, 0
                elif filled > n_east:
                    ok = False
                    break
            ok = ok and filled == 0 and groups == n_north
        if not ok:
            return _refuse(p, "shape: body has %d lines / %d values for header shape %s" % (len(body), total, p.shape))
        p.layout = "wrapped"
    flat = [float(t) for toks in body for t in toks]
    values = np.array(flat, dtype="float64").reshape(p.shape)
    p.values = values
    with np.errstate(over="ignore"):
        typed = values.astype(dtype)
    threshold = dtype.type(SENTINEL)
    blank = typed >= threshold
    if dtype != np.dtype("float64") and np.any(blank != (values >= SENTINEL)):
        p.status, p.reason = "skip", "a value is within float32 round-off of the blank sentinel"
        return p
    p.blank = blank
    p.n_blank = int(blank.sum())
    if blank.all():
        p.status, p.reason = "skip", "all cells blank (outside the statement)"
        return p
    expected = typed.copy()
    expected[blank] = np.nan
    p.expected = expected
    good = typed[~blank].astype("float64")
    bmin, bmax = float(good.min()), float(good.max())
    hmin, hmax = p.zrange
    scale = max(abs(bmin), abs(bmax), abs(hmin), abs(hmax))
    if not np.isfinite(scale):
        return _refuse(p, "range: a value overflows the requested dtype")
    off = max(abs(bmin - hmin), abs(bmax - hmax))
    agree = all(abs(b - h) <= AGREE * max(abs(b), abs(h)) + AGREE_ABS for b, h in ((bmin, hmin), (bmax, hmax)))
    if agree and lone_range_value:
        p.status, p.reason = "either", "range line has a single value that equals every cell"
    elif agree:
        p.status = "ok" if p.layout == "one_row_per_line" else "wrapped"
        p.reason = p.layout
    elif any(abs(b - h) > DISAGREE * max(abs(b), abs(h)) and abs(b - h) > DISAGREE_ABS for b, h in ((bmin, hmin), (bmax, hmax))):
        # per bound: the minimum (maximum) written in the header disagrees with the body's own minimum (maximum) - however small that is
        # against the other end of the range (documented comparison: numpy.allclose element by element)
        return _refuse(p, "range: body [%r, %r] vs header [%r, %r]" % (bmin, bmax, hmin, hmax))
    else:
        p.status, p.reason = "either", "range within the either-way band"
    return p


def faithful(result, parsed, dtype, fname_is_path, fname):
    """Compare what load_surfer returned with the parsed text. Returns a problem string or None."""
    import xarray as xr

    if not isinstance(result, xr.DataArray):
        return "result is %s, not a DataArray" % type(result).__name__
    if tuple(result.dims) != ("northing", "easting"):
        return "dims %r are not (northing, easting)" % (tuple(result.dims),)
    if tuple(result.shape) != tuple(parsed.shape):
        return "shape %r differs from the file's %r" % (tuple(result.shape), tuple(parsed.shape))
    if result.dtype != np.dtype(dtype):
        return "dtype %s, requested %s" % (result.dtype, np.dtype(dtype))
    vals = np.asarray(result.values)
    exp = parsed.expected
    nan_v, nan_e = np.isnan(vals), np.isnan(exp)
    if not np.array_equal(nan_v, nan_e):
        i, j = np.argwhere(nan_v != nan_e)[0]
        return "NaN pattern differs from the blank cells (>= 1.70141e38) of the file, first at row %d col %d (file token value %r)" % (
            i, j, float(parsed.values[i, j]))
    same = (vals == exp) | nan_e
    if not same.all():
        i, j = np.argwhere(~same)[0]
        return "value at row %d col %d is %r, the file says %r" % (i, j, float(vals[i, j]), float(exp[i, j]))
    south, north, west, east = parsed.region
    for name, lo, hi, n in (("northing", south, north, parsed.shape[0]), ("easting", west, east, parsed.shape[1])):
        if name not in result.coords:
            return "coordinate %s missing" % name
        got = np.asarray(result.coords[name].values, dtype="float64")
        if got.shape != (n,):
            return "coordinate %s has shape %r" % (name, got.shape)
        want = ref.line_nodes(lo, hi, n - 1, False) if n > 1 else np.array([lo])
        tol = ref.line_tolerance(lo, hi)
        err = float(np.max(np.abs(got - want)))
        if not err <= tol:
            return "coordinate %s is not the even subdivision of the header range [%r, %r]: off by %.3g (tol %.3g)" % (name, lo, hi, err, tol)
        # "spanning the header ranges": the end nodes ARE the header values (copied, not accumulated) and no node leaves the range
        if float(got[0]) != float(lo):
            return "coordinate %s starts at %r, the header says %r (not bit-identical)" % (name, float(got[0]), float(lo))
        if n > 1 and float(got[-1]) != float(hi):
            return "coordinate %s ends at %r, the header says %r (off by %.3g: the last node must be the header value itself)" % (
                name, float(got[-1]), float(hi), float(got[-1]) - float(hi))
        if n > 1 and (got.min() < min(lo, hi) or got.max() > max(lo, hi)):
            return "coordinate %s leaves the header range [%r, %r]: min %r max %r" % (name, lo, hi, float(got.min()), float(got.max()))
    if parsed.shape[0] > 1 and parsed.shape[1] > 1 and south != north and west != east:
        # label-based selection of the header corners must work
        for lab_n, lab_e in ((north, east), (south, west)):
            try:
                picked = result.sel({"northing": lab_n, "easting": lab_e})
            except Exception as exc:  # noqa: BLE001
                return "grid.sel(northing=%r, easting=%r) (a header corner) fails: %s: %s" % (lab_n, lab_e, type(exc).__name__, str(exc)[:120])
            if np.ndim(picked.values) != 0:
                return "grid.sel of a header corner does not select one node"
    if result.attrs.get("gridID") != parsed.grid_id:
        return "gridID attribute %r, the file says %r" % (result.attrs.get("gridID"), parsed.grid_id)
    if fname_is_path and result.attrs.get("file") != fname:
        return "file attribute %r is not the path given %r" % (result.attrs.get("file"), fname)
    # the whole dictionary: the grid id, plus the path when (and only when) this call was given one - nothing extra, nothing stale
    want = {"gridID": parsed.grid_id, "file": fname} if fname_is_path else {"gridID": parsed.grid_id}
    if dict(result.attrs) != want:
        extra = sorted(set(result.attrs) - set(want))
        return "attributes %r are not exactly %r (unexpected keys %r)" % (dict(result.attrs), want, extra)
    return None


# --------------------------------------------------------------------------
# generation of well-formed files
# --------------------------------------------------------------------------
BLANK_TOKENS = ["1.70141e38", "1.70141e38", "1.70141e38", "1.70141e+38", "1.70141E+038", "1.70141e38", "0.170141e39",
                "170141000000000000000000000000000000000", "1.70142e38", "2e38", "3.0e38", "1e39", "1.7976e308"]
IDS = ["DSAA", "DSAA", "DSAA", "DSBB", "DSAA v7", "my grid 01", "DSAA-text", "G"]


def fmt_number(rng, value, style=None):
    """One of several legal spellings of a float (the spelling, not `value`, is what the file then says)."""
    value = float(value)
    if style is None:
        style = str(rng.choice(["g17", "repr", "g", "e", "e10", "plus", "upper", "int", "f", "padexp", "nolead"]))
    if style == "int" and value == int(value) and abs(value) < 1e15:
        return "%d" % int(value)
    if style == "f" and 1e-3 < abs(value) < 1e12:
        return "%.*f" % (int(rng.integers(0, 9)), value)
    if style == "g":
        return "%g" % value
    if style == "e":
        return "%e" % value
    if style == "e10":
        return "%.10e" % value
    if style == "repr":
        return repr(value)
    if style == "plus":
        text = "%.17g" % value
        return text if text.startswith("-") else "+" + text
    if style == "upper":
        return ("%.12e" % value).upper()
    if style == "nolead":  # '.5', '-.5', '+.5E+01': no digit before the decimal point
        mant, exp = ("%.9e" % abs(value)).split("e")
        digits = mant.replace(".", "").rstrip("0") or "0"
        sign = "-" if value < 0 else str(rng.choice(["", "+"]))
        power = int(exp) + 1
        if value == 0:
            return sign + ".0"
        return "%s.%s" % (sign, digits) if power == 0 else "%s.%sE%+03d" % (sign, digits, power)
    if style == "padexp":
        mant, exp = ("%.8e" % value).split("e")
        return "%se%s%03d" % (mant, exp[0], int(exp[1:]))
    return "%.17g" % value


WIDE_KINDS = ["wide_positive", "wide_negative", "wide_small"]


def random_values(rng, shape, dtype, kind=None):
    """Finite grid values of any magnitude, with negatives and repeats."""
    kind = kind or str(rng.choice(["smooth", "integers", "mixed", "offset", "near_sentinel", "tiny", "constant", "huge_negative", "repeats"],
                          p=[0.2, 0.15, 0.15, 0.12, 0.1, 0.08, 0.04, 0.06, 0.1]))
    n = shape[0] * shape[1]
    if kind in WIDE_KINDS:  # a wide dynamic range: the small-magnitude end is tiny against the other end
        lo, hi = {"wide_positive": (0.5, 250000.0), "wide_negative": (0.5, 250000.0), "wide_small": (1e-3, 1e4)}[kind]
        vals = 10 ** rng.uniform(np.log10(lo), np.log10(hi), n)
        vals[0], vals[-1] = lo * float(rng.choice([1.0, 1.0, 0.7, 3.0])), hi * float(rng.choice([1.0, 1.0, 0.6]))
        vals = rng.permutation(vals) * (-1.0 if kind == "wide_negative" else 1.0)
        return kind, vals.reshape(shape)
    if kind == "smooth":
        vals = rng.normal(size=n) * 10 ** rng.uniform(-6, 9)
    elif kind == "integers":
        vals = rng.integers(-50, 50, n).astype("float64")
    elif kind == "mixed":
        vals = rng.choice([-1.0, 1.0], n) * 10 ** rng.uniform(-20, 20, n)
    elif kind == "offset":
        vals = 10 ** rng.uniform(3, 9) * rng.choice([-1, 1]) + rng.normal(size=n)
    elif kind == "near_sentinel":
        vals = rng.uniform(1e37, 1.7013e38, n)
        vals[rng.random(n) < 0.3] = 1.7013e38
    elif kind == "tiny":
        vals = rng.normal(size=n) * 10 ** rng.uniform(-35, -25)
    elif kind == "constant":
        vals = np.full(n, float(rng.normal() * 10 ** rng.uniform(-3, 6)))
    elif kind == "huge_negative":
        top = 300 if np.dtype(dtype) == np.dtype("float64") else 37
        vals = -(10 ** rng.uniform(30, top, n))
        some = rng.random(n) < 0.5
        vals[some] = rng.normal(size=int(some.sum()))
    else:
        pool = rng.normal(size=max(2, n // 6)) * 10 ** rng.uniform(-2, 4)
        vals = rng.choice(pool, n)
    return kind, vals.reshape(shape)


def random_shape(rng, max_rows=40, max_cols=60, square=None):
    if square is None:
        square = rng.random() < 0.2
    if rng.random() < 0.55:
        rows, cols = int(rng.integers(2, 9)), int(rng.integers(2, 9))
    else:
        rows, cols = int(rng.integers(2, max_rows + 1)), int(rng.integers(2, max_cols + 1))
    if square:
        cols = rows
    elif rows == cols:
        cols = cols + 1
    return rows, cols


def end_node_is_fragile(lo, hi, n):
    """Does accumulating n-1 steps from lo miss hi in float64 (so only a reader that pins the stop ends exactly on the header value)?"""
    if n < 2 or lo == hi:
        return False
    step = (hi - lo) / (n - 1)
    return (lo + step * (n - 1) != hi) or (lo + (n - 1) * ((hi - lo) / (n - 1)) != hi) or float(np.arange(n)[-1] * step + lo) != hi


KNOWN_FRAGILE = [("0", "1000", 16), ("0", "1", 50), ("371.084", "1059.844", 42)]


def random_range(rng):
    scale = 10 ** rng.uniform(-3, 7)
    lo = float(rng.normal() * scale * rng.choice([1.0, 1.0, 100.0]))
    hi = float(lo + rng.uniform(0.01, 3) * scale)
    if hi == lo:
        hi = lo + scale
    return lo, hi


class Spec:
    """A generated file: token texts (the truth) plus layout decisions."""

    def __init__(self):
        self.grid_id = "DSAA"
        self.shape = None
        self.counts = None  # two tokens
        self.sn = None  # two tokens
        self.we = None
        self.z = None
        self.rows = None  # list of lists of tokens
        self.sep = " "
        self.indent = ""
        self.trail = ""
        self.id_indent = ""
        self.id_trail = ""
        self.eol = "\n"
        self.final_eol = True
        self.extra_blank_lines = 0
        self.kind = None
        self.n_blank = 0

    def header_lines(self):
        # the id line carries its own leading / trailing blanks (a header indented as a block, trailing spaces or tabs):
        # the grid id is the line without the surrounding whitespace
        return [self.id_indent + self.grid_id + self.id_trail, self.counts, self.sn, self.we, self.z]

    def join(self, toks, rng=None):
        return self.indent + self.sep.join(toks) + self.trail

    def render(self, header=None, body_lines=None):
        """Text from header (list of 5 str-or-token-list) and body (list of token lists)."""
        header = self.header_lines() if header is None else header
        body_lines = self.rows if body_lines is None else body_lines
        out = []
        for item in header:
            out.append(item if isinstance(item, str) else self.join(item))
        for toks in body_lines:
            out.append(toks if isinstance(toks, str) else self.join(toks))
        text = self.eol.join(out)
        if self.final_eol:
            text += self.eol
        text += self.eol * self.extra_blank_lines
        return text


def random_spec(rng, dtype="float64", shape=None, blanks=None, small=False, plain=False, value_kind=None):
    """A well-formed file whose header is exact for the values *as they are spelled in the body*."""
    sp = Spec()
    if shape is None:
        shape = random_shape(rng, 8 if small else 40, 8 if small else 60)
    sp.shape = shape
    sp.kind, vals = random_values(rng, shape, dtype, value_kind)
    style = None if rng.random() < 0.5 else str(rng.choice(["g17", "repr", "g", "e", "e10", "plus", "upper", "int", "f", "padexp", "nolead"]))
    tokens = [[fmt_number(rng, v, style) for v in row] for row in vals]
    if blanks is None:
        blanks = rng.random() < 0.6
    n = shape[0] * shape[1]
    if blanks:
        how = rng.random()
        if how < 0.4:
            mask = rng.random(shape) < rng.uniform(0.02, 0.5)
        elif how < 0.6:  # whole rows / columns
            mask = np.zeros(shape, bool)
            mask[rng.integers(0, shape[0]), :] = True
            if rng.random() < 0.5:
                mask[:, rng.integers(0, shape[1])] = True
        elif how < 0.8:  # the extremes themselves are blanked
            mask = np.zeros(shape, bool)
            mask.flat[int(np.argmax(vals))] = True
            mask.flat[int(np.argmin(vals))] = True
        else:  # almost everything
            mask = rng.random(shape) < 0.9
        if mask.all():
            mask.flat[int(rng.integers(0, n))] = False
        if not mask.any():
            mask.flat[int(rng.integers(0, n))] = True
            if mask.all():
                mask.flat[0] = False
        for i, j in np.argwhere(mask):
            tokens[i][j] = str(rng.choice(BLANK_TOKENS)) if not plain else "1.70141e38"
        sp.n_blank = int(mask.sum())
    else:
        mask = np.zeros(shape, bool)
    sp.rows = tokens
    # header range from the spelled values, in the dtype they will be read as
    spelled = np.array([[float(t) for t in row] for row in tokens])
    with np.errstate(over="ignore"):
        typed = spelled.astype(dtype).astype("float64")
    good = ~(spelled >= SENTINEL)
    idx_min = np.argwhere(good & (typed == typed[good].min()))[0]
    idx_max = np.argwhere(good & (typed == typed[good].max()))[0]
    ztoks = []
    for i, j in (idx_min, idx_max):
        how = rng.random()
        if how < 0.4:
            ztoks.append(tokens[i][j])
        elif how < 0.7:
            ztoks.append("%.17g" % spelled[i, j])
        elif how < 0.85:
            ztoks.append("%.9g" % spelled[i, j])
        else:
            ztoks.append(repr(float(typed[i, j])))
    sp.z = ztoks
    sp.counts = ["%d" % shape[0], "%d" % shape[1]]
    coord_style = str(rng.choice(["g17", "repr", "g", "f", "e", "int", "nolead"]))

    def tokens(n_nodes, want_tricky):
        """Two range tokens; when asked, search for a range whose accumulated end start + step*(n-1) misses the stop in floating point."""
        best = None
        for _ in range(120 if want_tricky else 1):
            lo, hi = random_range(rng)
            if coord_style == "int":
                lo, hi = float(int(lo)), float(int(lo) + 1 + int(abs(hi - lo)))
            toks = [fmt_number(rng, lo, coord_style), fmt_number(rng, hi, coord_style)]
            best = best or toks
            if not want_tricky or end_node_is_fragile(float(toks[0]), float(toks[1]), n_nodes):
                return toks
        return best

    tricky = rng.random() < 0.7
    sp.sn = tokens(shape[0], tricky)
    sp.we = tokens(shape[1], tricky)
    if float(sp.sn[0]) == float(sp.sn[1]):
        sp.sn[1] = repr(float(sp.sn[0]) + 1.0)
    if float(sp.we[0]) == float(sp.we[1]):
        sp.we[1] = repr(float(sp.we[0]) + 1.0)
    sp.grid_id = str(rng.choice(IDS))
    if not plain:
        sp.sep = str(rng.choice([" ", " ", "  ", "\t", " \t ", "      "]))
        sp.indent = str(rng.choice(["", "", " ", "        ", "\t"]))
        how = rng.random()
        if how < 0.35:  # the whole header block indented like the other lines
            sp.id_indent = sp.indent or str(rng.choice([" ", "    ", "\t"]))
        elif how < 0.55:
            sp.id_indent = str(rng.choice([" ", "        ", "\t", " \t ", "\t\t"]))
        sp.id_trail = str(rng.choice(["", "", "", " ", "   ", "\t", " \t"]))
        sp.trail = str(rng.choice(["", "", " ", "  \t"]))
        sp.eol = str(rng.choice(["\n", "\n", "\n", "\r\n"]))
        sp.final_eol = bool(rng.random() < 0.8)
        sp.extra_blank_lines = int(rng.choice([0, 0, 1, 3])) if sp.final_eol else 0
    return sp


# --------------------------------------------------------------------------
# layouts: rows split over several lines
# --------------------------------------------------------------------------
def wrapped_layouts(rng, sp):
    """(name, body_lines) variants of the same grid with rows split over several lines (or joined)."""
    rows, n_east = sp.rows, sp.shape[1]
    out = []
    divisors = [m for m in range(2, n_east + 1) if n_east % m == 0]
    if divisors:
        m = int(rng.choice(divisors))
        width = n_east // m
        out.append(("regular_split_%d" % m, [row[k * width:(k + 1) * width] for row in rows for k in range(m)]))
    width = int(rng.integers(1, n_east)) if n_east > 1 else 1
    out.append(("surfer_max_%d_per_line" % width, [row[k:k + width] for row in rows for k in range(0, n_east, width)]))
    ragged = []
    for row in rows:
        k = 0
        while k < n_east:
            step = int(rng.integers(1, n_east + 1))
            ragged.append(row[k:k + step])
            k += step
    out.append(("ragged", ragged))
    spaced = []
    for row in rows:
        spaced.append(row)
        spaced.append("")
    out.append(("blank_line_between_rows", spaced))
    out.append(("all_on_one_line", [[t for row in rows for t in row]]))
    pairs = [rows[k] + (rows[k + 1] if k + 1 < len(rows) else []) for k in range(0, len(rows), 2)]
    out.append(("two_rows_per_line", pairs))
    first_only = [rows[0][:1], rows[0][1:]] + rows[1:]
    out.append(("first_row_split", first_only))
    return out


# --------------------------------------------------------------------------
# single faults
# --------------------------------------------------------------------------
NON_NUMERIC = ["abc", "1.2.3", "12a", "1,5", "--5", "1e", "0x1F", "?", "1.0f"]


def _shift_token(tok, rel=None, absolute=None, factor=None):
    value = float(tok)
    if factor is not None:
        new = value * factor
    elif rel is not None:
        new = value + rel * (abs(value) if value != 0 else 1.0)
    else:
        new = value + absolute
    return "%.17g" % new


def header_faults(rng, sp):
    """
    EVERY single header corruption of DESIGN C19 for one base file: (kind, text). The verdict (must refuse /
    must load what the text now says) is decided by the hand parser on the corrupted text, not here.
    """
    base = sp.header_lines()
    out = []

    def emit(kind, header):
        out.append((kind, sp.render(header=header)))

    c0, c1 = int(sp.counts[0]), int(sp.counts[1])
    emit("count_north_plus1", [base[0], ["%d" % (c0 + 1), sp.counts[1]]] + base[2:])
    emit("count_north_minus1", [base[0], ["%d" % (c0 - 1), sp.counts[1]]] + base[2:])
    emit("count_east_plus1", [base[0], [sp.counts[0], "%d" % (c1 + 1)]] + base[2:])
    emit("count_east_minus1", [base[0], [sp.counts[0], "%d" % (c1 - 1)]] + base[2:])
    emit("counts_swapped", [base[0], [sp.counts[1], sp.counts[0]]] + base[2:])
    emit("count_zero", [base[0], ["0", sp.counts[1]]] + base[2:])
    emit("count_negated", [base[0], [sp.counts[0], "-%d" % c1]] + base[2:])
    emit("count_as_float", [base[0], [sp.counts[0], "%d.5" % c1]] + base[2:])
    emit("counts_doubled_halved", [base[0], ["%d" % (c0 * 2), "%d" % max(c1 // 2, 1)]] + base[2:])
    # ranges swapped with each other
    emit("ranges_swapped_sn_we", [base[0], base[1], base[3], base[2], base[4]])
    emit("ranges_swapped_sn_z", [base[0], base[1], base[4], base[3], base[2]])
    emit("ranges_swapped_we_z", [base[0], base[1], base[2], base[4], base[3]])
    # reversed
    emit("range_reversed_sn", [base[0], base[1], base[2][::-1], base[3], base[4]])
    emit("range_reversed_we", [base[0], base[1], base[2], base[3][::-1], base[4]])
    emit("range_reversed_z", [base[0], base[1], base[2], base[3], base[4][::-1]])
    # shifted / scaled, each range, each end
    zlo, zhi = float(sp.z[0]), float(sp.z[1])
    zscale = max(abs(zlo), abs(zhi), 1e-3)
    for line, name in ((2, "sn"), (3, "we")):
        for which in ((0,), (1,), (0, 1)):
            amount = float(rng.choice([1e-9, 5e-3, 0.3, 17.0]))
            toks = list(base[line])
            for k in which:
                toks[k] = _shift_token(toks[k], rel=amount)
            hdr = list(base)
            hdr[line] = toks
            emit("range_shifted_%s" % name, hdr)
        factor = float(rng.choice([1.01, 2.0, -1.0, 1e3, 0.5]))
        hdr = list(base)
        hdr[line] = [_shift_token(t, factor=factor) for t in base[line]]
        emit("range_scaled_%s" % name, hdr)
    for which, label in (((0,), "min"), ((1,), "max"), ((0, 1), "both")):
        for amount in (1e-9, 5e-3, 0.3, 17.0):
            toks = list(base[4])
            sign = float(rng.choice([-1.0, 1.0]))
            for k in which:
                toks[k] = "%.17g" % (float(toks[k]) + sign * amount * zscale)
            hdr = list(base)
            hdr[4] = toks
            emit("range_shifted_z_%s" % label, hdr)
    for factor in (1.0 + 1e-9, 1.01, 2.0, -1.0, 1e3, 0.5):
        hdr = list(base)
        hdr[4] = [_shift_token(t, factor=factor) for t in base[4]]
        emit("range_scaled_z", hdr)
    # the SMALL-magnitude end of a wide data range corrupted by amounts that are large against that bound but small against the other end
    # (zmin 0.5 -> 2.0, 0.0, -1.5 with zmax 250000), and the same absolute amounts applied to the large end as control
    small_k, large_k = (0, 1) if abs(zlo) <= abs(zhi) else (1, 0)
    small_v, large_v = float(base[4][small_k]), float(base[4][large_k])
    if small_v != 0 and abs(small_v) < 1e-3 * abs(large_v):
        for label, new in (("times_4", 4.0 * small_v), ("to_zero", 0.0), ("sign_flipped_times_3", -3.0 * small_v), ("plus_fraction_of_other_end", small_v + 0.9e-5 * abs(large_v)),
                           ("minus_fraction_of_other_end", small_v - 0.9e-5 * abs(large_v))):
            toks = list(base[4])
            toks[small_k] = "%.17g" % new
            hdr = list(base)
            hdr[4] = toks
            emit("wide_range_small_end_%s" % label, hdr)
            toks = list(base[4])
            toks[large_k] = "%.17g" % (large_v + (new - small_v))
            hdr = list(base)
            hdr[4] = toks
            emit("wide_range_large_end_same_amount_control", hdr)
    # a header line dropped or duplicated
    for k in range(5):
        emit("line_dropped_%d" % (k + 1), base[:k] + base[k + 1:])
        emit("line_duplicated_%d" % (k + 1), base[:k + 1] + base[k:])
    emit("empty_header_line", base[:2] + [""] + base[2:])
    # non-numeric token / missing token / extra token at every position
    for line in (1, 2, 3, 4):
        for k in (0, 1):
            toks = list(base[line])
            toks[k] = str(rng.choice(NON_NUMERIC))
            hdr = list(base)
            hdr[line] = toks
            emit("non_numeric_token", hdr)
            toks = list(base[line])
            del toks[k]
            hdr = list(base)
            hdr[line] = toks
            emit("token_missing", hdr)
        hdr = list(base)
        hdr[line] = list(base[line]) + [base[line][int(rng.integers(0, 2))]]
        emit("token_added", hdr)
    return out


def body_faults(rng, sp):
    """Single corruptions of the body that make it disagree with the (unchanged) header."""
    rows = sp.rows
    out = []
    k = int(rng.integers(0, len(rows)))
    out.append(("body_row_dropped", sp.render(body_lines=rows[:k] + rows[k + 1:])))
    out.append(("body_row_duplicated", sp.render(body_lines=rows[:k + 1] + rows[k:])))
    j = int(rng.integers(0, sp.shape[1]))
    short = [list(r) for r in rows]
    del short[k][j]
    out.append(("body_token_dropped", sp.render(body_lines=short)))
    longer = [list(r) for r in rows]
    longer[k].insert(j, longer[k][j])
    out.append(("body_token_added", sp.render(body_lines=longer)))
    col = [[t for idx, t in enumerate(r) if idx != j] for r in rows]
    out.append(("body_column_dropped", sp.render(body_lines=col)))
    bad = [list(r) for r in rows]
    bad[k][j] = str(rng.choice(NON_NUMERIC))
    out.append(("body_non_numeric_token", sp.render(body_lines=bad)))
    # an extreme moved beyond the header range (both directions), blanks elsewhere untouched
    spelled = np.array([[float(t) for t in row] for row in rows])
    good = ~(spelled >= SENTINEL)
    scale = max(abs(float(sp.z[0])), abs(float(sp.z[1])), 1e-3)
    if scale < 1e35:
        for label, pick, sign in (("max_raised", np.argmax, 1.0), ("min_lowered", np.argmin, -1.0)):
            masked = np.where(good, spelled, -sign * np.inf)
            i2, j2 = np.unravel_index(int(pick(masked)), spelled.shape)
            for amount in (5e-3, 2.0):
                changed = [list(r) for r in rows]
                changed[i2][j2] = "%.17g" % (spelled[i2, j2] + sign * amount * scale)
                out.append(("body_%s" % label, sp.render(body_lines=changed)))
        # a blank written where the maximum was (header no longer matches unless the maximum repeats)
        i2, j2 = np.unravel_index(int(np.argmax(np.where(good, spelled, -np.inf))), spelled.shape)
        changed = [list(r) for r in rows]
        changed[i2][j2] = "1.70141e38"
        out.append(("body_max_blanked", sp.render(body_lines=changed)))
    transposed = [list(r) for r in zip(*rows)]
    out.append(("body_transposed", sp.render(body_lines=transposed)))
    return out


def truncations(sp):
    """The file cut after k whole lines, for every k, and in the middle of the last line."""
    text = sp.render()
    pieces = text.splitlines(keepends=True)
    out = []
    for k in range(len(pieces)):
        out.append(("truncated_after_lines", "".join(pieces[:k])))
    whole = "".join(pieces)
    stripped = whole.rstrip()
    last_tok = stripped.split()[-1]
    out.append(("truncated_last_value_missing", stripped[:len(stripped) - len(last_tok)]))
    return out


# --------------------------------------------------------------------------
# file objects with injected I/O faults
# --------------------------------------------------------------------------
class InjectedIOError(OSError):
    pass


class FaultyText:
    """
    A text file object (readline / read / readlines / iteration) over a string whose k-th read operation and
    every later one raises InjectedIOError. fail_at=None never fails and just counts the reads.
    """

    def __init__(self, text, fail_at=None):
        self._lines = text.splitlines(keepends=True)
        self._pos = 0
        self.text = text
        self.fail_at = fail_at
        self.reads = 0
        self.fired = False
        self.closed = False
        self.close_calls = 0
        self.name = "<faulty text>"
        self.encoding = "utf-8"

    def _tick(self):
        if self.closed:
            raise ValueError("I/O operation on closed file.")
        self.reads += 1
        if self.fail_at is not None and self.reads >= self.fail_at:
            self.fired = True
            raise InjectedIOError(5, "injected I/O error at read %d" % self.reads)

    def readline(self, size=-1):  # noqa: U100
        self._tick()
        if self._pos >= len(self._lines):
            return ""
        line = self._lines[self._pos]
        self._pos += 1
        return line

    def read(self, size=-1):  # noqa: U100
        self._tick()
        rest = "".join(self._lines[self._pos:])
        self._pos = len(self._lines)
        return rest

    def readlines(self, hint=-1):  # noqa: U100
        self._tick()
        rest = self._lines[self._pos:]
        self._pos = len(self._lines)
        return rest

    def __iter__(self):
        return self

    def __next__(self):
        self._tick()
        if self._pos >= len(self._lines):
            raise StopIteration
        line = self._lines[self._pos]
        self._pos += 1
        return line

    def tell(self):
        return sum(len(ln) for ln in self._lines[:self._pos])

    def close(self):
        self.close_calls += 1
        self.closed = True

    def __enter__(self):
        return self

    def __exit__(self, *exc):
        self.close()
        return False


class FaultyProxy:
    """Wraps a real file object opened by the code under test: same interface, k-th read raises."""

    def __init__(self, real, fail_at=None):
        self._real = real
        self.fail_at = fail_at
        self.reads = 0
        self.fired = False
        self.name = getattr(real, "name", None)
        self.encoding = getattr(real, "encoding", "utf-8")

    @property
    def closed(self):
        return self._real.closed

    def _tick(self):
        self.reads += 1
        if self.fail_at is not None and self.reads >= self.fail_at:
            self.fired = True
            raise InjectedIOError(5, "injected I/O error at read %d" % self.reads)

    def readline(self, *args):
        self._tick()
        return self._real.readline(*args)

    def read(self, *args):
        self._tick()
        return self._real.read(*args)

    def readlines(self, *args):
        self._tick()
        return self._real.readlines(*args)

    def __iter__(self):
        return self

    def __next__(self):
        self._tick()
        line = self._real.readline()
        if line == "":
            raise StopIteration
        return line

    def tell(self):
        return self._real.tell()

    def close(self):
        return self._real.close()

    def __enter__(self):
        return self

    def __exit__(self, *exc):
        self._real.close()
        return False
