"""
C06 - Chain, Vector and filter compose estimators without leaking or losing data.

The monitors are *offline checkers over the recorded call tree*: ``fit``, ``predict``
and ``filter`` of ``BaseGridder`` and every subclass, and ``filter`` of
``BlockReduce`` / ``BlockMean`` are tapped, so every execution of ``Chain.fit``,
``Chain.predict``, ``Vector.fit``, ``Vector.predict`` and ``BaseGridder.filter``
(nested ones included: chains inside chains, vectors inside chains, chains inside
vectors) arrives at its post-monitor with the complete tree of nested step calls
(``ev.children``), their arguments (snapshotted on entry) and their results.

What is decided on each of those executions (data-flow conservation):

* ``filter`` (any gridder, Chain and Vector included): the estimator was fitted on exactly
  (coordinates, data, weights); the result is (the coordinates given, data - own prediction in
  the data's shape, the weights given).
* ``Chain.fit``: one ``filter`` per step, in list order; step 0 receives the chain's arguments,
  step k what step k-1 returned (``weights=None`` after a 2-tuple, i.e. after ``BlockReduce``);
  for the steps after the last reduction  sum(predictions) + last residual = data entering them,
  and (when every predicting step comes after the last reduction) a fresh ``chain.predict`` at those
  coordinates + last residual = that data; a second fit of the same chain object equals a fresh clone.
* ``Chain.predict``: one ``predict`` per step that has one, same coordinates, result = their sum.
* ``Vector.fit``: component i is fitted once, on (coordinates, data[i], weights[i]) and nothing else;
  the vector's predictions equal clones of the components fitted separately by the harness.
* ``Vector.predict``: one ``predict`` per component, result[i] is component i's prediction and equals
  the separately fitted clone.
"""
import collections
import warnings

import numpy as np

from .. import gen
from . import _c06_work as work

ID = "C06"
LEVEL = "exploration"
RULE = (
    "cases = seeded random compositions: step lists of length 1-4 over {Trend(0..3), damped Spline (own or given force "
    "coordinates), KNeighbors(k, mean|median), Linear, Cubic, BlockReduce(mean|median|average; shape|spacing; centre or reduced "
    "coordinates), BlockMean(variance|uncertainty weights), nested Chain (depth <= 2), Vector of those, VectorSpline2D}; scalar and "
    "2-3 component data, every component with its own random field, noise and log-uniform weights (3 decades); weights none / given; "
    "data dtype classes float64 / float32 / int16 / int32 / int64 (integer-valued data that no smooth model predicts exactly) / mixed "
    "(one integer, one float64 component), integer (int32/int64 lattice) coordinates; step names unique / drawn from a pool of three / "
    "all equal / the class name (so repeated, also across nesting levels); life-cycle histories: the same chain object fitted on A then "
    "on B with another bounding box and size (block reductions without an explicit region), clones taken after a fit, set_params on held "
    "steps and replaced step lists between fits; duck-typed steps that are not BaseGridder (level step with filter+predict, wrapper with "
    "fit/filter/predict around a verde estimator in warped coordinates, filter-only thinning step) at first / middle / last positions and "
    "inside nested chains, recorded by the same tap and judged by the same oracles; large counts (60 000 and 140 003 scattered points, a "
    "300x401 grid, random sizes above 50 000 / 100 000 / 131 072 that are not multiples of 50 000) through filter, Chain.fit, Chain.filter "
    "and Vector.filter with cheap steps (Trend, KNeighbors, level step, block reductions); "
    "1-D and 2-D inputs, optional third coordinate; fit, predict at the data and elsewhere, direct filter calls, and histories "
    "(the same chain/vector object fitted again on other data). Every Chain.fit / Chain.predict / Vector.fit / Vector.predict / "
    "filter execution, nested ones included, is decided from its recorded call tree. Non-trivial = a Chain.fit with >= 2 steps of "
    "which >= 1 predicts, or a Vector.fit whose component data are pairwise different; distinct = hash of (composition, data)."
)
ASSUMPTIONS = [
    "data-flow identities (residual = data - prediction, sums of predictions, conservation) are compared with 64 eps sum|terms|",
    "the reference residual is float64(data) - float64(prediction) at float64 eps for every data dtype; only when an operand the code "
    "received is itself a narrow float (KNeighbors predicts float32 for float32 data) float32 eps applies, counted as either_way",
    "a raise is counted and noted, not judged (normal returns only)",
    "arguments a caller leaves out are bound to the documented default (weights=None); constructor defaults are judged by comparing "
    "objects built without optional arguments with objects built with the documented defaults spelled out",
    "the reference of the refit relation is an unfitted clone taken before the object's first fit (renewed only after a set_params between "
    "fits), never a clone of the fitted object; constructor parameters (get_params, nested) are compared before/after every root fit/filter",
    "block counts are judged only when no point lies within 1e-9 of a cell edge and the cell count is not a rounding tie (either-way otherwise)",
    "a clone fitted by the harness on the same inputs repeats the same floating-point computation: compared with 1e-9 of the data scale",
    "estimators are deterministic (single-threaded BLAS, numpy engine); step objects are not shared between steps/components",
    "VectorSpline2D keeps the force coordinates of its first fit (documented), so it is left out of the refit-equals-fresh relation",
    "NaN predictions (Linear/Cubic outside or on the hull) are compared position-wise",
]
FLOORS = {
    "quick": {"eval:filter": 1250, "eval:chain_fit_order": 580, "eval:chain_threading": 580, "eval:conservation_events": 580,
              "eval:conservation_predict": 560, "eval:chain_predict_sum": 1400, "eval:vector_routing": 280,
              "eval:vector_vs_separate": 1100, "eval:vector_predict": 800, "eval:refit_equals_fresh": 85,
              "eval:reduction_filter": 185, "distinct_nontrivial": 650,
              # data-dtype and coordinate-dtype classes (filter executions / chains whose first predicting step is followed by another step)
              "filter_data_dtype:int16": 55, "filter_data_dtype:int32": 55, "filter_data_dtype:int64": 55, "filter_data_dtype:float32": 125,
              "filter_data_dtype:mixed": 55, "filter_coordinates:integer": 140, "chain_coordinates:integer": 80,
              "chain_predicting_step_followed:data_dtype:int16": 35, "chain_predicting_step_followed:data_dtype:int32": 35,
              "chain_predicting_step_followed:data_dtype:int64": 35, "chain_predicting_step_followed:data_dtype:float32": 60,
              "chain_predicting_step_followed:data_dtype:mixed": 25,
              # step-name classes and life-cycle histories
              "chain_names:all_equal": 85, "chain_names:some_repeated": 55, "chain_names:repeated_among_predicting_steps": 110,
              "chain_names:shared_with_nested_chain": 65, "history:refit_with_regionless_reduction": 22, "history:clone_after_fit": 24,
              "history:parameters_changed_between_fits": 10, "eval:params_unchanged": 480, "eval:reduction_blocks_on_own_region": 170,
              "reduction_region:own_bounding_box": 140, "eval:clone_after_fit_equals_new": 24,
              # duck-typed steps (harness classes that are not BaseGridder) by position and class
              "duck_step:position:first": 40, "duck_step:position:middle": 30, "duck_step:position:last": 90, "duck_step:in_nested_chain": 75,
              "duck_step:class:LevelStep": 70, "duck_step:class:WarpedGridder": 90, "duck_step:class:ThinStep": 35,
              "chain_predict:sum_of_duck_typed_and_other_steps": 200,
              # large counts (> 50 000 / 100 000 / 131 072 points, not a multiple of 50 000) through filter, Chain.fit/filter, Vector.filter
              "filter_points:gt50000": 10, "filter_points:gt100000": 7, "filter_points:gt131072": 3, "filter_points:large_not_multiple_of_50000": 10,
              "chain_fit_points:gt50000": 3, "chain_fit_points:gt131072": 1, "chain_predict_points:gt50000": 3, "vector_fit_points:gt50000": 1,
              # documented defaults and weights threaded past weight-ignoring steps / live at reductions
              "eval:defaults_equal_documented": 25, "vector_weights_dtype:int_first_mixed:fractional_floats": 10,
              "vector_weights_dtype:float_first_mixed:fractional_floats": 10, "defaulted_argument:Chain.fit.weights": 170, "defaulted_argument:BaseGridder.filter.weights": 160,
              "weights_threaded_past_weight_ignoring_step:into_weight_using_step": 45, "weights_live_at_reduction:BlockReduce": 50,
              "weights_live_at_reduction:BlockMean": 55},
    "thorough": {"eval:filter": 18500, "eval:chain_fit_order": 9000, "eval:chain_threading": 9000, "eval:conservation_events": 9000,
                 "eval:conservation_predict": 8800, "eval:chain_predict_sum": 23000, "eval:vector_routing": 3900,
                 "eval:vector_vs_separate": 15500, "eval:vector_predict": 11500, "eval:refit_equals_fresh": 1650,
                 "eval:reduction_filter": 3000, "distinct_nontrivial": 10000,
                 "filter_data_dtype:int16": 800, "filter_data_dtype:int32": 800, "filter_data_dtype:int64": 800, "filter_data_dtype:float32": 1850,
                 "filter_data_dtype:mixed": 700, "filter_coordinates:integer": 2100, "chain_coordinates:integer": 1200,
                 "chain_predicting_step_followed:data_dtype:int16": 520, "chain_predicting_step_followed:data_dtype:int32": 520,
                 "chain_predicting_step_followed:data_dtype:int64": 520, "chain_predicting_step_followed:data_dtype:float32": 900,
                 "chain_predicting_step_followed:data_dtype:mixed": 380,
                 "chain_names:all_equal": 1500, "chain_names:some_repeated": 1050, "chain_names:repeated_among_predicting_steps": 1950,
                 "chain_names:shared_with_nested_chain": 1000, "history:refit_with_regionless_reduction": 410, "history:clone_after_fit": 380,
                 "history:parameters_changed_between_fits": 230, "eval:params_unchanged": 8500, "eval:reduction_blocks_on_own_region": 3100,
                 "reduction_region:own_bounding_box": 2500, "eval:clone_after_fit_equals_new": 380,
                 "duck_step:position:first": 780, "duck_step:position:middle": 850, "duck_step:position:last": 1450, "duck_step:in_nested_chain": 1650,
                 "duck_step:class:LevelStep": 1400, "duck_step:class:WarpedGridder": 1900, "duck_step:class:ThinStep": 600,
                 "chain_predict:sum_of_duck_typed_and_other_steps": 4000,
                 "filter_points:gt50000": 85, "filter_points:gt100000": 30, "filter_points:gt131072": 12, "filter_points:large_not_multiple_of_50000": 85,
                 "chain_fit_points:gt50000": 28, "chain_fit_points:gt131072": 4, "chain_predict_points:gt50000": 28, "vector_fit_points:gt50000": 9,
                 "eval:defaults_equal_documented": 330, "vector_weights_dtype:int_first_mixed:fractional_floats": 140,
                 "vector_weights_dtype:float_first_mixed:fractional_floats": 140, "defaulted_argument:Chain.fit.weights": 2500, "defaulted_argument:BaseGridder.filter.weights": 2400,
                 "weights_threaded_past_weight_ignoring_step:into_weight_using_step": 700, "weights_live_at_reduction:BlockReduce": 700,
                 "weights_live_at_reduction:BlockMean": 800},
}
JOBS = {"quick": 1, "thorough": 8}
CASE_TIMEOUT_S = 300
CLASSIFIERS = {}

EPS = float(np.finfo("float64").eps)
TINY = float(np.finfo("float64").tiny)


def plan(tier):
    if tier == "quick":
        return collections.OrderedDict(large=3, defaults=3, scalar_chain=32, vector=14, vector_chain=12, refit=10, filter=7)
    return collections.OrderedDict(ambient=4, large=24, defaults=40, scalar_chain=560, vector=240, vector_chain=220, refit=160, filter=100)


# ----------------------------------------------------------------------
# small helpers (numpy only)
# ----------------------------------------------------------------------
def _snap(obj):
    """Copy of the arrays reachable through tuples/lists (what an argument was on entry)."""
    if obj is None:
        return None
    if isinstance(obj, tuple):
        return tuple(_snap(v) for v in obj)
    if isinstance(obj, list):
        return [_snap(v) for v in obj]
    if isinstance(obj, np.ndarray):
        return obj.copy()
    if hasattr(obj, "copy"):
        try:
            return obj.copy()
        except Exception:  # noqa: BLE001
            return obj
    return obj


def _same(a, b):
    """Value equality of arrays / None / tuples of those (shape included, NaN equal to NaN)."""
    if a is b:
        return True
    if a is None or b is None:
        return False
    seq_a, seq_b = isinstance(a, (tuple, list)), isinstance(b, (tuple, list))
    if seq_a or seq_b:
        if not (seq_a and seq_b) or len(a) != len(b):
            return False
        return all(_same(x, y) for x, y in zip(a, b))
    try:
        a, b = np.asarray(a), np.asarray(b)
        if a.shape != b.shape:
            return False
        if a.dtype.kind in "fc" or b.dtype.kind in "fc":
            return bool(np.array_equal(a, b, equal_nan=True))
        return bool(np.array_equal(a, b))
    except Exception:  # noqa: BLE001
        return False


def _same_flat(a, b):
    """Value equality of the element sequences (Vector hands raveled weights to its components)."""
    if a is None or b is None:
        return a is None and b is None
    a, b = np.asarray(a), np.asarray(b)
    return a.size == b.size and bool(np.array_equal(a.ravel(), b.ravel(), equal_nan=True))


def _tup(x):
    return x if isinstance(x, tuple) else (x,)


def _close(got, want, tol):
    """(ok, largest |got-want|/tol); NaN must sit at the same positions."""
    try:
        got = np.asarray(got, dtype="float64")
        want = np.asarray(want, dtype="float64")
    except (TypeError, ValueError):
        return False, np.inf
    if got.shape != want.shape:
        return False, np.inf
    nan_g, nan_w = np.isnan(got), np.isnan(want)
    if (nan_g != nan_w).any():
        return False, np.inf
    fin = ~nan_g
    if not fin.any():
        return True, 0.0
    tol = np.broadcast_to(np.asarray(tol, dtype="float64"), got.shape)
    diff = np.abs(got[fin] - want[fin])
    ratio = float(np.max(diff / tol[fin]))
    return bool((diff <= tol[fin]).all()), ratio


def _absmax(x):
    vals = [np.nanmax(np.abs(np.asarray(v, dtype="float64"))) for v in _tup(x) if np.size(v)]
    vals = [v for v in vals if np.isfinite(v)]
    return float(max(vals)) if vals else 0.0


def _shapes(x):
    if x is None:
        return None
    if isinstance(x, (tuple, list)):
        return [_shapes(v) for v in x]
    return list(np.shape(x))


def _freeze(obj, depth=0):
    """Comparable image of an estimator's constructor parameters (get_params), nested estimators, arrays and callables included."""
    if depth > 8:
        return ("deep",)
    if hasattr(obj, "get_params") and not isinstance(obj, type):
        params = obj.get_params(deep=False)
        if type(obj).__name__ == "VectorSpline2D":
            params = {k: v for k, v in params.items() if k != "force_coords"}  # documented: set by the first fit
        return (type(obj).__name__, tuple((k, _freeze(params[k], depth + 1)) for k in sorted(params)))
    if isinstance(obj, (list, tuple)):
        return (type(obj).__name__,) + tuple(_freeze(v, depth + 1) for v in obj)
    if isinstance(obj, dict):
        return ("dict",) + tuple((str(k), _freeze(obj[k], depth + 1)) for k in sorted(obj, key=str))
    if isinstance(obj, np.ndarray):
        return ("ndarray", obj.dtype.str, obj.shape, obj.tobytes())
    if callable(obj):
        return ("callable", getattr(obj, "__module__", ""), getattr(obj, "__qualname__", repr(obj)))
    return ("value", repr(obj))


def _frozen_diff(a, b, path=""):
    """Where two frozen parameter images differ (path of the first difference)."""
    if a == b:
        return None
    if isinstance(a, tuple) and isinstance(b, tuple) and len(a) == len(b):
        for k, (x, y) in enumerate(zip(a, b)):
            if x != y:
                name = x[0] if (isinstance(x, tuple) and len(x) == 2 and isinstance(x[0], str)) else str(k)
                return _frozen_diff(x, y, path + "/" + name)
    return path or "/"


class _State:
    """Per-case memory of the monitors (kept outside the monitored objects)."""

    def __init__(self):
        self.reset()

    def reset(self):
        self.chain_fitted = {}  # id(chain) -> chain (strong reference for the duration of the case)
        self.vector_fits = {}  # id(vector) -> (vector, fitted clones)
        self.blueprints = {}  # id(chain) -> [chain, unfitted clone taken before its first fit (or after a set_params), parameters after the last fit]


STATE = _State()


# ----------------------------------------------------------------------
# monitors
# ----------------------------------------------------------------------
def install(tap, run):
    import verde
    from sklearn.base import clone
    from verde.base import BaseGridder

    Chain, Vector, BlockReduce, BlockMean = verde.Chain, verde.Vector, verde.BlockReduce, verde.BlockMean
    VectorSpline2D = verde.VectorSpline2D

    def describe(est):
        if isinstance(est, Chain):
            return "Chain[" + ">".join(describe(s) for _, s in est.steps) + "]"
        if isinstance(est, Vector):
            return "Vector(" + ",".join(describe(c) for c in est.components) + ")"
        name = type(est).__name__
        if isinstance(est, work.WarpedGridder):
            return "Warped(" + describe(est.inner) + ")"
        if isinstance(est, work.ThinStep):
            return "Thin%d" % est.keep
        if name == "Trend":
            return "Trend%s" % est.degree
        if name == "BlockReduce":
            return "BlockReduce:" + getattr(est.reduction, "__name__", "?")
        if name == "BlockMean":
            return "BlockMean:" + ("uncertainty" if est.uncertainty else "variance")
        if name == "Spline":
            return "Spline" if est.force_coords is None else "Spline:forces"
        return name

    def kind_of(est):
        if isinstance(est, Chain):
            return "Chain"
        if isinstance(est, Vector):
            return "Vector"
        return type(est).__name__

    def letter(est):
        """Coarse kind of a step: r BlockReduce, m BlockMean, c nested Chain, v Vector, e VectorSpline2D, g scalar gridder; duck-typed (not BaseGridder): L level step (filter+predict), W warped wrapper (fit/filter/predict), T thinning step (filter only)."""
        if isinstance(est, Chain):
            return "c"
        if isinstance(est, BlockMean):
            return "m"
        if isinstance(est, BlockReduce):
            return "r"
        if isinstance(est, Vector):
            return "v"
        if isinstance(est, work.DUCK_CLASSES):
            return {"LevelStep": "L", "WarpedGridder": "W", "ThinStep": "T"}[type(est).__name__]
        return "e" if isinstance(est, VectorSpline2D) else "g"

    def depth_of(est):
        if isinstance(est, Chain):
            return 1 + max([depth_of(s) for _, s in est.steps] + [0])
        if isinstance(est, Vector):
            return max([depth_of(c) for c in est.components] + [0])
        return 0

    def contains(est, cls):
        if isinstance(est, cls):
            return True
        if isinstance(est, Chain):
            return any(contains(s, cls) for _, s in est.steps)
        if isinstance(est, Vector):
            return any(contains(c, cls) for c in est.components)
        if isinstance(est, work.WarpedGridder):
            return contains(est.inner, cls)
        return False

    def predicts(step):
        return hasattr(step, "predict")

    def quiet(fn, *args, **kwargs):
        with warnings.catch_warnings():
            warnings.simplefilter("ignore")
            return fn(*args, **kwargs)

    def entry(ev):
        """Arguments as they were on entry (snapshot) - falls back to the live references."""
        pre = ev.pre or {}
        return tuple(pre.get(k, ev.args.get(k)) for k in ("coordinates", "data", "weights"))

    def pre_snapshot(ev):
        pre = {k: _snap(ev.args.get(k)) for k in ("coordinates", "data", "weights") if k in ev.args}
        obj = ev.obj
        if ev.parent is not None:
            return pre  # nested calls: the parameters of every nested step are part of the image taken at the enclosing root call
        if ev.name.endswith(".filter") or isinstance(obj, (Chain, Vector)):
            pre["params"] = _freeze(obj)
        if isinstance(obj, Chain) and ev.name.endswith(".fit"):
            # the reference for histories: an unfitted clone taken BEFORE this object's first fit; renewed only when the user
            # changed parameters between fits (set_params on the chain or on a step it holds)
            rec = STATE.blueprints.get(id(obj))
            if rec is None or rec[0] is not obj:
                STATE.blueprints[id(obj)] = [obj, clone(obj), None]
            elif rec[2] is not None and rec[2] != pre["params"]:
                rec[1] = clone(obj)
                run.count("history:parameters_changed_between_fits")
        return pre

    def check_params(ev, label):
        """Constructor parameters (get_params, nested steps/components included) must be what they were before fit / filter."""
        before = (ev.pre or {}).get("params")
        if before is None:
            return True
        after = _freeze(ev.obj)
        run.evaluated("params_unchanged")
        if after != before:
            where = _frozen_diff(before, after)
            run.violation("params_unchanged", "%s changed the constructor parameters of %s (at %s)" % (label, describe(ev.obj), where),
                          {"estimator": describe(ev.obj), "where": where, "parameters_now": repr(ev.obj.get_params(deep=False))[:1500]},
                          key="params:" + label)
            return False
        return True

    def report(monitor, problems, witness):
        for key, message in problems[:2]:
            run.violation(monitor, message, witness, key=key)

    def sum_tolerance(terms, eps=EPS):
        total = 0.0
        for term in terms:
            total = total + np.abs(np.nan_to_num(np.asarray(term, dtype="float64").ravel(), nan=0.0, posinf=0.0, neginf=0.0))
        return 64 * eps * total + TINY

    def working_eps(raw_terms, label):
        """
        float64 eps, unless one of the *operands the code was given* (a step's prediction, a residual it received) is itself a narrower
        float: numpy then computes in that precision and the term carries no more information. Counted as either-way, never silently.
        Integer and float64 operands (and narrow *data* with float64 predictions) leave the float64 tolerance in force.
        """
        eps = EPS
        for term in raw_terms:
            dtype = np.asarray(term).dtype
            if dtype.kind == "f" and dtype.itemsize < 8:
                eps = max(eps, float(np.finfo(dtype).eps))
        if eps > EPS:
            run.count("either_way:%s:narrow_float_operand" % label)
        return eps

    def dtype_class(data):
        kinds = sorted(set(str(np.asarray(d).dtype) for d in _tup(data)))
        if len(kinds) > 1:
            run.seen("mixed_dtype_combinations", "+".join(kinds))
            return "mixed"
        return kinds[0]

    def count_size(label, n):
        """Size classes above the thresholds where chunked code paths could start (never reached by the small random compositions)."""
        for threshold in (50000, 100000, 131072):
            if n > threshold:
                run.count("%s_points:gt%d" % (label, threshold))
        if n > 50000 and n % 50000:
            run.count("%s_points:large_not_multiple_of_50000" % label)

    def integer_coordinates(coords):
        return any(np.asarray(c).dtype.kind in "iu" for c in coords[:2])

    # -- filter of a gridder ------------------------------------------------
    def prediction_of(ev, obj, coords):
        """The prediction the filter/step used: its own predict child (after its last fit) at these coordinates."""
        # descendants, not children: a filter may delegate to super().filter (the own fit / predict are then one level deeper)
        inner = [k for k in ev.descendants() if k.obj is obj]
        fit_seq = [k.seq for k in inner if k.name.endswith(".fit")]
        preds = [k for k in inner if k.name.endswith(".predict") and k.exc is None and (not fit_seq or k.seq > max(fit_seq))]
        if len(preds) == 1 and _same(preds[0].args.get("coordinates"), coords):
            return preds[0].result, "event"
        run.count("filter:prediction_recomputed")
        return quiet(obj.predict, coords), "recomputed"

    def post_filter_gridder(ev):
        obj = ev.obj
        if ev.exc is not None:
            run.count("raised:filter:%s:%s" % (kind_of(obj), type(ev.exc).__name__))
            return
        coords, data, weights = entry(ev)
        check_params(ev, "filter")
        problems = []
        fits = [k for k in ev.descendants() if k.obj is obj and k.name.endswith(".fit")]  # a filter may delegate to super().filter
        if not hasattr(obj, "fit"):
            run.count("filter:step_without_fit_method")  # duck-typed filter+predict step: only its outputs are judged
        elif not fits:
            problems.append(("filter:not_fitted", "filter did not fit the estimator it belongs to"))
        else:
            if len(fits) > 1:
                run.count("filter:fitted_more_than_once")
            fc, fd, fw = entry(fits[-1])
            if not _same(fc, coords):
                problems.append(("filter:fit_coordinates", "the estimator was fitted on other coordinates than filter received"))
            if not _same(fd, data):
                problems.append(("filter:fit_data", "the estimator was fitted on other data than filter received"))
            if not _same(fw, weights):
                problems.append(("filter:fit_weights", "the estimator was fitted with other weights than filter received (given: %s, fitted with: %s)"
                                 % (_shapes(weights), _shapes(fw))))
        res = ev.result
        info = {}
        if not isinstance(res, tuple) or len(res) != 3:
            problems.append(("filter:arity", "filter must return (coordinates, residuals, weights)"))
        else:
            r_coords, r_data, r_weights = res
            if not _same(r_coords, coords):
                problems.append(("filter:coordinates", "filter did not return the coordinates it was given"))
            if not _same(r_weights, weights):
                problems.append(("filter:weights", "filter did not return the weights it was given (given %s, returned %s)"
                                 % (_shapes(weights), _shapes(r_weights))))
            pred, how = prediction_of(ev, obj, coords)
            data_t, pred_t, res_t = _tup(data), _tup(pred), _tup(r_data)
            info = {"prediction_from": how, "data_shapes": _shapes(data_t), "residual_shapes": _shapes(res_t)}
            if isinstance(r_data, tuple) != (isinstance(data, tuple) and len(data) > 1) and not (isinstance(data, tuple) and len(data) == 1):
                problems.append(("filter:container", "residuals are %s for data given as %s" % (type(r_data).__name__, type(data).__name__)))
            elif len(res_t) != len(data_t) or len(pred_t) < len(data_t):
                problems.append(("filter:components", "%d data components, %d predicted, %d residual components" % (len(data_t), len(pred_t), len(res_t))))
            else:
                for i, (d, p, r) in enumerate(zip(data_t, pred_t, res_t)):
                    if np.shape(r) != np.shape(d):
                        problems.append(("filter:shape", "residual component %d has shape %s, the data has %s" % (i, np.shape(r), np.shape(d))))
                        break
                    if np.size(p) != np.size(d):
                        problems.append(("filter:prediction_size", "prediction of size %d for data of size %d" % (np.size(p), np.size(d))))
                        break
                    d64 = np.asarray(d, dtype="float64")
                    p64 = np.asarray(p, dtype="float64").reshape(d64.shape)
                    # reference: float64(data) - float64(prediction); float64 tolerance unless data AND prediction are both narrow floats
                    promoted = np.result_type(np.asarray(d).dtype, np.asarray(p).dtype)
                    eps = working_eps([np.zeros(0, dtype=promoted)], "filter")
                    ok, ratio = _close(r, d64 - p64, sum_tolerance([d64, p64], eps).reshape(d64.shape))
                    run.observe_max("filter_residual_error_over_tolerance", ratio)
                    if np.isnan(p64).any():
                        run.count("nan_prediction:filter")
                    if not ok:
                        wrong_sign, _ = _close(r, p64 - d64, sum_tolerance([d64, p64], eps).reshape(d64.shape))
                        problems.append(("filter:residual", "residual component %d is not data - prediction (error/tolerance %.3g%s)"
                                         % (i, ratio, "; it is prediction - data" if wrong_sign else "")))
                        break
        run.evaluated("filter")
        run.count("filter_of:" + kind_of(obj))
        run.count("filter_data_dtype:" + dtype_class(data))
        count_size("filter", np.size(_tup(data)[0]))
        if integer_coordinates(coords):
            run.count("filter_coordinates:integer")
        if np.ndim(_tup(data)[0]) >= 2:
            run.count("filter:2d_data")
        if len(coords) > 2:
            run.count("filter:extra_coordinates")
        if problems:
            report("filter", problems, {"estimator": describe(obj), "coordinates": coords, "data": data, "weights": weights,
                                         "returned": res, "children": [k.name for k in ev.children], "info": info})
        else:
            run.sample("filter", {"estimator": describe(obj), "data_shapes": _shapes(data), "weights": _shapes(weights),
                                  "n_coordinates": len(coords), "compared": "returned coordinates/weights with the given ones; residual with data - own prediction", "info": info})

    # -- filter of a block reduction (only its interface to the next step) ----
    def post_filter_reduce(ev):
        obj = ev.obj
        if ev.exc is not None:
            run.count("raised:filter:%s:%s" % (type(obj).__name__, type(ev.exc).__name__))
            return
        coords, data, weights = entry(ev)
        res = ev.result
        problems = []
        want = 3 if isinstance(obj, BlockMean) else 2
        if not isinstance(res, tuple) or len(res) != want:
            problems.append(("reduction:arity", "%s.filter must return %d items" % (type(obj).__name__, want)))
        else:
            ncomp = len(_tup(data))
            r_coords = res[0]
            n_coords = 2 if obj.drop_coords else len(coords)
            sizes = set(np.size(c) for c in r_coords)
            if len(r_coords) != n_coords or len(sizes) != 1:
                problems.append(("reduction:coordinates", "%d reduced coordinate arrays of sizes %s" % (len(r_coords), sorted(sizes))))
            else:
                n_blocks = sizes.pop()
                for part, label in zip(res[1:], ("data", "weights")):
                    part_t = _tup(part)
                    if isinstance(part, tuple) != (ncomp > 1) or len(part_t) != ncomp:
                        problems.append(("reduction:components", "reduced %s has %d components for %d data components" % (label, len(part_t), ncomp)))
                    elif any(np.shape(v) != (n_blocks,) for v in part_t):
                        problems.append(("reduction:length", "reduced %s shapes %s for %d blocks" % (label, _shapes(part_t), n_blocks)))
                if not 1 <= n_blocks <= np.size(_tup(data)[0]):
                    problems.append(("reduction:count", "%d blocks from %d points" % (n_blocks, np.size(_tup(data)[0]))))
                elif not problems:
                    problems.extend(blocks_on_own_region(obj, coords, r_coords, n_blocks))
        check_params(ev, "filter")
        run.evaluated("reduction_filter")
        run.count("filter_of:" + type(obj).__name__)
        if problems:
            report("reduction_filter", problems, {"estimator": describe(obj), "coordinates": coords, "data": data, "weights": weights, "returned": res})

    def blocks_on_own_region(obj, coords, r_coords, n_blocks):
        """
        The blocks of THIS call lie on the region of THIS call's points (their bounding box when the reduction has no region): the
        number of block values equals the number of occupied cells of that partition (own arithmetic; points within 1e-9 of a cell
        edge or a rounding tie of the cell count make the case either-way) and the reduced coordinates stay inside that region.
        """
        east = np.asarray(coords[0], dtype="float64").ravel()
        north = np.asarray(coords[1], dtype="float64").ravel()
        region = obj.region
        label = "explicit_region" if region is not None else "own_bounding_box"
        if region is None:
            region = (east.min(), east.max(), north.min(), north.max())
        w, e, s, n = (float(v) for v in region)
        if east.min() < w or east.max() > e or north.min() < s or north.max() > n:
            run.count("skipped:reduction_blocks:points_outside_explicit_region")
            return []
        if obj.shape is not None:
            n_north, n_east = int(obj.shape[0]), int(obj.shape[1])
        else:
            spacing = np.atleast_1d(obj.spacing).astype("float64")
            sp_n, sp_e = (spacing[0], spacing[0]) if spacing.size == 1 else (spacing[0], spacing[1])
            q_e, q_n = (e - w) / sp_e, (n - s) / sp_n
            if min(abs(q - np.floor(q) - 0.5) for q in (q_e, q_n)) < 1e-6:
                run.count("either_way:reduction_blocks:cell_count_tie")
                return []
            n_east, n_north = max(int(np.floor(q_e + 0.5)), 1), max(int(np.floor(q_n + 0.5)), 1)
            if obj.adjust == "region":
                e, n = w + n_east * sp_e, s + n_north * sp_n
        width, height = (e - w) / n_east, (n - s) / n_north
        if not (width > 0 and height > 0):
            run.count("skipped:reduction_blocks:degenerate_region")
            return []
        # an extent of a few ulp of the coordinates (all points share one easting up to round-off): cell positions are then
        # decided by the rounding of the coordinates themselves, not by the partition - either-way, like a point on a cell edge
        tiny = float(np.finfo("float64").eps) * 1e7
        if width < tiny * max(abs(w), abs(e)) or height < tiny * max(abs(s), abs(n)):
            run.count("either_way:reduction_blocks:extent_at_round_off_of_the_coordinates")
            return []
        fe, fn = (east - w) / width, (north - s) / height
        near = (np.abs(fe - np.round(fe)) < 1e-9 * max(1.0, n_east)) & (np.round(fe) > 0) & (np.round(fe) < n_east)
        near |= (np.abs(fn - np.round(fn)) < 1e-9 * max(1.0, n_north)) & (np.round(fn) > 0) & (np.round(fn) < n_north)
        if near.any():
            run.count("either_way:reduction_blocks:point_on_cell_edge")
            return []
        ie = np.clip(np.floor(fe).astype(int), 0, n_east - 1)
        jn = np.clip(np.floor(fn).astype(int), 0, n_north - 1)
        expected = len(set((jn * n_east + ie).tolist()))
        run.evaluated("reduction_blocks_on_own_region")
        run.count("reduction_region:" + label)
        out = []
        if n_blocks != expected:
            out.append(("reduction:blocks", "%d block values, but the %dx%d partition of this call's region %s has %d occupied cells (%s)"
                        % (n_blocks, n_north, n_east, [w, e, s, n], expected, label)))
        else:
            margin_e, margin_n = 1e-9 * max(abs(w), abs(e), e - w), 1e-9 * max(abs(s), abs(n), n - s)
            re, rn = np.asarray(r_coords[0], dtype="float64"), np.asarray(r_coords[1], dtype="float64")
            if re.min() < w - margin_e or re.max() > e + margin_e or rn.min() < s - margin_n or rn.max() > n + margin_n:
                out.append(("reduction:coordinates_outside", "reduced coordinates leave the region %s of this call's points" % [w, e, s, n]))
        return out

    def post_filter_passthrough(ev):
        """A harness-defined filter-only step (no predict): nothing of verde's to judge, but its call is part of the chain's tree."""
        if ev.exc is None:
            run.count("filter_of:" + type(ev.obj).__name__)

    def post_filter(ev):
        if isinstance(ev.obj, BlockReduce):
            post_filter_reduce(ev)
        elif not predicts(ev.obj):
            post_filter_passthrough(ev)
        else:
            post_filter_gridder(ev)

    # -- Chain.fit ------------------------------------------------------------
    def flow_of(filt):
        out = []
        for k in filt:
            c, d, w = entry(k)
            n_in = int(np.size(_tup(d)[0]))
            res = k.result if isinstance(k.result, tuple) else ()
            n_out = int(np.size(_tup(res[1])[0])) if len(res) > 1 else None
            out.append({"step": describe(k.obj), "points_in": n_in, "points_out": n_out, "weights_in": w is not None,
                        "weights_out": (len(res) > 2 and res[2] is not None)})
        return out

    def post_chain_fit(ev):
        chain = ev.obj
        desc = describe(chain)
        if ev.exc is not None:
            run.count("raised:Chain.fit:" + type(ev.exc).__name__)
            return
        steps = [s for _, s in chain.steps]
        names = [str(nm) for nm, _ in chain.steps]
        given = entry(ev)
        check_params(ev, "fit")
        filt = [k for k in ev.children if k.name.endswith(".filter")]
        witness = {"chain": desc, "step_names": names, "coordinates": given[0], "data": given[1], "weights": given[2],
                   "filter_calls": [describe(k.obj) for k in filt]}
        if len(names) >= 2:
            run.count("chain_names:%s" % ("all_equal" if len(set(names)) == 1 else "some_repeated" if len(set(names)) < len(names) else "unique"))
            if len(set(names)) < len(names) and sum(predicts(s) for nm, s in chain.steps if names.count(str(nm)) > 1) >= 2:
                run.count("chain_names:repeated_among_predicting_steps")
        for nm, s in chain.steps:
            if isinstance(s, Chain) and (set(str(x) for x, _ in s.steps) & set(names)):
                run.count("chain_names:shared_with_nested_chain")
                break
        # (1) exactly one filter per step, in list order
        run.evaluated("chain_fit_order")
        order_ok = len(filt) == len(steps) and all(k.obj is s for k, s in zip(filt, steps))
        if not order_ok:
            report("chain_fit_order", [("chain:order", "filter calls %s do not match the steps %s one to one in order"
                                        % ([describe(k.obj) for k in filt], [describe(s) for s in steps]))], witness)
        ncomp = len(_tup(given[1]))
        run.count("chain_len:%d" % len(steps))
        run.count("chain_components:%d" % ncomp)
        run.count("chain_weights:%s" % ("given" if given[2] is not None else "none"))
        run.count("chain_data_dtype:" + dtype_class(given[1]))
        count_size("chain_fit", np.size(_tup(given[1])[0]))
        first_pred = [k for k, s in enumerate(steps) if predicts(s)]
        if first_pred and first_pred[0] < len(steps) - 1:
            run.count("chain_predicting_step_followed:data_dtype:" + dtype_class(given[1]))
        if integer_coordinates(given[0]):
            run.count("chain_coordinates:integer")
        if ev.parent is not None:
            run.count("chain_fit:nested")
        if np.ndim(_tup(given[1])[0]) >= 2:
            run.count("chain_fit:2d_data")
        run.seen("chain_shapes", desc)
        run.seen("chain_patterns_nested" if ev.parent is not None else ("chain_patterns_scalar" if ncomp == 1 else "chain_patterns_multicomponent"),
                 ">".join(letter(s) for s in steps))
        run.count("chain_nesting_depth:%d" % depth_of(chain))
        for s in steps:
            run.seen("step_kinds", kind_of(s))
        for k, s in enumerate(steps):
            if isinstance(s, work.DUCK_CLASSES):
                where = "only" if len(steps) == 1 else "first" if k == 0 else "last" if k == len(steps) - 1 else "middle"
                run.count("duck_step:%s:%s" % (type(s).__name__, where))
                run.count("duck_step:position:" + where)
                run.count("duck_step:class:" + type(s).__name__)
                if ev.parent is not None:
                    run.count("duck_step:in_nested_chain")
        if len(steps) >= 2 and any(predicts(s) for s in steps):
            run.mark_nontrivial("chain", desc, given[1], given[2])
        if not order_ok:
            remember_chain(chain, ev, given, desc)
            return
        # (2) threading: step k receives exactly what step k-1 returned
        problems = []
        for k, kid in enumerate(filt):
            got = entry(kid)
            if k == 0:
                expect = given
                src = "the chain's arguments"
            else:
                prev = filt[k - 1].result
                if not isinstance(prev, tuple) or len(prev) not in (2, 3):
                    break
                expect = tuple(prev) + (None,) * (3 - len(prev))
                src = "what step %d (%s) returned" % (k - 1, describe(steps[k - 1]))
            for name, g, e in zip(("coordinates", "data", "weights"), got, expect):
                if not _same(g, e):
                    problems.append(("chain:thread:" + name, "step %d (%s) received %s %s, not %s %s"
                                     % (k, describe(steps[k]), name, _shapes(g), src, _shapes(e))))
            if k > 0 and isinstance(steps[k - 1], BlockReduce):
                run.count("thread_after:%s:weights_%s" % (type(steps[k - 1]).__name__, "none" if got[2] is None else "given"))
                if entry(filt[k - 1])[2] is not None:
                    run.count("weights_live_at_reduction:%s" % type(steps[k - 1]).__name__)
            if k > 0 and predicts(steps[k - 1]):
                # through a predicting step the weights travel unchanged, whether or not that step uses them (KNeighbors, Linear, level step)
                before = entry(filt[k - 1])[2]
                if not _same(got[2], before):
                    problems.append(("chain:thread:weights_through_step", "step %d (%s) received weights %s, but the preceding predicting step %s was given %s"
                                     % (k, describe(steps[k]), _shapes(got[2]), describe(steps[k - 1]), _shapes(before))))
                if before is not None and type(steps[k - 1]).__name__ in ("KNeighbors", "Linear", "Cubic", "LevelStep"):
                    run.count("weights_threaded_past_weight_ignoring_step")
                    if type(steps[k]).__name__ in ("Trend", "Spline", "BlockMean", "BlockReduce"):
                        run.count("weights_threaded_past_weight_ignoring_step:into_weight_using_step")
        run.evaluated("chain_threading")
        if problems:
            witness["flow"] = flow_of(filt)
            report("chain_threading", problems, witness)
        # (3) conservation over the steps after the last reduction
        reductions = [k for k, s in enumerate(steps) if not predicts(s)]  # block reductions and duck-typed filter-only steps
        last_red = reductions[-1] if reductions else -1
        seg = filt[last_red + 1:]
        seg_steps = steps[last_red + 1:]
        usable = bool(seg) and all(predicts(s) for s in seg_steps) and all(isinstance(k.result, tuple) and len(k.result) == 3 for k in seg)
        if usable:
            c_in, d_in, _ = entry(seg[0])
            resid = seg[-1].result[1]
            d_t, r_t = _tup(d_in), _tup(resid)
            preds = []
            for k in seg:
                own = [c for c in k.descendants() if c.obj is k.obj and c.name.endswith(".predict") and c.exc is None]
                if not own:
                    preds = None
                    break
                preds.append(_tup(own[-1].result))
            if preds is not None and len(r_t) == len(d_t) and all(len(p) >= len(d_t) for p in preds) and \
                    all(np.shape(r) == np.shape(d) for r, d in zip(r_t, d_t)) and all(np.size(p[i]) == np.size(d_t[i]) for p in preds for i in range(len(d_t))):
                run.evaluated("conservation_events")
                for i, d in enumerate(d_t):
                    d64 = np.asarray(d, dtype="float64")
                    terms = [np.asarray(p[i], dtype="float64").reshape(d64.shape) for p in preds]
                    r64 = np.asarray(r_t[i], dtype="float64")
                    total = r64
                    for t in reversed(terms):
                        total = total + t
                    undefined = np.isnan(total) & ~np.isnan(d64)  # a step predicted NaN there (Linear/Cubic on the hull): nothing to conserve
                    if undefined.any():
                        run.count("nan_prediction:conservation_positions_excluded", int(undefined.sum()))
                    eps = working_eps([p[i] for p in preds] + [r_t[i]], "conservation_events")
                    ok, ratio = _close(np.where(undefined, d64, total), d64, sum_tolerance(terms + [r64, d64], eps).reshape(d64.shape))
                    run.observe_max("conservation_error_over_tolerance", ratio)
                    if not ok:
                        report("conservation_events", [("chain:conservation", "component %d: predictions of steps %d.. at the data + last residual != data entering them (error/tolerance %.3g)"
                                                        % (i, last_red + 1, ratio))], dict(witness, flow=flow_of(filt), segment_data=d_in, last_residual=resid))
                        break
            else:
                run.count("skipped:conservation_events_unusable_tree")
            if not any(predicts(s) for s in steps[:last_red + 1]):
                try:
                    total_pred = _tup(quiet(chain.predict, c_in))
                except Exception as exc:  # noqa: BLE001 - only normal returns are judged; the raise is counted, the workload meets it too
                    run.count("skipped:conservation_predict:chain.predict_raised:" + type(exc).__name__)
                    remember_chain(chain, ev, given, desc)
                    return
                run.evaluated("conservation_predict")
                bad = None
                if len(total_pred) != len(d_t) or len(r_t) != len(d_t):
                    bad = "chain.predict returned %d components for %d data components" % (len(total_pred), len(d_t))
                else:
                    for i, d in enumerate(d_t):
                        d64 = np.asarray(d, dtype="float64")
                        if np.size(total_pred[i]) != d64.size or np.shape(r_t[i]) != d64.shape:
                            bad = "component %d: prediction/residual shape does not match the data" % i
                            break
                        p64 = np.asarray(total_pred[i], dtype="float64").reshape(d64.shape)
                        r64 = np.asarray(r_t[i], dtype="float64")
                        # the prediction is itself a sum of the steps' predictions: bound its terms by |d| + |r| + |p|
                        extra = [np.asarray(p[i], dtype="float64").reshape(d64.shape) for p in (preds or []) if np.size(p[i]) == d64.size]
                        undefined = (np.isnan(p64) | np.isnan(r64)) & ~np.isnan(d64)
                        if undefined.any():
                            run.count("nan_prediction:predict_plus_residual_positions_excluded", int(undefined.sum()))
                        eps = working_eps([total_pred[i], r_t[i]] + [p[i] for p in (preds or [])], "conservation_predict")
                        ok, ratio = _close(np.where(undefined, d64, p64 + r64), d64, sum_tolerance([p64, r64, d64] + extra, eps).reshape(d64.shape))
                        run.observe_max("chain_predict_plus_residual_error_over_tolerance", ratio)
                        if not ok:
                            bad = "component %d: chain.predict at the data + last step's residual != data (error/tolerance %.3g)" % (i, ratio)
                            break
                if bad:
                    report("conservation_predict", [("chain:predict_plus_residual", bad)],
                           dict(witness, flow=flow_of(filt), segment_data=d_in, last_residual=resid, chain_prediction=total_pred))
                else:
                    run.sample("chain_fit", {"chain": desc, "flow": flow_of(filt), "components": ncomp, "data_shapes": _shapes(given[1]),
                                             "compared": "per-step inputs with the previous step's outputs; sum of step predictions + last residual with the data entering the post-reduction steps; chain.predict there + last residual with that data"})
            else:
                run.count("conservation_predict:not_applicable_prediction_before_reduction")
        else:
            run.count("skipped:conservation_no_predicting_tail")
        remember_chain(chain, ev, given, desc)

    def remember_chain(chain, ev, given, desc):
        """(4) history: a chain object fitted again must equal a fresh clone fitted once on the same input."""
        before = STATE.chain_fitted.get(id(chain))
        STATE.chain_fitted[id(chain)] = chain
        rec = STATE.blueprints.get(id(chain))
        if rec is not None and rec[0] is chain:
            rec[2] = _freeze(chain)
        if before is not chain:
            return
        if contains(chain, VectorSpline2D):
            run.count("skipped:refit_documented_history(VectorSpline2D)")
            return
        # the reference is a clone of the blueprint taken before the FIRST fit (a clone of the fitted object would inherit
        # whatever a fit wrote into constructor parameters)
        blueprint = rec[1] if rec is not None and rec[0] is chain else chain
        fresh = quiet(lambda: clone(blueprint).fit(*given))
        if any(isinstance(s, BlockReduce) and s.region is None for _, s in chain.steps):
            run.count("history:refit_with_regionless_reduction")
        at = given[0]
        try:
            old_p, new_p = _tup(quiet(chain.predict, at)), _tup(quiet(fresh.predict, at))
        except Exception as exc:  # noqa: BLE001
            run.count("skipped:refit:predict_raised:" + type(exc).__name__)
            return
        run.evaluated("refit_equals_fresh")
        scale = max(_absmax(given[1]), _absmax(new_p), TINY)
        bad = None
        if len(old_p) != len(new_p):
            bad = "component counts differ"
        else:
            for i, (o, n) in enumerate(zip(old_p, new_p)):
                ok, ratio = _close(o, n, 1e-9 * scale)
                run.observe_max("refit_error_over_tolerance", ratio)
                if not ok:
                    bad = "component %d: the refitted chain predicts differently from a fresh clone fitted on the same data (error/tolerance %.3g)" % (i, ratio)
                    break
        if bad:
            report("refit_equals_fresh", [("chain:refit", bad)], {"chain": desc, "coordinates": given[0], "data": given[1], "weights": given[2],
                                                                  "refitted_prediction": old_p, "fresh_prediction": new_p})
        else:
            run.sample("refit", {"chain": desc, "data_shapes": _shapes(given[1]), "compared": "prediction at the data of the refitted object with a fresh clone fitted once"})

    # -- Chain.predict ----------------------------------------------------------
    def post_chain_predict(ev):
        chain = ev.obj
        if ev.exc is not None:
            run.count("raised:Chain.predict:" + type(ev.exc).__name__)
            return
        coords = ev.args.get("coordinates")
        steps = [s for _, s in chain.steps if predicts(s)]
        kids = [k for k in ev.children if k.name.endswith(".predict")]
        desc = describe(chain)
        problems = []
        if len(kids) != len(steps) or any(k.obj is not s for k, s in zip(kids, steps)):
            problems.append(("chain_predict:calls", "predict calls %s do not match the predicting steps %s one to one in order"
                             % ([describe(k.obj) for k in kids], [describe(s) for s in steps])))
        elif any(not _same(k.args.get("coordinates"), coords) for k in kids):
            problems.append(("chain_predict:coordinates", "a step was asked to predict at other coordinates than the chain"))
        else:
            parts = [_tup(k.result) for k in kids]
            ncomp = len(parts[0])
            res = ev.result
            res_t = _tup(res)
            if any(len(p) != ncomp for p in parts):
                run.count("skipped:chain_predict_mixed_component_counts")
            elif isinstance(res, tuple) != (ncomp > 1) or len(res_t) != ncomp:
                problems.append(("chain_predict:components", "%d components returned, the steps predict %d" % (len(res_t), ncomp)))
            else:
                for i in range(ncomp):
                    terms = [np.asarray(p[i], dtype="float64") for p in parts]
                    total = terms[0]
                    for t in terms[1:]:
                        total = total + t
                    eps = working_eps([p[i] for p in parts], "chain_predict_sum")
                    ok, ratio = _close(res_t[i], total, sum_tolerance(terms, eps).reshape(np.shape(total)))
                    run.observe_max("chain_predict_sum_error_over_tolerance", ratio)
                    if not ok:
                        problems.append(("chain_predict:sum", "component %d is not the sum of the %d step predictions (error/tolerance %.3g)" % (i, len(terms), ratio)))
                        break
        run.evaluated("chain_predict_sum")
        run.count("chain_predict:steps_summed:%d" % len(steps))
        count_size("chain_predict", np.size(_tup(coords)[0]) if coords is not None else 0)
        if any(isinstance(s, work.DUCK_CLASSES) for s in steps):
            run.count("chain_predict:sum_includes_duck_typed_step")
            if len(steps) >= 2:
                run.count("chain_predict:sum_of_duck_typed_and_other_steps")
        if ev.parent is not None:
            run.count("chain_predict:nested")
        if problems:
            report("chain_predict_sum", problems, {"chain": desc, "coordinates": coords, "returned": ev.result,
                                                   "step_predictions": [k.result for k in kids]})
        elif len(steps) >= 2:
            run.sample("chain_predict", {"chain": desc, "steps_summed": len(steps), "coordinate_shapes": _shapes(coords),
                                         "compared": "returned arrays with the sum of the recorded step predictions"})

    # -- Vector.fit / Vector.predict ----------------------------------------------
    def post_vector_fit(ev):
        vec = ev.obj
        if ev.exc is not None:
            run.count("raised:Vector.fit:" + type(ev.exc).__name__)
            return
        comps = list(vec.components)
        coords, data, weights = entry(ev)
        check_params(ev, "fit")
        desc = describe(vec)
        kids = [k for k in ev.children if k.name.endswith(".fit")]
        problems = []
        witness = {"vector": desc, "coordinates": coords, "data": data, "weights": weights, "fit_calls": [describe(k.obj) for k in kids]}
        if not isinstance(data, tuple) or len(data) != len(comps) or (weights is not None and len(weights) != len(comps)):
            run.count("skipped:vector_component_count_mismatch")
            return
        if len(kids) != len(comps) or any(k.obj is not c for k, c in zip(kids, comps)):
            problems.append(("vector:calls", "fit calls %s do not match the components %s one to one in order" % ([describe(k.obj) for k in kids], [describe(c) for c in comps])))
        else:
            for i, kid in enumerate(kids):
                kc, kd, kw = entry(kid)
                if not _same(kc, coords):
                    problems.append(("vector:coordinates", "component %d was fitted on other coordinates" % i))
                if not _same(kd, data[i]):
                    others = [j for j in range(len(data)) if j != i and _same(kd, data[j])]
                    problems.append(("vector:data", "component %d was not fitted on data[%d]%s" % (i, i, " but on data[%d]" % others[0] if others else "")))
                want_w = None if weights is None else weights[i]
                if not _same_flat(kw, want_w):
                    others = [] if weights is None else [j for j in range(len(weights)) if j != i and _same_flat(kw, weights[j])]
                    problems.append(("vector:weights", "component %d was not fitted with weights[%d]%s"
                                     % (i, i, " but with weights[%d]" % others[0] if others else (" (got %s)" % _shapes(kw)))))
        run.evaluated("vector_routing")
        distinct = all(not _same(data[i], data[j]) for i in range(len(data)) for j in range(i))
        run.count("vector_components:%d" % len(comps))
        count_size("vector_fit", np.size(data[0]))
        run.count("vector_weights:%s" % ("given" if weights is not None else "none"))
        if weights is not None and len(weights) >= 2:
            kinds = ["int" if np.asarray(w).dtype.kind in "iub" else "float" for w in weights]
            if len(set(kinds)) > 1:
                fractional = any(k == "float" and np.any(np.asarray(w) % 1 != 0) for k, w in zip(kinds, weights))
                run.count("vector_weights_dtype:%s_first_mixed%s" % (kinds[0], ":fractional_floats" if fractional else ""))
        if isinstance(data, tuple) and len(set(np.asarray(d).dtype.kind in "iub" for d in data)) > 1:
            run.count("vector_data_dtype:%s_first_mixed" % ("int" if np.asarray(data[0]).dtype.kind in "iub" else "float"))
        run.seen("vector_shapes", desc)
        if ev.parent is not None:
            run.count("vector_fit:nested")
        if distinct:
            run.mark_nontrivial("vector", desc, data, weights)
        if problems:
            report("vector_routing", problems, witness)
            STATE.vector_fits.pop(id(vec), None)
            return
        # fresh clones of the components fitted separately by the harness on data[i], weights[i]
        clones = []
        for i, comp in enumerate(comps):
            fresh = clone(comp)
            quiet(fresh.fit, coords, data[i], None if weights is None else weights[i])
            clones.append(fresh)
        STATE.vector_fits[id(vec)] = (vec, clones)
        if contains(vec, VectorSpline2D):
            return
        try:
            got = quiet(vec.predict, coords)
        except Exception as exc:  # noqa: BLE001 - only normal returns are judged; the workload meets the raise itself
            run.count("skipped:vector_vs_separate:predict_raised:" + type(exc).__name__)
            return
        compare_with_clones("vector_vs_separate", vec, desc, clones, coords, got, data, witness)

    def compare_with_clones(monitor, vec, desc, clones, coords, got, data, witness):
        run.evaluated(monitor)
        bad = None
        if not isinstance(got, tuple) or len(got) != len(clones):
            bad = "prediction is not a tuple with one array per component"
        else:
            for i, fresh in enumerate(clones):
                try:
                    want = quiet(fresh.predict, coords)
                except Exception as exc:  # noqa: BLE001
                    run.count("skipped:vector_vs_separate:clone_predict_raised:" + type(exc).__name__)
                    return
                scale = max(_absmax(want), _absmax(data[i]) if data is not None else 0.0, TINY)
                ok, ratio = _close(got[i], want, 1e-9 * scale)
                run.observe_max("vector_vs_separate_error_over_tolerance", ratio)
                if not ok:
                    bad = "component %d differs from the same estimator fitted separately on data[%d], weights[%d] (error/tolerance %.3g)" % (i, i, i, ratio)
                    witness = dict(witness, component=i, vector_prediction=got[i], separate_prediction=want)
                    break
        if bad:
            report(monitor, [("vector:separate", bad)], witness)
        else:
            run.sample(monitor, {"vector": desc, "coordinate_shapes": _shapes(coords),
                                 "compared": "each component of the vector's prediction with a clone of that component fitted by the harness on data[i], weights[i] alone"})

    def post_vector_predict(ev):
        vec = ev.obj
        if ev.exc is not None:
            run.count("raised:Vector.predict:" + type(ev.exc).__name__)
            return
        comps = list(vec.components)
        coords = ev.args.get("coordinates")
        kids = [k for k in ev.children if k.name.endswith(".predict")]
        desc = describe(vec)
        res = ev.result
        problems = []
        if len(kids) != len(comps) or any(k.obj is not c for k, c in zip(kids, comps)):
            problems.append(("vector_predict:calls", "predict calls %s do not match the components %s" % ([describe(k.obj) for k in kids], [describe(c) for c in comps])))
        elif any(not _same(k.args.get("coordinates"), coords) for k in kids):
            problems.append(("vector_predict:coordinates", "a component was asked to predict at other coordinates than the vector"))
        elif not isinstance(res, tuple) or len(res) != len(comps):
            problems.append(("vector_predict:components", "the prediction is not a tuple with one entry per component"))
        else:
            for i, kid in enumerate(kids):
                if not _same(res[i], kid.result):
                    problems.append(("vector_predict:routing", "result[%d] is not the prediction of component %d" % (i, i)))
                    break
        run.evaluated("vector_predict")
        if problems:
            report("vector_predict", problems, {"vector": desc, "coordinates": coords, "returned": res, "component_predictions": [k.result for k in kids]})
            return
        rec = STATE.vector_fits.get(id(vec))
        if rec is not None and rec[0] is vec and not contains(vec, VectorSpline2D):
            compare_with_clones("vector_vs_separate", vec, desc, rec[1], coords, res, None, {"vector": desc, "coordinates": coords, "returned": res})

    def post_fit(ev):
        if isinstance(ev.obj, Chain):
            post_chain_fit(ev)
        elif isinstance(ev.obj, Vector):
            post_vector_fit(ev)

    def post_predict(ev):
        if isinstance(ev.obj, Chain):
            post_chain_predict(ev)
        elif isinstance(ev.obj, Vector):
            post_vector_predict(ev)

    tap.keep_tree = False
    # documented defaults (docstrings of fit / filter: ``weights=None``): a caller that leaves weights out is judged by THAT value
    tap.method(BaseGridder, "fit", pre=pre_snapshot, post=post_fit, subclasses=True, documented={"weights": None})
    tap.method(BaseGridder, "predict", post=post_predict, subclasses=True)
    tap.method(BaseGridder, "filter", pre=pre_snapshot, post=post_filter, subclasses=True, documented={"weights": None})
    tap.method(BlockReduce, "filter", pre=pre_snapshot, post=post_filter, subclasses=True, documented={"weights": None})
    # the harness's own duck-typed steps (not BaseGridder): same recording, same oracles
    tap.method(work.LevelStep, "filter", pre=pre_snapshot, post=post_filter)
    tap.method(work.LevelStep, "predict", post=post_predict)
    tap.method(work.WarpedGridder, "fit", pre=pre_snapshot, post=post_fit)
    tap.method(work.WarpedGridder, "filter", pre=pre_snapshot, post=post_filter)
    tap.method(work.WarpedGridder, "predict", post=post_predict)
    tap.method(work.ThinStep, "filter", pre=pre_snapshot, post=post_filter)


# ----------------------------------------------------------------------
# workload
# ----------------------------------------------------------------------
def run_case(run, tap, stream, index, rng):
    import verde

    STATE.reset()
    with warnings.catch_warnings():
        warnings.simplefilter("ignore")
        work.drive(run, verde, gen, stream, index, rng)
    STATE.reset()


LEVEL_TEXT = (
    "Every execution of Chain.fit, Chain.predict, Vector.fit, Vector.predict and filter produced by the seeded workload (nested ones "
    "included) is decided from its recorded call tree: one filter per step in order, each step fed exactly the previous step's output, "
    "residual = data - own prediction in the data's shape with coordinates and weights passed on, chain prediction = sum of step "
    "predictions, predictions + last residual = data, Vector component i fitted on data[i]/weights[i] only and equal to separately "
    "fitted clones, refitted chains equal to fresh ones. Held means no refutation among the monitored executions, not a proof."
)
LEVEL_NOTE = (
    "Trusted: numpy float64 arithmetic, sklearn.base.clone, determinism of the estimators; compositions are sampled (lengths 1-4, "
    "nesting depth <= 2, <= 150 points), not enumerated."
)
TECHNIQUE = (
    "trace recording of fit/predict/filter on BaseGridder and all subclasses and on BlockReduce/BlockMean, offline data-flow "
    "conservation checkers over the call tree of each Chain/Vector/filter execution, harness-fitted clones as reference; seeded random compositions"
)
