"""
C03 - predictions evaluate the documented analytic models with the parameters in force.

Monitors sit on the public ``jacobian`` methods of Spline / VectorSpline2D / Trend
(also when ``fit`` calls them) and on ``predict`` of Spline / VectorSpline2D / Trend /
CheckerBoard / Linear / Cubic (direct calls, calls nested in grid / scatter / profile /
Chain / Vector / SplineCV, fitted estimators and estimators whose parameters the
workload set by hand). Every return is compared with an independent reference
(``vmon.ref`` kernels in float64, themselves spot-checked against 50-digit mpmath).
"""
import collections
import warnings
import weakref

import numpy as np

from .. import gen, ref

ID = "C03"
LEVEL = "exploration"
EPS = ref.EPS
TINY = float(np.finfo("float64").tiny)

RULE = (
    "cases = (a) distance ladders: forces at the origin (plus a few random ones) and observation points at exactly representable "
    "distances 0, 2^-40..2^-1, 1e-12..1e8, 1-ulp, 1, 1+ulp, e-ulp, e, e+ulp, 143/144, 3-4-5 triangles scaled to 1e8, on the axes and "
    "on 3-4-5 directions, mindist in {0, 1e-3..1e4}; (b) seeded random clouds at scales 1e-6..1e8 with coincident data/force points; "
    "(c) dyadic clouds shifted by dyadic offsets (bit-identical Jacobians required); (d) VectorSpline2D with Poisson in [-1,1] incl. "
    "+-1 and mindist in {0, 1e-3..1e4}; (e) Trend degrees 0..6; (f) CheckerBoard with default and explicit wavelengths; (g) Linear / "
    "Cubic with both rescale settings on isotropic and strongly anisotropic clouds; (h) integer-typed (int32 / int64) query and force coordinates, including values whose squares / powers overflow the integer dtype; (i) life-cycle histories: evaluate, change parameters on the same object (set_params or attribute assignment: CheckerBoard region / amplitude / wavelengths, Spline mindist / forces, VectorSpline2D poisson / mindist, Trend degree, Linear / Cubic rescale between fits, instances of sibling classes with different rescale fitted one after the other), evaluate again; (j) equivalent spellings of option values (rescale as numpy.bool_ / comparison result / 1, 0 / 0-d array; mindist, damping, poisson, degree, amplitude, wavelengths as int / numpy integer / numpy float; region as list / tuple / ndarray of ints or numpy scalars), given positionally, by keyword or through set_params; (k) extra (ignored) coordinate arrays after easting and northing holding NaN gaps, all NaN, +-inf, integer / bool / float32 dtypes in predict, fit, score, grid, scatter and profile (must equal the two-coordinate call bit for bit and the analytic formula); (l) single calls with more than 100 000 query points (predict, 300x400-class grids, scatter, profile) for Trend with asymmetric coefficients, Spline / VectorSpline2D with few forces, CheckerBoard, Linear, Cubic, also compared with the same points in small calls; (m) pickle round trips, copy.deepcopy and copy.copy of fitted gridders (Linear / Cubic with rescale=True on anisotropic offset coordinates, Spline, VectorSpline2D, Trend, Chain, Vector with KNeighbors); (n) 2-D query arrays that are not regular grids (regular border with displaced interior nodes or one moved line, scattered 2-D, 'ij' meshgrids, rotated and sheared grids, (1,n) and (n,1) point lists) against the formula at the real node positions and the raveled call; (o) jacobian(dtype=float32 / 'f4' / numpy.float32 / 'float64' spelled out) with UTM-like coordinates (offsets 5e5..9e6, separations 1..1000 m): the float64 kernel rounded once, unchanged under a shift of all coordinates; (p) fitted Spline / VectorSpline2D / Trend / Chain / "
    "Vector / SplineCV through predict, grid, scatter and profile. Parameters are set by hand (unit vectors, random vectors) on unfitted "
    "estimators as well as estimated by fit; queries are 0-d, 1-D, 2-D and 3-D. A monitored evaluation is non-trivial when its kernel "
    "arguments contain a coincident pair or at least one distance in each of (0,1), [1,e) and >= e (spline family), degree >= 2 (Trend), "
    "a non-default wavelength or the default region-derived one with non-constant output (CheckerBoard), >= 4 data points and at least one "
    "finite prediction (Linear/Cubic); distinct = hash of coordinates + parameters."
)
ASSUMPTIONS = [
    "reference kernels are float64 numpy (vmon.ref); on sampled entries they are cross-checked against 50-digit mpmath evaluated from the same float64 coordinates",
    "spline kernel tolerance 16 eps max(r, r^2(|ln r|+1)): covers the 2-ulp difference between sqrt(x^2+y^2)+mindist and hypot()+mindist and the eps*r absolute error of the small-r form",
    "a prediction that sums m kernel terms is compared with (4m+64) eps sum|term| plus sum|parameter| * kernel tolerance",
    "elastic kernels at r = 0 (mindist = 0 and coincident points) are outside the statement: those entries / rows are counted, not judged",
    "Linear / Cubic references are SciPy interpolators built by the monitor from the arguments of the observed fit call (qhull is deterministic for identical input)",
    "only the numpy engine runs (numba is not installed); float64 Jacobians only (other dtypes are counted as skipped)",
    "queries have easting and northing of equal shape (DESIGN 3(d)); other calls are counted as skipped",
]
FLOORS = {  # ~40 % of what the unchanged tree produces at quick seed 0 (observed counts are in evidence/C03.json); thorough = 20 x (large-count stream: 4 x)
    "quick": {
        "eval:spline_jacobian": 780, "eval:spline_predict": 1900, "eval:vector_jacobian": 560, "eval:vector_predict": 1800,
        "eval:trend_jacobian": 440, "eval:trend_predict": 1550, "eval:checkerboard_predict": 870, "eval:scipy_predict": 600,
        "eval:translation_invariance": 190, "eval:reference_vs_mpmath": 100, "distinct_nontrivial": 5900, "dist:(0,1)": 380000, "dist:[1,e)": 79000,
        "dist:>=e": 840000, "dist:coincident": 15000, "integer_coordinates:spline_predict:int32": 80, "integer_coordinates:spline_predict:int64": 80,
        "integer_coordinates:vector_predict:int32": 80, "integer_coordinates:vector_predict:int64": 80,
        "integer_coordinates:trend_predict:int32": 125, "integer_coordinates:trend_predict:int64": 125,
        "integer_coordinates:spline_jacobian:int32": 40, "integer_coordinates:vector_jacobian:int64": 40,
        "integer_coordinates:trend_jacobian:int32": 40, "integer:squares_overflow_the_dtype": 40, "integer:powers_overflow_the_dtype": 25,
        "history:checkerboard": 16, "history:spline": 16, "history:vector": 16, "history:trend": 16, "history:scipy_rescale_refit": 16,
        "history:scipy_class_state": 16, "checker:parameters_from_the_workload_record": 112, "history:checker_change=region": 10,
        "history:checker_change=region+w_east+w_north": 8, "eval:checkerboard_wavelengths": 64, "spelling:amplitude:float": 24,
        "spelling:amplitude:int": 24, "spelling:amplitude:numpy.float32": 24, "spelling:amplitude:numpy.float64": 24,
        "spelling:amplitude:numpy.int32": 24, "spelling:amplitude:numpy.int64": 48, "spelling:degree:0-d int array": 24, "spelling:degree:int": 24,
        "spelling:degree:numpy.int32": 24, "spelling:degree:numpy.int64": 24, "spelling:degree:numpy.intp": 24, "spelling:degree:numpy.uint8": 24,
        "spelling:given_by=keyword": 40, "spelling:given_by=positional": 40, "spelling:given_by=set_params": 40, "spelling:mindist:float": 24,
        "spelling:mindist:int": 24, "spelling:mindist:numpy.float32": 24, "spelling:mindist:numpy.float64": 24, "spelling:mindist:numpy.int32": 24,
        "spelling:mindist:numpy.int64": 24, "spelling:poisson=-1:float": 7, "spelling:poisson=-1:int": 7, "spelling:poisson=-1:numpy.float32": 7,
        "spelling:poisson=-1:numpy.float64": 7, "spelling:poisson=-1:numpy.int32": 7, "spelling:poisson=-1:numpy.int64": 7,
        "spelling:poisson=0:float": 7, "spelling:poisson=0:int": 7, "spelling:poisson=0:numpy.float32": 7, "spelling:poisson=0:numpy.float64": 7,
        "spelling:poisson=0:numpy.int32": 7, "spelling:poisson=0:numpy.int64": 7, "spelling:poisson=1:float": 9, "spelling:poisson=1:int": 9,
        "spelling:poisson=1:numpy.float32": 9, "spelling:poisson=1:numpy.float64": 9, "spelling:poisson=1:numpy.int32": 9,
        "spelling:poisson=1:numpy.int64": 9, "spelling:region:float ndarray": 24, "spelling:region:int32 ndarray": 24,
        "spelling:region:int64 ndarray": 24, "spelling:region:list of int": 24, "spelling:region:list of numpy.float64": 24,
        "spelling:region:tuple of int": 24, "spelling:region:tuple of numpy.int64": 24, "spelling:rescale=False:0-d array": 12,
        "spelling:rescale=False:bool": 12, "spelling:rescale=False:comparison": 12, "spelling:rescale=False:int": 12,
        "spelling:rescale=False:numpy.bool_": 12, "spelling:rescale=False:numpy.int64": 12, "spelling:rescale=True:0-d array": 12,
        "spelling:rescale=True:bool": 12, "spelling:rescale=True:comparison": 12, "spelling:rescale=True:int": 12,
        "spelling:rescale=True:numpy.bool_": 12, "spelling:rescale=True:numpy.int64": 12, "extras:Spline(hand-set):nan_gaps": 12,
        "extras:Spline(hand-set):all_nan": 12, "extras:Spline(hand-set):inf": 12, "extras:Spline(hand-set):nan_and_inf": 12,
        "extras:Spline(hand-set):int32": 12, "extras:Spline(hand-set):bool": 12, "extras:Spline(fitted):nan_gaps": 24,
        "extras:Spline(fitted):all_nan": 12, "extras:Spline(fitted):inf": 12, "extras:Spline(fitted):nan_and_inf": 12,
        "extras:Spline(fitted):int32": 12, "extras:Spline(fitted):bool": 12, "extras:VectorSpline2D:nan_gaps": 24,
        "extras:VectorSpline2D:all_nan": 12, "extras:VectorSpline2D:inf": 12, "extras:VectorSpline2D:nan_and_inf": 12,
        "extras:VectorSpline2D:int32": 12, "extras:VectorSpline2D:bool": 12, "extras:Trend:nan_gaps": 24, "extras:Trend:all_nan": 12,
        "extras:Trend:inf": 12, "extras:Trend:nan_and_inf": 12, "extras:Trend:int32": 12, "extras:Trend:bool": 12, "extras:Linear:nan_gaps": 24,
        "extras:Linear:all_nan": 12, "extras:Linear:inf": 12, "extras:Linear:nan_and_inf": 12, "extras:Linear:int32": 12, "extras:Linear:bool": 12,
        "extras:Cubic:nan_gaps": 24, "extras:Cubic:all_nan": 12, "extras:Cubic:inf": 12, "extras:Cubic:nan_and_inf": 12, "extras:Cubic:int32": 12,
        "extras:Cubic:bool": 12, "extras:CheckerBoard:nan_gaps": 12, "extras:CheckerBoard:all_nan": 12, "extras:CheckerBoard:inf": 12,
        "extras:CheckerBoard:nan_and_inf": 12, "extras:CheckerBoard:int32": 12, "extras:CheckerBoard:bool": 12, "extras:predict": 756,
        "extras:fit+predict": 60, "extras:score": 36, "extras:grid": 31, "extras:scatter": 28, "extras:profile": 24,
        "eval:extra_coordinates_ignored": 936, "copies:Chain:copy": 4, "copies:Chain:deepcopy": 4, "copies:Chain:pickle": 9,
        "copies:Cubic(rescale=True):copy": 4, "copies:Cubic(rescale=True):deepcopy": 4, "copies:Cubic(rescale=True):pickle": 9,
        "copies:Linear(rescale=False):copy": 4, "copies:Linear(rescale=False):deepcopy": 4, "copies:Linear(rescale=False):pickle": 9,
        "copies:Linear(rescale=True):copy": 4, "copies:Linear(rescale=True):deepcopy": 4, "copies:Linear(rescale=True):pickle": 9,
        "copies:Spline:copy": 4, "copies:Spline:deepcopy": 4, "copies:Spline:pickle": 9, "copies:Trend:copy": 4, "copies:Trend:deepcopy": 4,
        "copies:Trend:pickle": 9, "copies:Vector+KNeighbors:copy": 4, "copies:Vector+KNeighbors:deepcopy": 4, "copies:Vector+KNeighbors:pickle": 9,
        "copies:VectorSpline2D:copy": 4, "copies:VectorSpline2D:deepcopy": 4, "copies:VectorSpline2D:pickle": 9, "large:CheckerBoard:grid": 1,
        "large:CheckerBoard:predict": 1, "large:CheckerBoard:profile": 1, "large:CheckerBoard:scatter": 1, "large:Cubic:grid": 1,
        "large:Cubic:predict": 1, "large:Cubic:profile": 1, "large:Cubic:scatter": 1, "large:Linear:grid": 1, "large:Linear:predict": 1,
        "large:Linear:profile": 1, "large:Linear:scatter": 1, "large:Spline:grid": 1, "large:Spline:predict": 1, "large:Spline:profile": 1,
        "large:Spline:scatter": 1, "large:Trend:grid": 1, "large:Trend:predict": 1, "large:Trend:profile": 1, "large:Trend:scatter": 1,
        "large:VectorSpline2D:grid": 1, "large:VectorSpline2D:predict": 1, "large:VectorSpline2D:profile": 1, "large:VectorSpline2D:scatter": 1,
        "large:points": 1618018, "eval:copies_predict_like_the_original": 163, "eval:large_call_equals_small_calls": 2,
        "gridlike:CheckerBoard:broadcastable_shapes": 19, "gridlike:CheckerBoard:meshgrid_ij": 6, "gridlike:CheckerBoard:point_list(1,n)": 6,
        "gridlike:CheckerBoard:point_list(n,1)": 6, "gridlike:CheckerBoard:regular_border_displaced_interior": 6,
        "gridlike:CheckerBoard:regular_border_one_line_moved": 6, "gridlike:CheckerBoard:regular_grid": 6, "gridlike:CheckerBoard:rotated_grid": 6,
        "gridlike:CheckerBoard:scattered_2d": 6, "gridlike:CheckerBoard:sheared_grid": 6, "gridlike:Cubic:meshgrid_ij": 6,
        "gridlike:Cubic:point_list(1,n)": 6, "gridlike:Cubic:point_list(n,1)": 6, "gridlike:Cubic:regular_border_displaced_interior": 6,
        "gridlike:Cubic:regular_border_one_line_moved": 6, "gridlike:Cubic:regular_grid": 6, "gridlike:Cubic:rotated_grid": 6,
        "gridlike:Cubic:scattered_2d": 6, "gridlike:Cubic:sheared_grid": 6, "gridlike:Linear:meshgrid_ij": 6, "gridlike:Linear:point_list(1,n)": 6,
        "gridlike:Linear:point_list(n,1)": 6, "gridlike:Linear:regular_border_displaced_interior": 6,
        "gridlike:Linear:regular_border_one_line_moved": 6, "gridlike:Linear:regular_grid": 6, "gridlike:Linear:rotated_grid": 6,
        "gridlike:Linear:scattered_2d": 6, "gridlike:Linear:sheared_grid": 6, "gridlike:Spline:meshgrid_ij": 6, "gridlike:Spline:point_list(1,n)": 6,
        "gridlike:Spline:point_list(n,1)": 6, "gridlike:Spline:regular_border_displaced_interior": 6,
        "gridlike:Spline:regular_border_one_line_moved": 6, "gridlike:Spline:regular_grid": 6, "gridlike:Spline:rotated_grid": 6,
        "gridlike:Spline:scattered_2d": 6, "gridlike:Spline:sheared_grid": 6, "gridlike:Trend:meshgrid_ij": 6, "gridlike:Trend:point_list(1,n)": 6,
        "gridlike:Trend:point_list(n,1)": 6, "gridlike:Trend:regular_border_displaced_interior": 6,
        "gridlike:Trend:regular_border_one_line_moved": 6, "gridlike:Trend:regular_grid": 6, "gridlike:Trend:rotated_grid": 6,
        "gridlike:Trend:scattered_2d": 6, "gridlike:Trend:sheared_grid": 6, "gridlike:VectorSpline2D:meshgrid_ij": 6,
        "gridlike:VectorSpline2D:point_list(1,n)": 6, "gridlike:VectorSpline2D:point_list(n,1)": 6,
        "gridlike:VectorSpline2D:regular_border_displaced_interior": 6, "gridlike:VectorSpline2D:regular_border_one_line_moved": 6,
        "gridlike:VectorSpline2D:regular_grid": 6, "gridlike:VectorSpline2D:rotated_grid": 6, "gridlike:VectorSpline2D:scattered_2d": 6,
        "gridlike:VectorSpline2D:sheared_grid": 6, "eval:two_dimensional_query_equals_raveled": 345, "defaults:CheckerBoard": 4,
        "defaults:CheckerBoard(one wavelength)": 8, "defaults:Cubic": 4, "defaults:Linear": 4, "defaults:Spline": 4, "defaults:VectorSpline2D": 4,
        "defaults:jacobian dtype": 12, "eval:documented_defaults": 40, "jacobian_dtype:float32": 48, "narrow_jacobian:Spline:float32": 9,
        "narrow_jacobian:Spline:float64": 2, "narrow_jacobian:Trend:float32": 9, "narrow_jacobian:Trend:float64": 2,
        "narrow_jacobian:VectorSpline2D:float32": 9, "narrow_jacobian:VectorSpline2D:float64": 2, "eval:narrow_jacobian_translation": 24,
    },
    "thorough": {
        "eval:spline_jacobian": 15500, "eval:spline_predict": 38000, "eval:vector_jacobian": 11400, "eval:vector_predict": 36500,
        "eval:trend_jacobian": 8600, "eval:trend_predict": 31000, "eval:checkerboard_predict": 17600, "eval:scipy_predict": 12300,
        "eval:translation_invariance": 3800, "eval:reference_vs_mpmath": 380, "distinct_nontrivial": 119000, "dist:(0,1)": 8000000,
        "dist:[1,e)": 1550000, "dist:>=e": 16000000, "dist:coincident": 300000, "integer_coordinates:spline_predict:int32": 1600,
        "integer_coordinates:spline_predict:int64": 1600, "integer_coordinates:vector_predict:int32": 1600,
        "integer_coordinates:vector_predict:int64": 1600, "integer_coordinates:trend_predict:int32": 2500,
        "integer_coordinates:trend_predict:int64": 2500, "integer_coordinates:spline_jacobian:int32": 800,
        "integer_coordinates:vector_jacobian:int64": 800, "integer_coordinates:trend_jacobian:int32": 800, "integer:squares_overflow_the_dtype": 800,
        "integer:powers_overflow_the_dtype": 500, "history:checkerboard": 320, "history:spline": 320, "history:vector": 320, "history:trend": 320,
        "history:scipy_rescale_refit": 320, "history:scipy_class_state": 320, "checker:parameters_from_the_workload_record": 2240,
        "history:checker_change=region": 200, "history:checker_change=region+w_east+w_north": 160, "eval:checkerboard_wavelengths": 1280,
        "spelling:amplitude:float": 480, "spelling:amplitude:int": 480, "spelling:amplitude:numpy.float32": 480,
        "spelling:amplitude:numpy.float64": 480, "spelling:amplitude:numpy.int32": 480, "spelling:amplitude:numpy.int64": 960,
        "spelling:degree:0-d int array": 480, "spelling:degree:int": 480, "spelling:degree:numpy.int32": 480, "spelling:degree:numpy.int64": 480,
        "spelling:degree:numpy.intp": 480, "spelling:degree:numpy.uint8": 480, "spelling:given_by=keyword": 800, "spelling:given_by=positional": 800,
        "spelling:given_by=set_params": 800, "spelling:mindist:float": 480, "spelling:mindist:int": 480, "spelling:mindist:numpy.float32": 480,
        "spelling:mindist:numpy.float64": 480, "spelling:mindist:numpy.int32": 480, "spelling:mindist:numpy.int64": 480,
        "spelling:poisson=-1:float": 140, "spelling:poisson=-1:int": 140, "spelling:poisson=-1:numpy.float32": 140,
        "spelling:poisson=-1:numpy.float64": 140, "spelling:poisson=-1:numpy.int32": 140, "spelling:poisson=-1:numpy.int64": 140,
        "spelling:poisson=0:float": 140, "spelling:poisson=0:int": 140, "spelling:poisson=0:numpy.float32": 140,
        "spelling:poisson=0:numpy.float64": 140, "spelling:poisson=0:numpy.int32": 140, "spelling:poisson=0:numpy.int64": 140,
        "spelling:poisson=1:float": 180, "spelling:poisson=1:int": 180, "spelling:poisson=1:numpy.float32": 180,
        "spelling:poisson=1:numpy.float64": 180, "spelling:poisson=1:numpy.int32": 180, "spelling:poisson=1:numpy.int64": 180,
        "spelling:region:float ndarray": 480, "spelling:region:int32 ndarray": 480, "spelling:region:int64 ndarray": 480,
        "spelling:region:list of int": 480, "spelling:region:list of numpy.float64": 480, "spelling:region:tuple of int": 480,
        "spelling:region:tuple of numpy.int64": 480, "spelling:rescale=False:0-d array": 240, "spelling:rescale=False:bool": 240,
        "spelling:rescale=False:comparison": 240, "spelling:rescale=False:int": 240, "spelling:rescale=False:numpy.bool_": 240,
        "spelling:rescale=False:numpy.int64": 240, "spelling:rescale=True:0-d array": 240, "spelling:rescale=True:bool": 240,
        "spelling:rescale=True:comparison": 240, "spelling:rescale=True:int": 240, "spelling:rescale=True:numpy.bool_": 240,
        "spelling:rescale=True:numpy.int64": 240, "extras:Spline(hand-set):nan_gaps": 240, "extras:Spline(hand-set):all_nan": 240,
        "extras:Spline(hand-set):inf": 240, "extras:Spline(hand-set):nan_and_inf": 240, "extras:Spline(hand-set):int32": 240,
        "extras:Spline(hand-set):bool": 240, "extras:Spline(fitted):nan_gaps": 480, "extras:Spline(fitted):all_nan": 240,
        "extras:Spline(fitted):inf": 240, "extras:Spline(fitted):nan_and_inf": 240, "extras:Spline(fitted):int32": 240,
        "extras:Spline(fitted):bool": 240, "extras:VectorSpline2D:nan_gaps": 480, "extras:VectorSpline2D:all_nan": 240,
        "extras:VectorSpline2D:inf": 240, "extras:VectorSpline2D:nan_and_inf": 240, "extras:VectorSpline2D:int32": 240,
        "extras:VectorSpline2D:bool": 240, "extras:Trend:nan_gaps": 480, "extras:Trend:all_nan": 240, "extras:Trend:inf": 240,
        "extras:Trend:nan_and_inf": 240, "extras:Trend:int32": 240, "extras:Trend:bool": 240, "extras:Linear:nan_gaps": 480,
        "extras:Linear:all_nan": 240, "extras:Linear:inf": 240, "extras:Linear:nan_and_inf": 240, "extras:Linear:int32": 240,
        "extras:Linear:bool": 240, "extras:Cubic:nan_gaps": 480, "extras:Cubic:all_nan": 240, "extras:Cubic:inf": 240,
        "extras:Cubic:nan_and_inf": 240, "extras:Cubic:int32": 240, "extras:Cubic:bool": 240, "extras:CheckerBoard:nan_gaps": 240,
        "extras:CheckerBoard:all_nan": 240, "extras:CheckerBoard:inf": 240, "extras:CheckerBoard:nan_and_inf": 240, "extras:CheckerBoard:int32": 240,
        "extras:CheckerBoard:bool": 240, "extras:predict": 15120, "extras:fit+predict": 1200, "extras:score": 720, "extras:grid": 620,
        "extras:scatter": 560, "extras:profile": 480, "eval:extra_coordinates_ignored": 18720, "copies:Chain:copy": 80, "copies:Chain:deepcopy": 80,
        "copies:Chain:pickle": 180, "copies:Cubic(rescale=True):copy": 80, "copies:Cubic(rescale=True):deepcopy": 80,
        "copies:Cubic(rescale=True):pickle": 180, "copies:Linear(rescale=False):copy": 80, "copies:Linear(rescale=False):deepcopy": 80,
        "copies:Linear(rescale=False):pickle": 180, "copies:Linear(rescale=True):copy": 80, "copies:Linear(rescale=True):deepcopy": 80,
        "copies:Linear(rescale=True):pickle": 180, "copies:Spline:copy": 80, "copies:Spline:deepcopy": 80, "copies:Spline:pickle": 180,
        "copies:Trend:copy": 80, "copies:Trend:deepcopy": 80, "copies:Trend:pickle": 180, "copies:Vector+KNeighbors:copy": 80,
        "copies:Vector+KNeighbors:deepcopy": 80, "copies:Vector+KNeighbors:pickle": 180, "copies:VectorSpline2D:copy": 80,
        "copies:VectorSpline2D:deepcopy": 80, "copies:VectorSpline2D:pickle": 180, "large:CheckerBoard:grid": 2, "large:CheckerBoard:predict": 2,
        "large:CheckerBoard:profile": 2, "large:CheckerBoard:scatter": 2, "large:Cubic:grid": 2, "large:Cubic:predict": 2, "large:Cubic:profile": 2,
        "large:Cubic:scatter": 2, "large:Linear:grid": 2, "large:Linear:predict": 2, "large:Linear:profile": 2, "large:Linear:scatter": 2,
        "large:Spline:grid": 2, "large:Spline:predict": 2, "large:Spline:profile": 2, "large:Spline:scatter": 2, "large:Trend:grid": 2,
        "large:Trend:predict": 2, "large:Trend:profile": 2, "large:Trend:scatter": 2, "large:VectorSpline2D:grid": 2,
        "large:VectorSpline2D:predict": 2, "large:VectorSpline2D:profile": 2, "large:VectorSpline2D:scatter": 2, "large:points": 6472072,
        "eval:copies_predict_like_the_original": 3260, "eval:large_call_equals_small_calls": 8, "gridlike:CheckerBoard:broadcastable_shapes": 380,
        "gridlike:CheckerBoard:meshgrid_ij": 120, "gridlike:CheckerBoard:point_list(1,n)": 120, "gridlike:CheckerBoard:point_list(n,1)": 120,
        "gridlike:CheckerBoard:regular_border_displaced_interior": 120, "gridlike:CheckerBoard:regular_border_one_line_moved": 120,
        "gridlike:CheckerBoard:regular_grid": 120, "gridlike:CheckerBoard:rotated_grid": 120, "gridlike:CheckerBoard:scattered_2d": 120,
        "gridlike:CheckerBoard:sheared_grid": 120, "gridlike:Cubic:meshgrid_ij": 120, "gridlike:Cubic:point_list(1,n)": 120,
        "gridlike:Cubic:point_list(n,1)": 120, "gridlike:Cubic:regular_border_displaced_interior": 120,
        "gridlike:Cubic:regular_border_one_line_moved": 120, "gridlike:Cubic:regular_grid": 120, "gridlike:Cubic:rotated_grid": 120,
        "gridlike:Cubic:scattered_2d": 120, "gridlike:Cubic:sheared_grid": 120, "gridlike:Linear:meshgrid_ij": 120,
        "gridlike:Linear:point_list(1,n)": 120, "gridlike:Linear:point_list(n,1)": 120, "gridlike:Linear:regular_border_displaced_interior": 120,
        "gridlike:Linear:regular_border_one_line_moved": 120, "gridlike:Linear:regular_grid": 120, "gridlike:Linear:rotated_grid": 120,
        "gridlike:Linear:scattered_2d": 120, "gridlike:Linear:sheared_grid": 120, "gridlike:Spline:meshgrid_ij": 120,
        "gridlike:Spline:point_list(1,n)": 120, "gridlike:Spline:point_list(n,1)": 120, "gridlike:Spline:regular_border_displaced_interior": 120,
        "gridlike:Spline:regular_border_one_line_moved": 120, "gridlike:Spline:regular_grid": 120, "gridlike:Spline:rotated_grid": 120,
        "gridlike:Spline:scattered_2d": 120, "gridlike:Spline:sheared_grid": 120, "gridlike:Trend:meshgrid_ij": 120,
        "gridlike:Trend:point_list(1,n)": 120, "gridlike:Trend:point_list(n,1)": 120, "gridlike:Trend:regular_border_displaced_interior": 120,
        "gridlike:Trend:regular_border_one_line_moved": 120, "gridlike:Trend:regular_grid": 120, "gridlike:Trend:rotated_grid": 120,
        "gridlike:Trend:scattered_2d": 120, "gridlike:Trend:sheared_grid": 120, "gridlike:VectorSpline2D:meshgrid_ij": 120,
        "gridlike:VectorSpline2D:point_list(1,n)": 120, "gridlike:VectorSpline2D:point_list(n,1)": 120,
        "gridlike:VectorSpline2D:regular_border_displaced_interior": 120, "gridlike:VectorSpline2D:regular_border_one_line_moved": 120,
        "gridlike:VectorSpline2D:regular_grid": 120, "gridlike:VectorSpline2D:rotated_grid": 120, "gridlike:VectorSpline2D:scattered_2d": 120,
        "gridlike:VectorSpline2D:sheared_grid": 120, "eval:two_dimensional_query_equals_raveled": 6900, "defaults:CheckerBoard": 40,
        "defaults:CheckerBoard(one wavelength)": 80, "defaults:Cubic": 40, "defaults:Linear": 40, "defaults:Spline": 40,
        "defaults:VectorSpline2D": 40, "defaults:jacobian dtype": 120, "eval:documented_defaults": 400, "jacobian_dtype:float32": 960,
        "narrow_jacobian:Spline:float32": 180, "narrow_jacobian:Spline:float64": 40, "narrow_jacobian:Trend:float32": 180,
        "narrow_jacobian:Trend:float64": 40, "narrow_jacobian:VectorSpline2D:float32": 180, "narrow_jacobian:VectorSpline2D:float64": 40,
        "eval:narrow_jacobian_translation": 480,
    },
}
JOBS = {"quick": 1, "thorough": 16}
CASE_TIMEOUT_S = 180
MPMATH_BUDGET = {"quick": 260, "thorough": 60}  # per process (thorough runs 16 shards)


def plan(tier):
    if tier == "quick":
        return collections.OrderedDict(ladder=360, pairs=480, translation=240, vector=420, trend=480, checker=420, scipy=420, fitted=300, integer=210, history=240, spelling=300, extras=210, large=24, copies=96, gridlike=96, defaults=70, narrow_jacobian=90)
    return collections.OrderedDict(ladder=7200, pairs=9600, translation=4800, vector=8400, trend=9600, checker=8400, scipy=8400, fitted=6000, integer=4200, history=4800, spelling=6000, extras=4200, large=96, copies=1920, gridlike=1920, defaults=700, narrow_jacobian=1800)


# ----------------------------------------------------------------------
# helpers shared by monitors
# ----------------------------------------------------------------------
def _flat(x):
    return np.asarray(x, dtype="float64").ravel()


def _pair(coordinates):
    """(east, north) as float64 1-D arrays in C order, or None when shapes differ (not promised)."""
    east, north = np.asarray(coordinates[0]), np.asarray(coordinates[1])
    if east.shape != north.shape:
        return None
    return east.astype("float64").ravel(), north.astype("float64").ravel()


# What the workload last set on a CheckerBoard (constructor, set_params or attribute assignment). The monitor takes the parameters "in force" from
# here when the instance is registered, so a method that writes a derived default back into the instance cannot make the oracle follow it.
_INTENDED = weakref.WeakKeyDictionary()
_SCIPY_FITS = weakref.WeakKeyDictionary()  # SciPy-backed gridder -> arguments of the fit call the monitor observed (copies adopt the original's record)


def _intend(board, **params):
    rec = _INTENDED.setdefault(board, {"amplitude": 1000, "region": (0, 5000, -5000, 0), "w_east": None, "w_north": None})
    rec.update(params)
    return board


def _narrowing(run, dtype):
    """Relative rounding allowance for a Jacobian requested in a narrower floating dtype: the float64 kernel value rounded once."""
    if np.dtype(dtype) == np.dtype("float64"):
        return 0.0
    run.count("jacobian_dtype:" + np.dtype(dtype).name)
    return 1.01 * float(np.finfo(np.dtype(dtype)).eps)


def _count_integer(run, monitor, coordinates):
    """Class counter: the monitored call received integer-typed coordinates (the formula must hold for the same values)."""
    dt = np.asarray(coordinates[0]).dtype
    if dt.kind in "iu":
        run.count("integer_coordinates:%s:%s" % (monitor, dt.name))


def _distance_classes(run, r, delta_zero, prefix="dist"):
    """Count kernel arguments by range; return True if the evaluation is non-trivial by the RULE."""
    n_co = int(np.count_nonzero(delta_zero))
    n_small = int(np.count_nonzero((r > 0) & (r < 1)))
    n_mid = int(np.count_nonzero((r >= 1) & (r < np.e)))
    n_big = int(np.count_nonzero(r >= np.e))
    run.count(prefix + ":(0,1)", n_small)
    run.count(prefix + ":[1,e)", n_mid)
    run.count(prefix + ":>=e", n_big)
    run.count(prefix + ":coincident", n_co)
    run.count(prefix + ":r==0", int(np.count_nonzero(r == 0)))
    return n_co > 0 or (n_small > 0 and n_mid > 0 and n_big > 0)


def _elastic_tolerances(gee, gnn, gne, r, de, dn, poisson):
    """Entry-wise tolerances for the elastic kernels (relative error of r <= 2 eps, of each product/quotient <= eps)."""
    with np.errstate(divide="ignore", invalid="ignore"):
        lnr = np.abs(np.log(r))
        r2 = r * r
        base = 16 * EPS * abs(3.0 - poisson) * (lnr + 1.0)
        tee = base + 16 * EPS * abs(1.0 + poisson) * (dn * dn / r2) + TINY
        tnn = base + 16 * EPS * abs(1.0 + poisson) * (de * de / r2) + TINY
        tne = 16 * EPS * np.abs(gne) + TINY
    return tee, tnn, tne


# ----------------------------------------------------------------------
# monitors
# ----------------------------------------------------------------------
def install(tap, run):
    import mpmath
    import scipy.interpolate as si
    import verde
    import verde.scipygridder as vsg
    import verde.synthetic as vsyn

    mpmath.mp.dps = 50
    state = {"mp_left": MPMATH_BUDGET.get(run.tier, 100), "mp_rng": np.random.default_rng([run.seed, 3]), "calls": 0}
    fitted = _SCIPY_FITS  # scipy gridder -> what its fit call was given
    fitted.clear()

    # -- mpmath spot checks ------------------------------------------------
    def mp_spline(e, n, fe, fn, mindist):
        # the code and the reference subtract in float64 first; differences of float64 numbers are what the kernels see
        rm = mpmath.sqrt(mpmath.mpf(float(e) - float(fe)) ** 2 + mpmath.mpf(float(n) - float(fn)) ** 2) + mpmath.mpf(float(mindist))
        return rm * rm * (mpmath.log(rm) - 1) if rm > 0 else mpmath.mpf(0)

    def mp_elastic(e, n, fe, fn, mindist, poisson):
        de, dn = mpmath.mpf(float(e) - float(fe)), mpmath.mpf(float(n) - float(fn))
        rm = mpmath.sqrt(de * de + dn * dn) + mpmath.mpf(float(mindist))
        nu = mpmath.mpf(float(poisson))
        lnr = (3 - nu) * mpmath.log(rm)
        over = (1 + nu) / (rm * rm)
        return lnr + over * dn * dn, lnr + over * de * de, -over * de * dn

    def spot_check(kind, pick, observed, expected, tol, exact_fn, witness):
        """One sampled entry: reference vs mpmath (must be within tol/2) and observed vs mpmath (within tol)."""
        if state["mp_left"] <= 0:
            return
        state["calls"] += 1
        if state["calls"] % 3 and run.tier == "thorough":
            return
        state["mp_left"] -= 1
        exact = exact_fn()
        err_ref = abs(mpmath.mpf(float(expected)) - exact)
        err_obs = abs(mpmath.mpf(float(observed)) - exact) if np.isfinite(observed) else mpmath.inf
        run.evaluated("reference_vs_mpmath")
        run.observe_max("reference_vs_mpmath_error_over_tolerance", float(err_ref / tol))
        if not err_ref <= tol / 2:
            run.violation("reference_vs_mpmath", "%s: the float64 reference kernel is off the 50-digit value by %.3g (tolerance/2 = %.3g): oracle defect"
                          % (kind, float(err_ref), tol / 2), dict(witness, entry=pick, reference=float(expected), exact=str(exact)), key="mp-ref:" + kind)
        elif not err_obs <= tol:
            run.violation("reference_vs_mpmath", "%s: observed kernel value %r differs from the 50-digit value %s by more than %.3g"
                          % (kind, float(observed), mpmath.nstr(exact, 20), tol), dict(witness, entry=pick, observed=float(observed), exact=str(exact)),
                          key="mp-obs:" + kind)

    # -- Spline --------------------------------------------------------------
    def post_spline_jacobian(ev):
        if ev.exc is not None:
            return
        a = ev.args
        self = a["self"]
        if np.dtype(a["dtype"]) not in (np.dtype("float64"), np.dtype("float32")):
            run.count("skipped:jacobian_dtype_not_floating")
            return
        narrow = _narrowing(run, a["dtype"])
        obs = _pair(a["coordinates"])
        frc = _pair(a["force_coords"])
        if obs is None or frc is None:
            run.count("skipped:unequal_coordinate_shapes")
            return
        east, north = obs
        fe, fn = frc
        mindist = float(self.mindist)
        jac = np.asarray(ev.result)
        if jac.dtype != np.dtype(a["dtype"]):
            run.violation("jacobian_dtype", "%s.jacobian returned dtype %s, the (documented default) dtype argument is %s" % (type(self).__name__, jac.dtype, a["dtype"]), {"dtype_argument": str(a["dtype"]), "returned": str(jac.dtype)}, key="jacobian-dtype")
            return
        run.evaluated("spline_jacobian")
        _count_integer(run, "spline_jacobian", a["coordinates"])
        witness = {"east": east, "north": north, "force_east": fe, "force_north": fn, "mindist": mindist}
        if jac.shape != (east.size, fe.size):
            run.violation("spline_jacobian", "Jacobian shape %s is not (n_data, n_forces) = %s" % (jac.shape, (east.size, fe.size)), witness, key="spline-jac-shape")
            return
        expected, r = ref.spline_jacobian(east, north, fe, fn, mindist)
        tol = ref.spline_green_tol(r) + narrow * np.abs(expected) + (float(np.finfo("float32").tiny) if narrow else 0.0)
        delta_zero = (east[:, None] == fe[None, :]) & (north[:, None] == fn[None, :])
        if _distance_classes(run, r, delta_zero):
            run.mark_nontrivial("spline_jacobian", east, north, fe, fn, mindist)
        if jac.size == 0:
            return
        if not np.all(np.isfinite(jac)):
            bad = np.argwhere(~np.isfinite(jac))[0]
            run.violation("spline_jacobian", "non-finite Jacobian entry %r at %s (kernel argument %r, coincident=%s)"
                          % (float(jac[tuple(bad)]), tuple(int(b) for b in bad), float(r[tuple(bad)]), bool(delta_zero[tuple(bad)])),
                          dict(witness, entry=[int(b) for b in bad]), key="spline-jac-nonfinite")
            return
        ratio = np.abs(jac - expected) / tol
        worst = np.unravel_index(int(np.argmax(ratio)), ratio.shape)
        run.observe_max("spline_jacobian_error_over_tolerance", ratio[worst])
        if not ratio[worst] <= 1:
            i, j = (int(w) for w in worst)
            run.violation("spline_jacobian", "entry (%d,%d): got %r, g(r)=r^2(ln r-1) at r=%r (mindist %r) is %r, tolerance %.3g"
                          % (i, j, float(jac[i, j]), float(r[i, j]), mindist, float(expected[i, j]), float(tol[i, j])),
                          dict(witness, entry=[i, j], observed=float(jac[i, j]), expected=float(expected[i, j]), r=float(r[i, j])), key="spline-jac-value")
            return
        i, j = int(state["mp_rng"].integers(0, east.size)), int(state["mp_rng"].integers(0, fe.size))
        spot_check("spline", [i, j], jac[i, j], expected[i, j], float(tol[i, j]),
                   lambda: mp_spline(east[i], north[i], fe[j], fn[j], mindist),
                   {"east": east[i], "north": north[i], "force_east": fe[j], "force_north": fn[j], "mindist": mindist})

    def post_spline_predict(ev):
        if ev.exc is not None:
            return
        self = ev.args["self"]
        obs = _pair(ev.args["coordinates"])
        if obs is None:
            run.count("skipped:unequal_coordinate_shapes")
            return
        east, north = obs
        frc = _pair(self.force_coords_)
        forces = _flat(self.force_)
        if frc is None or frc[0].size != forces.size:
            run.count("skipped:inconsistent_hand_set_parameters")
            return
        if not np.all(np.isfinite(forces)):
            run.count("skipped:nonfinite_parameters")
            return
        fe, fn = frc
        mindist = float(self.mindist)
        res = np.asarray(ev.result)
        run.evaluated("spline_predict")
        _count_integer(run, "spline_predict", ev.args["coordinates"])
        witness = {"east": east, "north": north, "force_east": fe, "force_north": fn, "forces": forces, "mindist": mindist,
                   "query_shape": list(np.shape(ev.args["coordinates"][0])), "result": res}
        if res.size != east.size:
            run.violation("spline_predict", "prediction has %d values for %d query points" % (res.size, east.size), witness, key="spline-pred-size")
            return
        green, r = ref.spline_jacobian(east, north, fe, fn, mindist)
        terms = green * forces[None, :]
        expected = terms.sum(axis=1)
        tol = (4 * forces.size + 64) * EPS * np.abs(terms).sum(axis=1) + (ref.spline_green_tol(r) * np.abs(forces)[None, :]).sum(axis=1) + TINY
        delta_zero = (east[:, None] == fe[None, :]) & (north[:, None] == fn[None, :])
        if _distance_classes(run, r, delta_zero, prefix="dist_predict"):
            run.mark_nontrivial("spline_predict", east, north, fe, fn, forces, mindist)
        if res.size == 0:
            return
        flat = res.astype("float64").ravel()
        ratio = np.where(np.isfinite(flat), np.abs(flat - expected) / tol, np.inf)
        k = int(np.argmax(ratio))
        run.observe_max("spline_predict_error_over_tolerance", ratio[k] if np.isfinite(ratio[k]) else 1e300)
        if not ratio[k] <= 1:
            run.violation("spline_predict", "query %d (%r, %r): predicted %r, sum_j force_j g(r_j) = %r (tolerance %.3g)"
                          % (k, float(east[k]), float(north[k]), float(flat[k]), float(expected[k]), float(tol[k])),
                          dict(witness, index=k, observed=float(flat[k]), expected=float(expected[k])), key="spline-pred-value")

    # -- VectorSpline2D --------------------------------------------------------
    def post_vector_jacobian(ev):
        if ev.exc is not None:
            return
        a = ev.args
        self = a["self"]
        if np.dtype(a["dtype"]) not in (np.dtype("float64"), np.dtype("float32")):
            run.count("skipped:jacobian_dtype_not_floating")
            return
        narrow = _narrowing(run, a["dtype"])
        obs = _pair(a["coordinates"])
        frc = _pair(a["force_coords"])
        if obs is None or frc is None:
            run.count("skipped:unequal_coordinate_shapes")
            return
        east, north = obs
        fe, fn = frc
        mindist, poisson = float(self.mindist), float(self.poisson)
        jac = np.asarray(ev.result)
        if jac.dtype != np.dtype(a["dtype"]):
            run.violation("jacobian_dtype", "%s.jacobian returned dtype %s, the (documented default) dtype argument is %s" % (type(self).__name__, jac.dtype, a["dtype"]), {"dtype_argument": str(a["dtype"]), "returned": str(jac.dtype)}, key="jacobian-dtype")
            return
        n, m = east.size, fe.size
        run.evaluated("vector_jacobian")
        _count_integer(run, "vector_jacobian", a["coordinates"])
        witness = {"east": east, "north": north, "force_east": fe, "force_north": fn, "mindist": mindist, "poisson": poisson}
        if jac.shape != (2 * n, 2 * m):
            run.violation("vector_jacobian", "Jacobian shape %s is not (2 n_data, 2 n_forces) = %s" % (jac.shape, (2 * n, 2 * m)), witness, key="vector-jac-shape")
            return
        de = east[:, None] - fe[None, :]
        dn = north[:, None] - fn[None, :]
        gee, gnn, gne, r = ref.elastic_green(de, dn, mindist, poisson)
        tee, tnn, tne = _elastic_tolerances(gee, gnn, gne, r, de, dn, poisson)
        if narrow:
            with np.errstate(invalid="ignore"):
                tee, tnn, tne = tee + narrow * np.abs(gee), tnn + narrow * np.abs(gnn), tne + narrow * np.abs(gne) + float(np.finfo("float32").tiny)
        judged = r > 0  # r = 0 needs mindist = 0 and a coincident pair: outside the statement
        run.count("vector:r==0_entries_outside_statement", int(np.count_nonzero(~judged)))
        delta_zero = (de == 0) & (dn == 0)
        if _distance_classes(run, r, delta_zero, prefix="dist_vector"):
            run.mark_nontrivial("vector_jacobian", east, north, fe, fn, mindist, poisson)
        if n == 0 or m == 0:
            return
        blocks = (("ee", jac[:n, :m], gee, tee), ("ne(top right)", jac[:n, m:], gne, tne), ("ne(bottom left)", jac[n:, :m], gne, tne), ("nn", jac[n:, m:], gnn, tnn))
        for name, got, want, tol in blocks:
            with np.errstate(invalid="ignore"):
                ratio = np.where(judged, np.where(np.isfinite(got), np.abs(got - want) / tol, np.inf), 0.0)
            worst = np.unravel_index(int(np.argmax(ratio)), ratio.shape)
            run.observe_max("vector_jacobian_error_over_tolerance", ratio[worst] if np.isfinite(ratio[worst]) else 1e300)
            if not ratio[worst] <= 1:
                i, j = (int(w) for w in worst)
                run.violation("vector_jacobian", "block %s entry (%d,%d): got %r, documented Green's function gives %r (r=%r, de=%r, dn=%r, poisson=%r, tolerance %.3g)"
                              % (name, i, j, float(got[i, j]), float(want[i, j]), float(r[i, j]), float(de[i, j]), float(dn[i, j]), poisson, float(tol[i, j])),
                              dict(witness, block=name, entry=[i, j], observed=float(got[i, j]), expected=float(want[i, j])), key="vector-jac-" + name[:2])
                return
        i, j = int(state["mp_rng"].integers(0, n)), int(state["mp_rng"].integers(0, m))
        if judged[i, j]:
            which = int(state["mp_rng"].integers(0, 3))
            got = (jac[i, j], jac[n + i, m + j], jac[i, m + j])[which]
            want = (gee, gnn, gne)[which][i, j]
            tol = (tee, tnn, tne)[which][i, j]
            spot_check("elastic_" + ("ee", "nn", "ne")[which], [i, j], got, want, float(tol),
                       lambda: mp_elastic(east[i], north[i], fe[j], fn[j], mindist, poisson)[which],
                       {"east": east[i], "north": north[i], "force_east": fe[j], "force_north": fn[j], "mindist": mindist, "poisson": poisson})

    def post_vector_predict(ev):
        if ev.exc is not None:
            return
        self = ev.args["self"]
        obs = _pair(ev.args["coordinates"])
        if obs is None or self.force_coords is None:
            run.count("skipped:unequal_coordinate_shapes")
            return
        east, north = obs
        frc = _pair(self.force_coords)
        forces = _flat(self.force_)
        if frc is None or 2 * frc[0].size != forces.size:
            run.count("skipped:inconsistent_hand_set_parameters")
            return
        if not np.all(np.isfinite(forces)):
            run.count("skipped:nonfinite_parameters")
            return
        fe, fn = frc
        m = fe.size
        mindist, poisson = float(self.mindist), float(self.poisson)
        res = ev.result
        run.evaluated("vector_predict")
        _count_integer(run, "vector_predict", ev.args["coordinates"])
        witness = {"east": east, "north": north, "force_east": fe, "force_north": fn, "forces": forces, "mindist": mindist, "poisson": poisson,
                   "query_shape": list(np.shape(ev.args["coordinates"][0]))}
        if not isinstance(res, tuple) or len(res) != 2 or any(np.asarray(c).size != east.size for c in res):
            run.violation("vector_predict", "prediction is not a pair of arrays with one value per query point", witness, key="vector-pred-size")
            return
        de = east[:, None] - fe[None, :]
        dn = north[:, None] - fn[None, :]
        gee, gnn, gne, r = ref.elastic_green(de, dn, mindist, poisson)
        tee, tnn, tne = _elastic_tolerances(gee, gnn, gne, r, de, dn, poisson)
        judged = np.all(r > 0, axis=1)
        run.count("vector:r==0_rows_outside_statement", int(np.count_nonzero(~judged)))
        delta_zero = (de == 0) & (dn == 0)
        if _distance_classes(run, r, delta_zero, prefix="dist_vector_predict"):
            run.mark_nontrivial("vector_predict", east, north, fe, fn, forces, mindist, poisson)
        if east.size == 0:
            return
        f_e, f_n = forces[:m][None, :], forces[m:][None, :]
        with np.errstate(invalid="ignore"):
            terms_e = (gee * f_e, gne * f_n)
            terms_n = (gne * f_e, gnn * f_n)
            want = (terms_e[0].sum(axis=1) + terms_e[1].sum(axis=1), terms_n[0].sum(axis=1) + terms_n[1].sum(axis=1))
            mag = (np.abs(terms_e[0]).sum(axis=1) + np.abs(terms_e[1]).sum(axis=1), np.abs(terms_n[0]).sum(axis=1) + np.abs(terms_n[1]).sum(axis=1))
            ktol = ((tee * np.abs(f_e)).sum(axis=1) + (tne * np.abs(f_n)).sum(axis=1), (tne * np.abs(f_e)).sum(axis=1) + (tnn * np.abs(f_n)).sum(axis=1))
        for comp, name in enumerate(("east", "north")):
            got = np.asarray(res[comp], dtype="float64").ravel()
            tol = (8 * m + 64) * EPS * mag[comp] + ktol[comp] + TINY
            with np.errstate(invalid="ignore"):
                ratio = np.where(judged, np.where(np.isfinite(got), np.abs(got - want[comp]) / tol, np.inf), 0.0)
            k = int(np.argmax(ratio))
            run.observe_max("vector_predict_error_over_tolerance", ratio[k] if np.isfinite(ratio[k]) else 1e300)
            if not ratio[k] <= 1:
                run.violation("vector_predict", "%s component at query %d (%r, %r): predicted %r, coupled Green's functions give %r (tolerance %.3g)"
                              % (name, k, float(east[k]), float(north[k]), float(got[k]), float(want[comp][k]), float(tol[k])),
                              dict(witness, component=name, index=k, observed=float(got[k]), expected=float(want[comp][k])), key="vector-pred-" + name)
                return

    # -- Trend -----------------------------------------------------------------
    def trend_reference(east, north, degree):
        expo = ref.trend_exponents(degree)
        jac = ref.trend_jacobian(east, north, degree)
        mults = np.array([max(i + j, 1) for i, j in expo], dtype="float64")
        return expo, jac, mults

    def post_trend_jacobian(ev):
        if ev.exc is not None:
            return
        a = ev.args
        self = a["self"]
        if np.dtype(a["dtype"]) not in (np.dtype("float64"), np.dtype("float32")):
            run.count("skipped:jacobian_dtype_not_floating")
            return
        narrow = _narrowing(run, a["dtype"])
        obs = _pair(a["coordinates"])
        if obs is None:
            run.count("skipped:unequal_coordinate_shapes")
            return
        east, north = obs
        degree = int(self.degree)
        jac = np.asarray(ev.result)
        if jac.dtype != np.dtype(a["dtype"]):
            run.violation("jacobian_dtype", "%s.jacobian returned dtype %s, the (documented default) dtype argument is %s" % (type(self).__name__, jac.dtype, a["dtype"]), {"dtype_argument": str(a["dtype"]), "returned": str(jac.dtype)}, key="jacobian-dtype")
            return
        run.evaluated("trend_jacobian")
        _count_integer(run, "trend_jacobian", a["coordinates"])
        nterms = (degree + 1) * (degree + 2) // 2
        witness = {"east": east, "north": north, "degree": degree}
        if jac.shape != (east.size, nterms):
            run.violation("trend_jacobian", "Jacobian shape %s is not (n_data, (N+1)(N+2)/2) = %s" % (jac.shape, (east.size, nterms)), witness, key="trend-jac-shape")
            return
        if degree >= 2:
            run.mark_nontrivial("trend_jacobian", east, north, degree)
        run.count("trend:degree=%d" % degree)
        if east.size == 0:
            return
        expo, expected, mults = trend_reference(east, north, degree)
        tol = 4 * EPS * mults[None, :] * np.abs(expected) + TINY + narrow * np.abs(expected) + (float(np.finfo("float32").tiny) if narrow else 0.0)
        ratio = np.where(np.isfinite(jac), np.abs(jac - expected) / tol, np.inf)
        worst = np.unravel_index(int(np.argmax(ratio)), ratio.shape)
        run.observe_max("trend_jacobian_error_over_tolerance", ratio[worst] if np.isfinite(ratio[worst]) else 1e300)
        if not ratio[worst] <= 1:
            i, j = (int(w) for w in worst)
            run.violation("trend_jacobian", "column %d of degree %d must be easting^%d northing^%d: row %d got %r, expected %r"
                          % (j, degree, expo[j][0], expo[j][1], i, float(jac[i, j]), float(expected[i, j])),
                          dict(witness, entry=[i, j], observed=float(jac[i, j]), expected=float(expected[i, j])), key="trend-jac-value")

    def post_trend_predict(ev):
        if ev.exc is not None:
            return
        self = ev.args["self"]
        obs = _pair(ev.args["coordinates"])
        if obs is None:
            run.count("skipped:unequal_coordinate_shapes")
            return
        east, north = obs
        degree = int(self.degree)
        coef = _flat(self.coef_)
        nterms = (degree + 1) * (degree + 2) // 2
        res = np.asarray(ev.result)
        run.evaluated("trend_predict")
        _count_integer(run, "trend_predict", ev.args["coordinates"])
        witness = {"east": east, "north": north, "degree": degree, "coef": coef, "query_shape": list(np.shape(ev.args["coordinates"][0])), "result": res}
        if coef.size != nterms:
            run.violation("trend_predict", "degree %d has %d coefficients, (N+1)(N+2)/2 = %d" % (degree, coef.size, nterms), witness, key="trend-ncoef")
            return
        if not np.all(np.isfinite(coef)):
            run.count("skipped:nonfinite_parameters")
            return
        if res.size != east.size:
            run.violation("trend_predict", "prediction has %d values for %d query points" % (res.size, east.size), witness, key="trend-pred-size")
            return
        if degree >= 2:
            run.mark_nontrivial("trend_predict", east, north, degree, coef)
        if east.size == 0:
            return
        expo, jac, mults = trend_reference(east, north, degree)
        terms = jac * coef[None, :]
        expected = terms.sum(axis=1)
        tol = (4 * nterms + 64) * EPS * np.abs(terms).sum(axis=1) + (4 * EPS * (mults[None, :] + 1) * np.abs(terms)).sum(axis=1) + TINY
        flat = res.astype("float64").ravel()
        ratio = np.where(np.isfinite(flat), np.abs(flat - expected) / tol, np.inf)
        k = int(np.argmax(ratio))
        run.observe_max("trend_predict_error_over_tolerance", ratio[k] if np.isfinite(ratio[k]) else 1e300)
        if not ratio[k] <= 1:
            run.violation("trend_predict", "query %d (%r, %r): predicted %r, polynomial with coef_ over the documented monomial order gives %r (tolerance %.3g)"
                          % (k, float(east[k]), float(north[k]), float(flat[k]), float(expected[k]), float(tol[k])),
                          dict(witness, index=k, observed=float(flat[k]), expected=float(expected[k])), key="trend-pred-value")

    # -- CheckerBoard ------------------------------------------------------------
    def post_checker_predict(ev):
        if ev.exc is not None:
            return
        self = ev.args["self"]
        coords = ev.args["coordinates"]
        east, north = np.asarray(coords[0], dtype="float64"), np.asarray(coords[1], dtype="float64")
        given = _INTENDED.get(self)
        if given is None:
            given = {"amplitude": self.amplitude, "region": self.region, "w_east": self.w_east, "w_north": self.w_north}
        else:
            run.count("checker:parameters_from_the_workload_record")
        region = [float(v) for v in given["region"]]
        w_east = float(given["w_east"]) if given["w_east"] is not None else (region[1] - region[0]) / 2.0
        w_north = float(given["w_north"]) if given["w_north"] is not None else (region[3] - region[2]) / 2.0
        amplitude = float(given["amplitude"])
        res = np.asarray(ev.result, dtype="float64")
        run.evaluated("checkerboard_predict")
        witness = {"easting": east, "northing": north, "amplitude": amplitude, "region": region, "w_east": given["w_east"], "w_north": given["w_north"], "result": res,
                   "instance_attributes_now": {"region": list(self.region), "w_east": self.w_east, "w_north": self.w_north}}
        try:
            shape = np.broadcast(east, north).shape
        except ValueError:
            run.count("skipped:unequal_coordinate_shapes")
            return
        if res.shape != shape:
            run.violation("checkerboard_predict", "result shape %s, coordinates broadcast to %s" % (res.shape, shape), witness, key="checker-shape")
            return
        x_e = 2.0 * np.pi * east / w_east
        x_n = 2.0 * np.pi * north / w_north
        expected = amplitude * np.sin(x_e) * np.cos(x_n)
        tol = abs(amplitude) * (8 * EPS * (np.abs(x_e) + np.abs(x_n)) + 8 * EPS) + TINY
        if res.size == 0:
            return
        ratio = np.where(np.isfinite(res), np.abs(res - expected) / tol, np.inf)
        worst = np.unravel_index(int(np.argmax(ratio)), ratio.shape) if ratio.ndim else ()
        run.observe_max("checkerboard_error_over_tolerance", ratio[worst] if np.isfinite(ratio[worst]) else 1e300)
        run.count("checker:default_wavelength" if (given["w_east"] is None or given["w_north"] is None) else "checker:explicit_wavelength")
        if res.size > 1 and np.ptp(expected) > 0:
            run.mark_nontrivial("checker", east, north, amplitude, region, w_east, w_north)
        if not ratio[worst] <= 1:
            run.violation("checkerboard_predict", "at (%r, %r): got %r, amplitude*sin(2 pi e/w_east)*cos(2 pi n/w_north) = %r with w_east=%r w_north=%r (tolerance %.3g)"
                          % (float(np.broadcast_to(east, shape)[worst]), float(np.broadcast_to(north, shape)[worst]), float(res[worst]),
                             float(expected[worst]), w_east, w_north, float(np.broadcast_to(tol, shape)[worst])),
                          dict(witness, expected=expected), key="checker-value")

    # -- Linear / Cubic --------------------------------------------------------
    def post_scipy_fit(ev):
        self = ev.args["self"]
        fitted.pop(self, None)
        if ev.exc is not None:
            return
        coords, data = ev.args["coordinates"], ev.args["data"]
        try:
            east, north = np.array(np.ravel(np.asarray(coords[0])), dtype="float64"), np.array(np.ravel(np.asarray(coords[1])), dtype="float64")
            values = np.array(np.ravel(np.asarray(data)), dtype="float64")
        except (TypeError, ValueError):
            return
        name = type(self).__name__
        if name == "Linear":
            cls, kwargs = si.LinearNDInterpolator, {"rescale": bool(self.rescale)}
        elif name == "Cubic":
            cls, kwargs = si.CloughTocher2DInterpolator, {"rescale": bool(self.rescale)}
        elif name == "ScipyGridder" and self.method in ("linear", "cubic", "nearest"):
            cls = {"linear": si.LinearNDInterpolator, "cubic": si.CloughTocher2DInterpolator, "nearest": si.NearestNDInterpolator}[self.method]
            kwargs = dict(self.extra_args or {})
        else:
            return
        fitted[self] = {"east": east, "north": north, "data": values, "cls": cls, "kwargs": kwargs, "interp": None, "name": name}

    def post_scipy_predict(ev):
        if ev.exc is not None:
            return
        self = ev.args["self"]
        rec = fitted.get(self)
        if rec is None:
            run.count("skipped:scipy_predict_without_observed_fit")
            return
        coords = ev.args["coordinates"]
        east, north = np.asarray(coords[0], dtype="float64"), np.asarray(coords[1], dtype="float64")
        if east.shape != north.shape:
            run.count("skipped:unequal_coordinate_shapes")
            return
        if rec["interp"] is None:
            rec["interp"] = rec["cls"](np.column_stack([rec["east"], rec["north"]]), rec["data"], **rec["kwargs"])
        expected = np.asarray(rec["interp"]((east, north)), dtype="float64")
        res = np.asarray(ev.result, dtype="float64")
        run.evaluated("scipy_predict")
        run.count("scipy:%s:rescale=%s" % (rec["name"], rec["kwargs"].get("rescale")))
        witness = {"gridder": rec["name"], "kwargs": rec["kwargs"], "data_east": rec["east"], "data_north": rec["north"], "data": rec["data"],
                   "query_east": east, "query_north": north, "result": res, "expected": expected}
        if res.shape != expected.shape:
            run.violation("scipy_predict", "result shape %s, SciPy returns %s" % (res.shape, expected.shape), witness, key="scipy-shape")
            return
        nan_res, nan_exp = np.isnan(res), np.isnan(expected)
        run.count("scipy:nan_predictions", int(np.count_nonzero(nan_exp)))
        run.count("scipy:finite_predictions", int(np.count_nonzero(~nan_exp)))
        if rec["east"].size >= 4 and np.any(~nan_exp):
            run.mark_nontrivial("scipy", rec["name"], rec["kwargs"], rec["east"], rec["north"], rec["data"], east, north)
        if not np.array_equal(nan_res, nan_exp):
            k = np.argwhere(nan_res != nan_exp)[0]
            run.violation("scipy_predict", "%s(rescale=%s): NaN pattern differs from SciPy's %s at query %s"
                          % (rec["name"], rec["kwargs"].get("rescale"), rec["cls"].__name__, tuple(int(v) for v in k)), witness, key="scipy-nan")
            return
        scale = float(np.max(np.abs(rec["data"]))) if rec["data"].size else 0.0
        tol = 1e-12 * scale + TINY
        if np.any(~nan_exp):
            err = float(np.max(np.abs(res[~nan_exp] - expected[~nan_exp])))
            run.observe_max("scipy_error_over_tolerance", err / tol)
            if not err <= tol:
                run.violation("scipy_predict", "%s(rescale=%s) differs from SciPy's %s on the same points by %.3g (tolerance %.3g)"
                              % (rec["name"], rec["kwargs"].get("rescale"), rec["cls"].__name__, err, tol), witness, key="scipy-value")

    tap.method(verde.Spline, "jacobian", post=post_spline_jacobian, subclasses=False, documented={"dtype": "float64"})
    tap.method(verde.Spline, "predict", post=post_spline_predict, subclasses=False)
    tap.method(verde.VectorSpline2D, "jacobian", post=post_vector_jacobian, subclasses=False, documented={"dtype": "float64"})
    tap.method(verde.VectorSpline2D, "predict", post=post_vector_predict, subclasses=False)
    tap.method(verde.Trend, "jacobian", post=post_trend_jacobian, subclasses=False, documented={"dtype": "float64"})
    tap.method(verde.Trend, "predict", post=post_trend_predict, subclasses=False)
    tap.method(vsyn.CheckerBoard, "predict", post=post_checker_predict, subclasses=False)
    tap.method(vsg._BaseScipyGridder, "fit", post=post_scipy_fit, subclasses=False, documented={"weights": None})
    tap.method(vsg._BaseScipyGridder, "predict", post=post_scipy_predict, subclasses=False)


# ----------------------------------------------------------------------
# workloads
# ----------------------------------------------------------------------
ULP1 = float(np.spacing(1.0))
E = float(np.e)
LADDER = [0.0] + [2.0 ** -k for k in (40, 30, 20, 10, 3, 1)] + [1e-12, 1e-10, 1e-8, 1e-6, 1e-4, 1e-2, 0.1, 0.3, 0.9] + [
    float(np.nextafter(1.0, 0.0)), float(np.nextafter(np.nextafter(1.0, 0.0), 0.0)), 1.0, float(np.nextafter(1.0, 2.0)), 1.0 + 2 * ULP1,
    1.5, 2.0, 2.5, float(np.nextafter(E, 0.0)), E, float(np.nextafter(E, 4.0)), 3.0, 10.0, 143.0, 144.0, 150.0, 999.0, 1e3, 1e4, 1e6, 1e8]
MINDISTS = [0.0, 0.0, 0.0, 1e-3, 1e-1, 1.0, 10.0, 1e4]


def _ladder_points(rng, extra=8):
    """Observation points around the origin at exactly representable distances (axes and 3-4-5 directions)."""
    east, north = [], []
    dists = list(LADDER) + [float(10 ** rng.uniform(-12, 8)) for _ in range(extra)]
    for r in dists:
        kind = int(rng.integers(0, 6))
        if kind < 4:
            sign = -1.0 if kind % 2 else 1.0
            pt = (sign * r, 0.0) if kind < 2 else (0.0, sign * r)
        else:  # 3-4-5 direction: exact when r/5 is a power of two, otherwise a general oblique direction
            s = r / 5.0
            pt = (3.0 * s, -4.0 * s) if kind == 4 else (-4.0 * s, 3.0 * s)
        east.append(pt[0])
        north.append(pt[1])
    # exact 3-4-5 triangles at binary scales and at 1e8
    for s in (2.0 ** -30, 2.0 ** -3, 0.2 * 1.0, 1.0, 2.0 ** 20, 2e7):
        east.append(3.0 * s)
        north.append(4.0 * s)
    order = rng.permutation(len(east))
    return np.array(east)[order], np.array(north)[order]


def _reshape_query(rng, east, north):
    """The same query points as 0-d, 1-D, 2-D or 3-D arrays (C order sequence preserved); returns list of (name, e, n)."""
    out = [("1d", east, north)]
    size = east.size
    for rows in (2, 3, 4, 5, 7):
        if size % rows == 0 and size // rows > 1:
            out.append(("2d", east.reshape(rows, -1), north.reshape(rows, -1)))
            break
    for a, b in ((2, 2), (2, 3), (3, 2), (2, 5)):
        if size % (a * b) == 0 and size // (a * b) >= 1:
            out.append(("3d", east.reshape(a, b, -1), north.reshape(a, b, -1)))
            break
    k = int(rng.integers(0, size))
    out.append(("0d", np.float64(east[k]), np.float64(north[k])) if rng.random() < 0.5 else ("0d", np.array(east[k]), np.array(north[k])))
    return out


def _hand_spline(verde, mindist, fe, fn, forces):
    with warnings.catch_warnings():
        warnings.simplefilter("ignore")
        est = verde.Spline()
    est.mindist = mindist
    est.force_coords_ = (fe, fn)
    est.force_ = forces
    est.region_ = (float(fe.min()), float(fe.max()), float(fn.min()), float(fn.max()))
    return est


def run_case(run, tap, stream, index, rng):
    import verde

    with warnings.catch_warnings():
        warnings.simplefilter("ignore")
        np_err = np.seterr(all="ignore")
        try:
            _STREAMS[stream](run, rng, verde, index)
        finally:
            np.seterr(**np_err)


def _stream_ladder(run, rng, verde, index):
    mindist = float(MINDISTS[index % len(MINDISTS)])
    east, north = _ladder_points(rng)
    n_extra = int(rng.integers(0, 4))
    fe = np.concatenate([[0.0], rng.choice(east, n_extra)])
    fn = np.concatenate([[0.0], rng.choice(north, n_extra)])
    if n_extra:  # the extra forces sit on observation points: coincident pairs away from the origin
        pick = rng.integers(0, east.size, n_extra)
        fe[1:], fn[1:] = east[pick], north[pick]
    spl = verde.Spline(mindist=mindist) if mindist else verde.Spline()
    spl.jacobian((east, north), (fe, fn))
    m = fe.size
    for j in range(m):  # unit force vectors: single kernels visible through predict
        unit = np.zeros(m)
        unit[j] = 1.0
        est = _hand_spline(verde, mindist, fe, fn, unit)
        est.predict((east, north))
    forces = rng.normal(size=m) * 10 ** rng.uniform(-3, 3)
    est = _hand_spline(verde, mindist, fe, fn, forces)
    for _name, qe, qn in _reshape_query(rng, east, north):
        est.predict((qe, qn))
    # the vector spline over the same ladder (mindist > 0 keeps r = 0 out)
    poisson = float(rng.choice([-1.0, -0.5, 0.0, 0.25, 0.5, 1.0]))
    vmd = mindist if index % 2 else float(rng.choice([1e-3, 1.0, 10e3]))
    vec = verde.VectorSpline2D(poisson=poisson, mindist=vmd, force_coords=(fe, fn))
    vec.jacobian((east, north), (fe, fn))
    for j in range(2 * m):
        unit = np.zeros(2 * m)
        unit[j] = 1.0
        vec.force_ = unit
        vec.predict((east, north))
    run.sample("ladder", {"mindist": mindist, "force_east": fe, "force_north": fn, "easting": east, "northing": north,
                          "compared": "Spline.jacobian / predict entries with r^2(ln r - 1) at r = |delta| + mindist; VectorSpline2D kernels at the same points"})


def _stream_pairs(run, rng, verde, index):
    n = int(rng.integers(3, 120))
    scale = gen.log_uniform(rng, 1e-6, 1e8)
    east, north = gen.cloud(rng, n, scale=scale)
    mode = int(rng.integers(0, 3))
    if mode == 0:  # forces at the data: coincident pairs on the diagonal
        fe, fn = east.copy(), north.copy()
    elif mode == 1:  # separate forces, a few of them on data points
        m = int(rng.integers(1, n + 1))
        fe, fn = gen.cloud(rng, m, scale=scale, offset_factor=0.0)
        fe, fn = fe + east.min(), fn + north.min()
        k = min(m, 3)
        pick = rng.integers(0, n, k)
        fe[:k], fn[:k] = east[pick], north[pick]
    else:  # a subset of the data
        pick = rng.permutation(n)[: int(rng.integers(1, n + 1))]
        fe, fn = east[pick].copy(), north[pick].copy()
    mindist = float(rng.choice(MINDISTS)) * (1.0 if rng.random() < 0.5 else scale)
    spl = verde.Spline(mindist=mindist) if mindist else verde.Spline()
    spl.jacobian((east, north), (fe, fn))
    if rng.random() < 0.5:
        spl.jacobian((east.reshape(1, -1), north.reshape(1, -1)), (fe, fn))
    m = fe.size
    forces = rng.normal(size=m) * 10 ** rng.uniform(-3, 3)
    est = _hand_spline(verde, mindist, fe, fn, forces)
    q = int(rng.integers(1, 61))
    qe = np.concatenate([rng.uniform(east.min(), east.max(), q), fe[:3]])
    qn = np.concatenate([rng.uniform(north.min(), north.max(), q), fn[:3]])
    for _name, a, b in _reshape_query(rng, qe, qn):
        est.predict((a, b))
    unit = np.zeros(m)
    unit[int(rng.integers(0, m))] = float(rng.choice([1.0, -2.5]))
    _hand_spline(verde, mindist, fe, fn, unit).predict((qe, qn))
    run.sample("pairs", {"n_data": n, "n_forces": m, "scale": scale, "mindist": mindist, "forces_at": ["data", "separate", "subset"][mode],
                         "compared": "every Jacobian entry and every prediction with hand-set forces"})


def _dyadic(rng, n, bits, span):
    return rng.integers(-span, span, n).astype("float64") * 2.0 ** -bits


def _stream_translation(run, rng, verde, index):
    n, m = int(rng.integers(2, 40)), int(rng.integers(1, 20))
    bits = int(rng.integers(0, 21))
    span = 2 ** int(rng.integers(4, 21))
    east, north = _dyadic(rng, n, bits, span), _dyadic(rng, n, bits, span)
    fe, fn = _dyadic(rng, m, bits, span), _dyadic(rng, m, bits, span)
    k = min(n, m, 2)
    fe[:k], fn[:k] = east[:k], north[:k]
    # dyadic shifts with |coordinate + shift| * 2^bits < 2^50: all sums and differences stay exact
    room = 2 ** int(rng.integers(1, 50 - int(np.log2(span)) - 1))
    se, sn = (float(rng.integers(-room, room)) * 2.0 ** -bits for _ in range(2))
    mindist = float(rng.choice([0.0, 0.0, 2.0 ** -5, 1.0, 1e3]))
    spl = verde.Spline(mindist=mindist) if mindist else verde.Spline()
    base = spl.jacobian((east, north), (fe, fn)).copy()
    moved = spl.jacobian((east + se, north + sn), (fe + se, fn + sn))
    exact = np.array_equal((east + se) - (fe[0] + se), east - fe[0]) and np.array_equal((north + sn) - (fn[0] + sn), north - fn[0])
    if not exact:
        run.count("skipped:translation_not_exact")
    else:
        run.evaluated("translation_invariance")
        run.mark_nontrivial("translation", east, north, fe, fn, se, sn, mindist)
        if not np.array_equal(base, moved):
            run.violation("translation_invariance", "Spline.jacobian changed under an exact translation of all coordinates by (%r, %r): max difference %.3g"
                          % (se, sn, float(np.max(np.abs(base - moved)))),
                          {"east": east, "north": north, "force_east": fe, "force_north": fn, "shift": [se, sn], "mindist": mindist}, key="translation-spline")
        vmd = float(rng.choice([2.0 ** -5, 1.0, 1e3]))
        vec = verde.VectorSpline2D(poisson=float(rng.choice([-1.0, 0.0, 0.5, 1.0])), mindist=vmd)
        vbase = vec.jacobian((east, north), (fe, fn)).copy()
        vmoved = vec.jacobian((east + se, north + sn), (fe + se, fn + sn))
        run.evaluated("translation_invariance")
        if not np.array_equal(vbase, vmoved):
            run.violation("translation_invariance", "VectorSpline2D.jacobian changed under an exact translation by (%r, %r): max difference %.3g"
                          % (se, sn, float(np.max(np.abs(vbase - vmoved)))),
                          {"east": east, "north": north, "force_east": fe, "force_north": fn, "shift": [se, sn], "mindist": vmd, "poisson": vec.poisson},
                          key="translation-vector")
    run.sample("translation", {"bits": bits, "shift": [se, sn], "east": east[:6], "north": north[:6], "compared": "bit-identical Jacobians before/after the shift"})


def _stream_vector(run, rng, verde, index):
    n = int(rng.integers(2, 70))
    scale = gen.log_uniform(rng, 1e-4, 1e7)
    east, north = gen.cloud(rng, n, scale=scale)
    if rng.random() < 0.5:
        fe, fn = east.copy(), north.copy()
    else:
        m = int(rng.integers(1, n + 1))
        pick = rng.permutation(n)[:m]
        fe, fn = east[pick] + (rng.random(m) < 0.5) * rng.normal(0, 0.05 * scale, m), north[pick] + (rng.random(m) < 0.5) * rng.normal(0, 0.05 * scale, m)
    m = fe.size
    poisson = float(rng.choice([-1.0, 1.0, 0.5, 0.0, rng.uniform(-1, 1), rng.uniform(-1, 1)]))
    mindist = float(rng.choice([0.0, 1e-3, 1.0, 10e3, 0.05 * scale, scale]))
    vec = verde.VectorSpline2D(poisson=poisson, mindist=mindist, force_coords=(fe, fn))
    vec.jacobian((east, north), (fe, fn))
    q = int(rng.integers(1, 41))
    qe = np.concatenate([rng.uniform(east.min(), east.max(), q), fe[:2]])
    qn = np.concatenate([rng.uniform(north.min(), north.max(), q), fn[:2]])
    vec.force_ = rng.normal(size=2 * m) * 10 ** rng.uniform(-3, 3)
    for _name, a, b in _reshape_query(rng, qe, qn):
        vec.predict((a, b))
    for _ in range(3):
        unit = np.zeros(2 * m)
        unit[int(rng.integers(0, 2 * m))] = 1.0
        vec.force_ = unit
        vec.predict((qe, qn))
    if index % 3 == 0 and mindist > 0:  # a real fit: jacobian nested in fit, then predict with the estimated forces
        data = (gen.smooth_field(rng, east, north, 1.0), gen.smooth_field(rng, east, north, 2.0))
        damping = None if rng.random() < 0.5 else float(10 ** rng.uniform(-6, 1))
        fit = verde.VectorSpline2D(poisson=poisson, mindist=mindist, damping=damping)
        fit.fit((east, north), data)
        fit.predict((qe, qn))
    run.sample("vector", {"n_data": n, "n_forces": m, "poisson": poisson, "mindist": mindist, "scale": scale,
                          "compared": "all four Jacobian blocks and both predicted components with hand-set (unit and random) forces"})


def _stream_trend(run, rng, verde, index):
    degree = index % 7
    n = int(rng.integers(1, 80))
    scale = gen.log_uniform(rng, 1e-2, 1e4)
    east, north = gen.cloud(rng, n, scale=scale, offset_factor=float(rng.choice([0.0, 1.0, 30.0])))
    trend = verde.Trend(degree)
    trend.jacobian((east, north))
    if rng.random() < 0.5 and n % 2 == 0:
        trend.jacobian((east.reshape(2, -1), north.reshape(2, -1)))
    nterms = (degree + 1) * (degree + 2) // 2
    for k in rng.permutation(nterms)[:4]:
        unit = np.zeros(nterms)
        unit[k] = float(rng.choice([1.0, -3.0]))
        trend.coef_ = unit
        trend.predict((east, north))
    trend.coef_ = rng.normal(size=nterms) * 10 ** rng.uniform(-3, 3, nterms)
    q = int(rng.integers(1, 61))
    qe, qn = rng.uniform(east.min() - scale, east.max() + scale, q), rng.uniform(north.min() - scale, north.max() + scale, q)
    for _name, a, b in _reshape_query(rng, qe, qn):
        trend.predict((a, b))
    if n >= 2 * nterms:  # fitted coefficients as well
        fit = verde.Trend(degree).fit((east, north), gen.smooth_field(rng, east, north), None if rng.random() < 0.5 else rng.uniform(0.1, 1, n))
        fit.predict((qe, qn))
        if index % 5 == 0:
            fit.grid(shape=(5, 7))
    run.sample("trend", {"degree": degree, "n": n, "scale": scale, "coef": trend.coef_,
                         "compared": "Jacobian columns = easting^i northing^j in the documented order; predictions with unit and random coefficient vectors"})


def _stream_checker(run, rng, verde, index):
    scale = gen.log_uniform(rng, 1e-2, 1e6)
    w = float(rng.normal() * scale * rng.choice([0.0, 1.0, 100.0]))
    s = float(rng.normal() * scale * rng.choice([0.0, 1.0, 100.0]))
    region = (w, w + float(rng.uniform(0.2, 3) * scale), s, s + float(rng.uniform(0.2, 3) * scale))
    kwargs = {"amplitude": float(rng.normal() * 10 ** rng.uniform(-3, 4)), "region": region}
    mode = index % 4
    if mode in (1, 3):
        kwargs["w_east"] = float(rng.uniform(0.05, 2) * (region[1] - region[0]))
    if mode in (2, 3):
        kwargs["w_north"] = float(rng.uniform(0.05, 2) * (region[3] - region[2]))
    board = verde.synthetic.CheckerBoard(**kwargs)
    q = int(rng.integers(2, 81))
    qe, qn = rng.uniform(region[0], region[1], q), rng.uniform(region[2], region[3], q)
    for _name, a, b in _reshape_query(rng, qe, qn):
        board.predict((a, b))
    board.predict((qe, qn, np.zeros(q)))
    if index % 3 == 0:
        board.grid(shape=(int(rng.integers(3, 12)), int(rng.integers(3, 12))))
        board.scatter(size=30, random_state=int(rng.integers(0, 1000)))
        board.profile(point1=(region[0], region[2]), point2=(region[1], region[3]), size=25)
    if index % 7 == 0:
        verde.synthetic.CheckerBoard().predict((qe, qn))  # all defaults
    run.sample("checker", {"kwargs": kwargs, "compared": "amplitude*sin(2 pi e/w_east)*cos(2 pi n/w_north), default wavelengths = half the region"})


def _stream_scipy(run, rng, verde, index):
    n = int(rng.integers(4, 150))
    east, north = gen.cloud(rng, n, kind=str(rng.choice(["uniform", "jitter", "clusters"])), scale=gen.log_uniform(rng, 1e-2, 1e5),
                            offset_factor=float(rng.choice([0.0, 1.0, 30.0])))
    if index % 2:  # strongly anisotropic coordinates: rescale changes the triangulation
        north = north * float(10 ** rng.uniform(1.5, 4) if rng.random() < 0.5 else 10 ** -rng.uniform(1.5, 4))
    data = gen.smooth_field(rng, east, north)
    rescale = bool(index % 4 in (1, 2))
    cls = verde.Linear if (index // 4) % 2 == 0 else verde.Cubic
    grd = cls(rescale=rescale)
    try:
        grd.fit((east, north), data)
    except Exception as exc:  # noqa: BLE001 - qhull refusing degenerate input is a documented refusal
        if "Qhull" in type(exc).__name__ or "qhull" in str(exc).lower():
            run.count("refused:qhull")
            return
        raise
    q = int(rng.integers(4, 81))
    tri = rng.integers(0, n, (q, 3))
    wts = rng.dirichlet(np.ones(3), q)
    qe = np.concatenate([(east[tri] * wts).sum(axis=1), rng.uniform(east.min() - np.ptp(east), east.max() + np.ptp(east), 6), east[:3]])
    qn = np.concatenate([(north[tri] * wts).sum(axis=1), rng.uniform(north.min() - np.ptp(north), north.max() + np.ptp(north), 6), north[:3]])
    for _name, a, b in _reshape_query(rng, qe, qn):
        grd.predict((a, b))
    if index % 5 == 0:
        grd.grid(shape=(6, 5))
    if index % 8 == 0:
        sg = verde.ScipyGridder(method=str(rng.choice(["linear", "cubic"])), extra_args={"rescale": rescale})
        sg.fit((east, north), data)
        sg.predict((qe, qn))
    run.sample("scipy", {"gridder": cls.__name__, "rescale": rescale, "n": n, "anisotropic": bool(index % 2),
                         "compared": "values and NaN pattern of SciPy's interpolator built by the monitor from the observed fit arguments"})


def _stream_fitted(run, rng, verde, index):
    n = int(rng.integers(5, 90))
    scale = gen.log_uniform(rng, 1e-1, 1e6)
    east, north = gen.cloud(rng, n, scale=scale)
    data = gen.smooth_field(rng, east, north)
    q = int(rng.integers(2, 40))
    qe, qn = rng.uniform(east.min(), east.max(), q), rng.uniform(north.min(), north.max(), q)
    mode = index % 6
    damping = None if rng.random() < 0.4 else float(10 ** rng.uniform(-8, 2))
    mindist = float(rng.choice([0.0, 0.0, 1e-3 * scale, 0.1 * scale]))
    kwargs = {"damping": damping}
    if mindist:
        kwargs["mindist"] = mindist
    if rng.random() < 0.3:
        m = max(1, n // 2)
        kwargs["force_coords"] = (rng.uniform(east.min(), east.max(), m), rng.uniform(north.min(), north.max(), m))
    weights = None if rng.random() < 0.5 else rng.uniform(0.1, 2, n)
    if mode == 0:
        est = verde.Spline(**kwargs).fit((east, north), data, weights)
        est.predict((qe, qn))
        est.predict((east, north))
        est.grid(shape=(6, 7))
        est.profile(point1=(east.min(), north.min()), point2=(east.max(), north.max()), size=15)
    elif mode == 1:
        est = verde.Chain([("trend", verde.Trend(int(rng.integers(0, 4)))), ("spline", verde.Spline(**kwargs))]).fit((east, north), data, weights)
        est.predict((qe, qn))
        est.grid(shape=(5, 4))
    elif mode == 2:
        est = verde.Vector([verde.Trend(int(rng.integers(1, 4))), verde.Spline(**kwargs)])
        est.fit((east, north), (data, gen.smooth_field(rng, east, north)), None if weights is None else (weights, weights[::-1].copy()))
        est.predict((qe.reshape(1, -1), qn.reshape(1, -1)))
        est.scatter(size=20, random_state=1)
    elif mode == 3:
        vec = verde.VectorSpline2D(poisson=float(rng.uniform(-1, 1)), mindist=float(rng.choice([0.05, 0.5]) * scale), damping=damping)
        vec.fit((east, north), (data, gen.smooth_field(rng, east, north)), None if weights is None else (weights, weights[::-1].copy()))
        vec.predict((qe, qn))
        vec.grid(shape=(4, 6))
    elif mode == 4:
        est = verde.Spline(**kwargs).fit((east.reshape(1, -1), north.reshape(1, -1)), data.reshape(1, -1), None if weights is None else weights.reshape(1, -1))
        est.predict((qe, qn))
        est.scatter(size=25, random_state=3)
        lin = verde.Chain([("trend", verde.Trend(1)), ("linear", verde.Linear())]).fit((east, north), data)
        lin.predict((east, north))
    else:
        if n >= 12 and index % 12 == 5:
            import sklearn.model_selection as skm

            cv = verde.SplineCV(dampings=(1e-5, 1e-2), mindists=(1e-3 * scale,), cv=skm.KFold(3, shuffle=True, random_state=0))
            cv.fit((east, north), data)
            cv.predict((qe, qn))
        else:
            est = verde.Spline(**kwargs).fit((east, north), data, weights)
            for _name, a, b in _reshape_query(rng, qe, qn):
                est.predict((a, b))
    run.sample("fitted", {"mode": mode, "n": n, "kwargs": {k: v for k, v in kwargs.items() if k != "force_coords"},
                          "compared": "jacobian inside fit and every predict (direct, grid, scatter, profile, chain / vector steps) with the estimated parameters"})


def _stream_integer(run, rng, verde, index):
    """The same formulas for integer-typed coordinates: values whose squares / powers overflow int32 or int64 included."""
    dt = ("int32", "int64")[index % 2]
    cls = index % 3  # 0: small, 1: overflows int32 arithmetic, 2: overflows int64 arithmetic (int64 dtype only)
    if cls == 2 and dt == "int32":
        cls = 1
    m, q = int(rng.integers(1, 12)), int(rng.integers(4, 25))
    q -= q % 2
    # spline family: squared coordinate differences
    radius = (200, 60000, 4_000_000_000)[cls]
    if dt == "int32":
        radius = min(radius, 2 ** 30)
    fe, fn = rng.integers(-radius, radius + 1, m).astype(dt), rng.integers(-radius, radius + 1, m).astype(dt)
    qe, qn = rng.integers(-radius, radius + 1, q).astype(dt), rng.integers(-radius, radius + 1, q).astype(dt)
    qe[0], qn[0] = fe[0], fn[0]  # a coincident pair
    forces = rng.normal(size=m) * 10 ** rng.uniform(-3, 3)
    mindist = float(rng.choice([0.0, 0.0, 1.0, 1e3]))
    force_as = (fe, fn) if index % 4 < 2 else (fe.astype("float64"), fn.astype("float64"))
    est = _hand_spline(verde, mindist, force_as[0], force_as[1], forces)
    est.predict((qe, qn))
    est.predict((qe.reshape(2, -1), qn.reshape(2, -1)))
    est.jacobian((qe, qn), force_as)
    vec = verde.VectorSpline2D(poisson=float(rng.choice([-1.0, 0.0, 0.5, 1.0])), mindist=float(rng.choice([1.0, 10.0, 1e4])), force_coords=force_as)
    vec.force_ = rng.normal(size=2 * m) * 10 ** rng.uniform(-3, 3)
    vec.predict((qe, qn))
    vec.predict((qe.reshape(2, -1), qn.reshape(2, -1)))
    vec.jacobian((qe, qn), force_as)
    # trend: monomials easting^i northing^j
    degree = index % 7
    tradius = (30, 3000, 3_000_000)[cls]
    te, tn = rng.integers(-tradius, tradius + 1, q).astype(dt), rng.integers(-tradius, tradius + 1, q).astype(dt)
    te[0], tn[0] = tradius, -tradius
    trend = verde.Trend(degree)
    nterms = (degree + 1) * (degree + 2) // 2
    trend.coef_ = rng.normal(size=nterms) * 10 ** rng.uniform(-3, 3, nterms)
    trend.predict((te, tn))
    trend.predict((te.reshape(2, -1), tn.reshape(2, -1)))
    unit = np.zeros(nterms)
    unit[-1] = 1.0
    trend.coef_ = unit
    trend.predict((te, tn))
    trend.jacobian((te, tn))
    limit = float(np.iinfo(dt).max)
    run.count("integer:%s:%s" % (dt, ("small", "beyond_int32_arithmetic", "beyond_int64_arithmetic")[cls]))
    if 2.0 * float(radius) ** 2 > limit:
        run.count("integer:squares_overflow_the_dtype")
    if float(tradius) ** degree > limit:
        run.count("integer:powers_overflow_the_dtype")
    run.sample("integer", {"dtype": dt, "radius": radius, "trend_radius": tradius, "degree": degree, "query_east": qe, "query_north": qn,
                           "compared": "predict / jacobian on integer-typed coordinates against the float64 reference of the same values"})


def _stream_history(run, rng, verde, index):
    """Life-cycle histories: evaluate, change a parameter on the SAME object, evaluate again - the formula must use the CURRENT parameters."""
    kind = index % 6
    run.count("history:" + ("checkerboard", "spline", "vector", "trend", "scipy_rescale_refit", "scipy_class_state")[kind])
    if kind == 0:
        _history_checker(run, rng, verde, index)
    elif kind == 1:
        n, m = int(rng.integers(3, 30)), int(rng.integers(1, 10))
        m = min(m, n)
        scale = gen.log_uniform(rng, 1e-2, 1e5)
        qe, qn = gen.cloud(rng, n, scale=scale)
        fe, fn = qe[:m].copy() + rng.normal(0, 0.1 * scale, m) * (rng.random(m) < 0.5), qn[:m].copy()
        est = _hand_spline(verde, 0.0, fe, fn, rng.normal(size=m))
        est.predict((qe, qn))
        est.jacobian((qe, qn), (fe, fn))
        for step in range(3):
            change = int(rng.integers(0, 4))
            if change == 0:
                md = float(rng.choice([0.0, 1e-3, 1.0, 0.3 * scale]))
                if rng.random() < 0.5:
                    est.set_params(mindist=md)
                else:
                    est.mindist = md
            elif change == 1:
                est.force_ = rng.normal(size=est.force_.size) * 10 ** rng.uniform(-3, 3)
            elif change == 2:
                k = int(rng.integers(1, 10))
                est.force_coords_ = (rng.uniform(qe.min(), qe.max(), k), rng.uniform(qn.min(), qn.max(), k))
                est.force_ = rng.normal(size=k)
            else:  # a real fit replaces hand-set parameters
                est.set_params(damping=float(10 ** rng.uniform(-6, 0)))
                est.fit((qe, qn), gen.smooth_field(rng, qe, qn, 1.0))
            est.predict((qe, qn))
            est.jacobian((qe, qn), est.force_coords_)
            run.count("history:spline_change=%d" % change)
    elif kind == 2:
        n, m = int(rng.integers(3, 25)), int(rng.integers(1, 8))
        m = min(m, n)
        scale = gen.log_uniform(rng, 1e-1, 1e5)
        qe, qn = gen.cloud(rng, n, scale=scale)
        fc = (qe[:m].copy(), qn[:m].copy())
        vec = verde.VectorSpline2D(poisson=0.5, mindist=float(0.1 * scale), force_coords=fc)
        vec.force_ = rng.normal(size=2 * m)
        vec.predict((qe, qn))
        vec.jacobian((qe, qn), fc)
        for step in range(3):
            change = int(rng.integers(0, 3))
            if change == 0:
                nu = float(rng.choice([-1.0, 0.0, 0.25, 1.0, rng.uniform(-1, 1)]))
                if rng.random() < 0.5:
                    vec.set_params(poisson=nu)
                else:
                    vec.poisson = nu
            elif change == 1:
                vec.set_params(mindist=float(rng.choice([1e-3, 0.03, 1.0]) * scale))
            else:
                vec.force_ = rng.normal(size=2 * m) * 10 ** rng.uniform(-3, 3)
            vec.predict((qe, qn))
            vec.jacobian((qe, qn), fc)
            run.count("history:vector_change=%d" % change)
    elif kind == 3:
        n = int(rng.integers(2, 40))
        qe, qn = gen.cloud(rng, n, scale=gen.log_uniform(rng, 1e-2, 1e3), offset_factor=float(rng.choice([0.0, 1.0])))
        trend = verde.Trend(int(rng.integers(0, 7)))
        for step in range(4):
            nterms = (trend.degree + 1) * (trend.degree + 2) // 2
            trend.coef_ = rng.normal(size=nterms)
            if rng.random() < 0.5:
                trend.jacobian((qe, qn))
                trend.predict((qe, qn))
            else:
                trend.predict((qe, qn))
                trend.jacobian((qe, qn))
            degree = int(rng.integers(0, 7))
            if rng.random() < 0.5:
                trend.set_params(degree=degree)
            else:
                trend.degree = degree
            trend.jacobian((qe, qn))  # the Jacobian follows the new degree at once (coef_ is replaced at the top of the loop)
    else:
        n = int(rng.integers(8, 60))
        east, north = gen.cloud(rng, n, kind="uniform", scale=gen.log_uniform(rng, 1e-1, 1e4), offset_factor=0.0)
        north = north * float(10 ** rng.uniform(2, 4))  # strongly anisotropic: rescale changes the triangulation
        data = gen.smooth_field(rng, east, north)
        tri = rng.integers(0, n, (20, 3))
        wts = rng.dirichlet(np.ones(3), 20)
        query = ((east[tri] * wts).sum(axis=1), (north[tri] * wts).sum(axis=1))
        classes = (verde.Linear, verde.Cubic)
        try:
            if kind == 4:  # rescale changed between two fits of the same instance
                grd = classes[index // 6 % 2](rescale=bool(index // 12 % 2))
                grd.fit((east, north), data)
                grd.predict(query)
                if rng.random() < 0.5:
                    grd.set_params(rescale=not grd.rescale)
                else:
                    grd.rescale = not grd.rescale
                grd.fit((east, north), data)
                grd.predict(query)
            else:  # instances of the same and of the sibling class created and fitted one after the other with different settings
                order = [(classes[int(rng.integers(0, 2))], True)] + [(classes[k % 2], bool(rng.random() < 0.4)) for k in range(4)]
                fitted = []
                for cls, rescale in order:
                    grd = cls(rescale=rescale)
                    grd.fit((east, north), data)
                    fitted.append(grd)
                    grd.predict(query)
                for grd in fitted:  # and again after all of them exist
                    grd.predict(query)
        except Exception as exc:  # noqa: BLE001
            if "qhull" in (type(exc).__name__ + str(exc)).lower():
                run.count("refused:qhull")
                return
            raise
    run.sample("history", {"kind": kind, "compared": "every predict / jacobian after a parameter change on the same object against the formula with the current parameters"})


def _history_checker(run, rng, verde, index):
    def random_region():
        scale = gen.log_uniform(rng, 1e-1, 1e5)
        w, s_ = float(rng.normal() * scale), float(rng.normal() * scale)
        return (w, w + float(rng.uniform(0.3, 3) * scale), s_, s_ + float(rng.uniform(0.3, 3) * scale))

    region = random_region()
    board = verde.synthetic.CheckerBoard(region=region) if index % 12 else verde.synthetic.CheckerBoard()
    _intend(board, **({"region": region} if index % 12 else {}))

    def evaluate():
        reg = _INTENDED[board]["region"]
        q = int(rng.integers(4, 30))
        qe, qn = rng.uniform(reg[0], reg[1], q), rng.uniform(reg[2], reg[3], q)
        how = int(rng.integers(0, 5))
        if how == 0:
            board.predict((qe, qn))
        elif how == 1:
            board.grid(shape=(int(rng.integers(3, 8)), int(rng.integers(3, 8))))
        elif how == 2:
            board.scatter(size=12, random_state=int(rng.integers(0, 100)))
        elif how == 3:
            board.profile(point1=(reg[0], reg[2]), point2=(reg[1], reg[3]), size=9)
        # reading the public wavelength attributes
        given = _INTENDED[board]
        want_e = given["w_east"] if given["w_east"] is not None else (given["region"][1] - given["region"][0]) / 2
        want_n = given["w_north"] if given["w_north"] is not None else (given["region"][3] - given["region"][2]) / 2
        got_e, got_n = board.w_east_, board.w_north_
        run.evaluated("checkerboard_wavelengths")
        if not (abs(got_e - want_e) <= 4 * EPS * abs(want_e) and abs(got_n - want_n) <= 4 * EPS * abs(want_n)):
            run.violation("checkerboard_wavelengths", "w_east_, w_north_ = %r, %r; with the current parameters they are %r, %r (region %r, w_east=%r, w_north=%r)"
                          % (got_e, got_n, want_e, want_n, list(given["region"]), given["w_east"], given["w_north"]),
                          {"given": dict(given, region=list(given["region"])), "w_east_": got_e, "w_north_": got_n}, key="checker-wavelength-property")
        board.predict((qe, qn))

    evaluate()
    for step in range(3):
        change = int(rng.integers(0, 5))
        if change == 0:
            new = {"region": random_region()}
        elif change == 1:
            new = {"amplitude": float(rng.normal() * 10 ** rng.uniform(-2, 3))}
        elif change == 2:
            reg = _INTENDED[board]["region"]
            new = {"w_east": float(rng.uniform(0.1, 2) * (reg[1] - reg[0]))}
        elif change == 3:
            reg = _INTENDED[board]["region"]
            new = {"w_north": float(rng.uniform(0.1, 2) * (reg[3] - reg[2]))}
        else:
            new = {"region": random_region(), "w_east": None, "w_north": None}
        if rng.random() < 0.5:
            board.set_params(**new)
        else:
            for key, val in new.items():
                setattr(board, key, val)
        _intend(board, **new)
        run.count("history:checker_change=%s" % "+".join(sorted(new)))
        evaluate()


def _spellings_of(value, rng):
    """Equivalent spellings of an integer-valued or boolean option value: (label, object) pairs."""
    if isinstance(value, bool):
        return [("bool", value), ("numpy.bool_", np.bool_(value)), ("comparison", np.float64(1.0) > (0.0 if value else 2.0)), ("int", int(value)),
                ("0-d array", np.array(value)), ("numpy.int64", np.int64(int(value)))]
    v = int(value)
    return [("int", v), ("float", float(v)), ("numpy.int64", np.int64(v)), ("numpy.int32", np.int32(v)), ("numpy.float64", np.float64(v)), ("numpy.float32", np.float32(v))]


def _construct(cls, how, name, value, rng, positional_index=None, placeholder=None, **others):
    """Give one option to an estimator positionally, by keyword or through set_params."""
    if how == "positional" and positional_index == 0:
        return cls(value, **others)
    if how == "set_params":
        obj = cls(**others) if placeholder is None else cls(**dict(others, **{name: placeholder}))
        obj.set_params(**{name: value})
        return obj
    return cls(**dict(others, **{name: value}))


def _stream_spelling(run, rng, verde, index):
    """The same option VALUE in another spelling (numpy scalar, int for float, 0-d array ...) must evaluate the same documented formula."""
    kind = index % 5
    how = ("keyword", "positional", "set_params")[(index // 5) % 3]
    if kind == 0:  # Linear / Cubic rescale on strongly anisotropic coordinates
        n = int(rng.integers(8, 50))
        east, north = gen.cloud(rng, n, kind="uniform", scale=gen.log_uniform(rng, 1e-1, 1e4), offset_factor=0.0)
        north = north * float(10 ** rng.uniform(2, 4))
        data = gen.smooth_field(rng, east, north)
        tri = rng.integers(0, n, (16, 3))
        wts = rng.dirichlet(np.ones(3), 16)
        query = ((east[tri] * wts).sum(axis=1), (north[tri] * wts).sum(axis=1))
        cls = (verde.Linear, verde.Cubic)[(index // 15) % 2]
        flag = bool((index // 30) % 2 == 0)  # True first: it is the value that differs from the default
        for label, value in _spellings_of(flag, rng):
            grd = _construct(cls, how, "rescale", value, rng, positional_index=0)
            try:
                grd.fit((east, north), data)
            except Exception as exc:  # noqa: BLE001
                if "qhull" in (type(exc).__name__ + str(exc)).lower():
                    run.count("refused:qhull")
                    return
                raise
            grd.predict(query)
            run.count("spelling:rescale=%s:%s" % (flag, label))
    elif kind == 1:  # Spline mindist (and damping for the fit) as int / numpy integer
        n = int(rng.integers(4, 40))
        east, north = gen.cloud(rng, n, scale=float(rng.choice([5.0, 50.0, 500.0])), offset_factor=0.0)
        data = gen.smooth_field(rng, east, north, 1.0)
        mindist = int(rng.choice([0, 1, 2, 5]))
        damping = int(rng.choice([1, 3, 10]))
        for label, value in _spellings_of(mindist, rng):
            others = {"damping": _spellings_of(damping, rng)[int(rng.integers(0, 6))][1]}
            spl = _construct(verde.Spline, how, "mindist", value, rng, positional_index=0, **others)
            spl.jacobian((east, north), (east[:5], north[:5]))
            spl.fit((east, north), data)
            spl.predict((east + 0.25, north - 0.5))
            run.count("spelling:mindist:" + label)
    elif kind == 2:  # VectorSpline2D poisson as int -1 / 0 / 1, mindist as integer
        n = int(rng.integers(4, 30))
        east, north = gen.cloud(rng, n, scale=float(rng.choice([20.0, 200.0])), offset_factor=0.0)
        poisson = int(rng.choice([-1, 0, 1]))
        mindist = int(rng.choice([1, 3, 10]))
        fc = (east[: max(1, n // 2)].copy(), north[: max(1, n // 2)].copy())
        for label, value in _spellings_of(poisson, rng):
            others = {"mindist": _spellings_of(mindist, rng)[int(rng.integers(0, 6))][1], "force_coords": fc}
            vec = _construct(verde.VectorSpline2D, how, "poisson", value, rng, positional_index=0, **others)
            vec.jacobian((east, north), fc)
            vec.force_ = rng.normal(size=2 * fc[0].size)
            vec.predict((east + 0.25, north))
            run.count("spelling:poisson=%d:%s" % (poisson, label))
    elif kind == 3:  # Trend degree as numpy integer
        n = int(rng.integers(2, 40))
        east, north = gen.cloud(rng, n, scale=gen.log_uniform(rng, 1e-1, 1e2), offset_factor=0.0)
        degree = int(rng.integers(0, 6))
        nterms = (degree + 1) * (degree + 2) // 2
        for label, value in [("int", degree), ("numpy.int64", np.int64(degree)), ("numpy.int32", np.int32(degree)), ("numpy.intp", np.intp(degree)),
                             ("numpy.uint8", np.uint8(degree)), ("0-d int array", np.array(degree))]:
            trend = _construct(verde.Trend, how, "degree", value, rng, positional_index=0, placeholder=(degree + 1) % 6)
            trend.jacobian((east, north))
            trend.coef_ = rng.normal(size=nterms)
            trend.predict((east, north))
            run.count("spelling:degree:" + label)
    else:  # CheckerBoard amplitude / wavelengths / region entries as ints and numpy scalars; region as list / tuple / ndarray
        w, s_ = int(rng.integers(-50, 50)), int(rng.integers(-50, 50))
        region = [w, w + int(rng.integers(2, 40)), s_, s_ + int(rng.integers(2, 40))]
        amplitude = int(rng.integers(1, 2000)) * int(rng.choice([-1, 1]))
        w_east = None if rng.random() < 0.4 else int(rng.integers(1, 30))
        w_north = None if rng.random() < 0.4 else int(rng.integers(1, 30))
        q = int(rng.integers(4, 20))
        qe, qn = rng.uniform(region[0], region[1], q), rng.uniform(region[2], region[3], q)
        containers = [("list of int", list(region)), ("tuple of int", tuple(region)), ("int64 ndarray", np.array(region, dtype="int64")),
                      ("int32 ndarray", np.array(region, dtype="int32")), ("float ndarray", np.array(region, dtype="float64")),
                      ("tuple of numpy.int64", tuple(np.int64(v) for v in region)), ("list of numpy.float64", [np.float64(v) for v in region])]
        # numpy.float32 wavelengths / region entries are left out: 2*pi / numpy.float32(w) is a float32 division under numpy's scalar promotion,
        # i.e. that spelling declares a precision and is not an equivalent spelling of the same float64 value (observation in the report)
        for (rlabel, reg), (label, amp) in zip(containers, _spellings_of(amplitude, rng) + [("numpy.int64", np.int64(amplitude))]):
            kwargs = {"amplitude": amp, "region": reg}
            if w_east is not None:
                kwargs["w_east"] = _spellings_of(w_east, rng)[int(rng.integers(0, 5))][1]
            if w_north is not None:
                kwargs["w_north"] = _spellings_of(w_north, rng)[int(rng.integers(0, 5))][1]
            if how == "set_params":
                board = verde.synthetic.CheckerBoard()
                board.set_params(**kwargs)
            elif how == "positional":
                board = verde.synthetic.CheckerBoard(kwargs["amplitude"], kwargs["region"], kwargs.get("w_east"), kwargs.get("w_north"))
            else:
                board = verde.synthetic.CheckerBoard(**kwargs)
            _intend(board, amplitude=amplitude, region=tuple(region), w_east=w_east, w_north=w_north)
            board.predict((qe, qn))
            if rng.random() < 0.3:
                board.grid(shape=(4, 5))
            run.count("spelling:region:" + rlabel)
            run.count("spelling:amplitude:" + label)
    run.count("spelling:given_by=" + how)
    run.sample("spelling", {"kind": ("rescale", "mindist", "poisson", "degree", "checkerboard")[kind], "given_by": how,
                            "compared": "predict / jacobian of an estimator whose option value is spelled as numpy scalar / int / 0-d array / other container"})


def _extra_classes(rng, shape):
    """Extra (ignored) coordinate arrays of the query shape: NaN gaps, all NaN, +-inf, integer / bool / float32 dtypes, ordinary values."""
    size = int(np.prod(shape)) if shape else 1
    gaps = rng.normal(size=size) * 1e3
    gaps[rng.random(size) < 0.4] = np.nan
    gaps[int(rng.integers(0, size))] = np.nan
    infs = rng.normal(size=size)
    infs[::2] = np.inf
    infs[int(rng.integers(0, size))] = -np.inf
    mixed = np.where(rng.random(size) < 0.5, np.nan, np.where(rng.random(size) < 0.5, np.inf, -np.inf))
    out = [("nan_gaps", gaps), ("all_nan", np.full(size, np.nan)), ("inf", infs), ("nan_and_inf", mixed), ("int32", rng.integers(-5, 5, size).astype("int32")),
           ("int64_huge", np.full(size, np.iinfo("int64").max)), ("bool", rng.random(size) < 0.5), ("float32_nan", gaps.astype("float32")), ("finite", rng.normal(size=size) * 1e3)]
    return [(name, arr.reshape(shape)) for name, arr in out]


def _same(a, b):
    a, b = (a if isinstance(a, tuple) else (a,)), (b if isinstance(b, tuple) else (b,))
    return len(a) == len(b) and all(np.shape(x) == np.shape(y) and np.array_equal(np.asarray(x), np.asarray(y), equal_nan=True) for x, y in zip(a, b))


def _stream_extras(run, rng, verde, index):
    """
    Coordinates after easting and northing are documented as ignored: a call with extra coordinate arrays holding NaN / inf / other dtypes
    must return what the two-coordinate call returns (measured bit-identical on the unchanged tree) and the monitors on predict judge it
    against the analytic formula as usual (finite wherever easting and northing are finite).
    """
    kind = index % 7
    name = ("Spline(hand-set)", "Spline(fitted)", "VectorSpline2D", "Trend", "Linear", "Cubic", "CheckerBoard")[kind]
    n = int(rng.integers(6, 50))
    scale = gen.log_uniform(rng, 1e-1, 1e5)
    east, north = gen.cloud(rng, n, scale=scale, offset_factor=float(rng.choice([0.0, 1.0])))
    data = gen.smooth_field(rng, east, north)
    q = int(rng.choice([6, 8, 12]))
    tri = np.array([rng.choice(n, 3, replace=False) for _ in range(q)])
    wts = rng.dirichlet(np.ones(3) * 2, q)
    qe, qn = (east[tri] * wts).sum(axis=1), (north[tri] * wts).sum(axis=1)
    region = (float(east.min()), float(east.max()), float(north.min()), float(north.max()))
    fit_extra = rng.normal(size=n)
    fit_extra[rng.random(n) < 0.5] = np.nan
    fit_extra[0] = np.inf
    refit = None  # the same estimator fitted with an extra coordinate full of NaN / inf: the fit ignores it as well
    try:
        if kind == 0:
            m = min(n, int(rng.integers(1, 8)))
            est = _hand_spline(verde, float(rng.choice([0.0, 0.0, 1e-2 * scale])), east[:m].copy(), north[:m].copy(), rng.normal(size=m))
        elif kind == 1:
            damping = float(10 ** rng.uniform(-6, 0))
            est = verde.Spline(damping=damping).fit((east, north), data)
            refit = verde.Spline(damping=damping).fit((east, north, fit_extra), data)
        elif kind == 2:
            args = {"poisson": float(rng.uniform(-1, 1)), "mindist": float(0.1 * scale), "damping": float(10 ** rng.uniform(-6, 0))}
            data2 = (data, gen.smooth_field(rng, east, north))
            est = verde.VectorSpline2D(**args).fit((east, north), data2)
            refit = verde.VectorSpline2D(**args).fit((east, north, fit_extra, fit_extra[::-1].copy()), data2)
        elif kind == 3:
            degree = int(rng.integers(0, 4))
            est = verde.Trend(degree).fit((east, north), data)
            refit = verde.Trend(degree).fit((east, north, fit_extra), data)
        elif kind in (4, 5):
            cls = verde.Linear if kind == 4 else verde.Cubic
            rescale = bool(rng.random() < 0.5)
            est = cls(rescale=rescale).fit((east, north), data)
            refit = cls(rescale=rescale).fit((east, north, fit_extra), data)
        else:
            est = verde.synthetic.CheckerBoard(amplitude=float(rng.normal() * 100), region=region)
    except Exception as exc:  # noqa: BLE001
        if "qhull" in (type(exc).__name__ + str(exc)).lower():
            run.count("refused:qhull")
            return
        raise

    def judge(what, cls_name, base, got, detail):
        run.evaluated("extra_coordinates_ignored")
        run.count("extras:%s:%s" % (name, cls_name))
        run.count("extras:" + what)
        if not _same(base, got):
            run.violation("extra_coordinates_ignored", "%s.%s with extra coordinate(s) of class %s differs from the call with easting and northing only"
                          % (name, what, cls_name), dict(detail, base=[np.asarray(b) for b in (base if isinstance(base, tuple) else (base,))],
                                                          got=[np.asarray(g) for g in (got if isinstance(got, tuple) else (got,))]),
                          key="extras:%s:%s" % (what, name))
        else:
            run.mark_nontrivial("extras", name, what, cls_name, qe, qn)

    shape = (q,) if index % 3 else (2, q // 2)
    a, b = qe.reshape(shape), qn.reshape(shape)
    base = est.predict((a, b))
    classes = _extra_classes(rng, shape)
    for k, (cls_name, extra) in enumerate(classes):
        detail = {"gridder": repr(est)[:200], "easting": a, "northing": b, "extra": extra, "extra_class": cls_name}
        coords = (a, b, extra) if k % 2 == 0 else (a, b, extra, classes[(k + 3) % len(classes)][1])
        judge("predict", cls_name, base, est.predict(coords), detail)
    if refit is not None:
        judge("fit+predict", "nan_gaps", base, refit.predict((a, b)), {"gridder": repr(est)[:200], "fit_extra": fit_extra})
        if kind not in (4, 5):
            s0, s1 = est.score((east, north), data if kind != 2 else data2), est.score((east, north, fit_extra), data if kind != 2 else data2)
            run.evaluated("extra_coordinates_ignored")
            run.count("extras:score")
            if not (s0 == s1 or (np.isnan(s0) and np.isnan(s1))):
                run.violation("extra_coordinates_ignored", "%s.score with a NaN / inf extra coordinate gives %r, without it %r" % (name, s1, s0),
                              {"gridder": repr(est)[:200], "fit_extra": fit_extra}, key="extras:score:" + name)
    # grid / scatter / profile forward extra_coords to predict
    pick = int(rng.integers(0, 3))
    extra_values = [[np.nan], [np.inf, np.nan], [-np.inf], [7]][int(rng.integers(0, 4))]
    if pick == 0:
        g0 = est.grid(region=region, shape=(4, 5))
        g1 = est.grid(region=region, shape=(4, 5), extra_coords=extra_values)
        names = [v for v in g0.data_vars]
        judge("grid", "extra_coords=%r" % (extra_values,), tuple(g0[v].values for v in names), tuple(g1[v].values for v in names), {"extra_coords": extra_values, "region": list(region)})
    elif pick == 1:
        seed = int(rng.integers(0, 1000))
        t0 = est.scatter(region=region, size=15, random_state=seed)
        t1 = est.scatter(region=region, size=15, random_state=seed, extra_coords=extra_values)
        cols = [c for c in t0.columns if c not in ("easting", "northing")]
        judge("scatter", "extra_coords=%r" % (extra_values,), tuple(t0[c].values for c in cols), tuple(t1[c].values for c in cols), {"extra_coords": extra_values})
    else:
        p1, p2 = (region[0], region[2]), (region[1], region[3])
        t0 = est.profile(point1=p1, point2=p2, size=11)
        t1 = est.profile(point1=p1, point2=p2, size=11, extra_coords=extra_values)
        cols = [c for c in t0.columns if c not in ("easting", "northing", "distance")]
        judge("profile", "extra_coords=%r" % (extra_values,), tuple(t0[c].values for c in cols), tuple(t1[c].values for c in cols), {"extra_coords": extra_values})
    run.sample("extras", {"gridder": name, "query_shape": list(shape), "classes": [c[0] for c in classes],
                          "compared": "predict / fit+predict / score / grid / scatter / profile with NaN, inf, integer, bool extra coordinates against the two-coordinate call (bit-identical) "
                                      "and, through the predict monitors, against the analytic formula"})


def _adopt(copy_obj, original):
    """A copy / unpickled clone of a fitted SciPy-backed gridder is judged against the fit observed on the original."""
    rec = _SCIPY_FITS.get(original)
    if rec is not None:
        _SCIPY_FITS[copy_obj] = dict(rec)


def _values(pred):
    return tuple(np.asarray(p) for p in (pred if isinstance(pred, tuple) else (pred,)))


def _stream_large(run, rng, verde, index):
    """One call with more than 100 000 query points (branches that exist only above a size threshold)."""
    kind = index % 6
    name = ("Trend", "Spline", "VectorSpline2D", "CheckerBoard", "Linear", "Cubic")[kind]
    scale = gen.log_uniform(rng, 1e0, 1e4)
    region = (float(rng.normal() * scale), 0.0, float(rng.normal() * scale), 0.0)
    region = (region[0], region[0] + float(rng.uniform(0.5, 2) * scale), region[2], region[2] + float(rng.uniform(0.5, 2) * scale))
    n = int(rng.integers(8, 40))
    east, north = rng.uniform(region[0], region[1], n), rng.uniform(region[2], region[3], n)
    if kind == 0:
        degree = int(rng.integers(1, 5))
        est = verde.Trend(degree)
        nterms = (degree + 1) * (degree + 2) // 2
        est.coef_ = rng.normal(size=nterms) * np.arange(1, nterms + 1)  # not symmetric under swapping easting and northing
        est.region_ = region
    elif kind == 1:
        m = int(rng.integers(1, 7))
        est = _hand_spline(verde, float(rng.choice([0.0, 0.0, 1e-2 * scale])), east[:m].copy(), north[:m].copy(), rng.normal(size=m))
        est.region_ = region
    elif kind == 2:
        m = int(rng.integers(1, 5))
        est = verde.VectorSpline2D(poisson=float(rng.uniform(-1, 1)), mindist=float(0.05 * scale), force_coords=(east[:m].copy(), north[:m].copy()))
        est.force_ = rng.normal(size=2 * m)
        est.region_ = region
    elif kind == 3:
        est = verde.synthetic.CheckerBoard(amplitude=float(rng.normal() * 100), region=region, w_east=float(rng.uniform(0.1, 1) * scale), w_north=float(rng.uniform(0.1, 1) * scale))
    else:
        cls = verde.Linear if kind == 4 else verde.Cubic
        corners = np.array([[region[0], region[2]], [region[1], region[2]], [region[0], region[3]], [region[1], region[3]]])
        est = cls(rescale=bool(rng.random() < 0.5)).fit((np.concatenate([east, corners[:, 0]]), np.concatenate([north, corners[:, 1]])),
                                                        gen.smooth_field(rng, np.concatenate([east, corners[:, 0]]), np.concatenate([north, corners[:, 1]])))
    how = ("predict", "grid", "scatter", "profile")[(index // 6) % 4]
    size = int(rng.choice([131073, 250000, 100001]))
    if how == "predict":
        qe, qn = rng.uniform(region[0], region[1], size), rng.uniform(region[2], region[3], size)
        if rng.random() < 0.5:
            qe, qn = qe[: size - size % 7].reshape(7, -1), qn[: size - size % 7].reshape(7, -1)
        whole = _values(est.predict((qe, qn)))
        # the same points in small calls: a point's value does not depend on how many points share the call
        flat_e, flat_n = np.ravel(qe), np.ravel(qn)
        cuts = sorted(set([0, flat_e.size] + [int(c) for c in rng.integers(1, flat_e.size, 6)]))
        parts = [_values(est.predict((flat_e[a:b], flat_n[a:b]))) for a, b in zip(cuts[:-1], cuts[1:])]
        run.evaluated("large_call_equals_small_calls")
        for comp, whole_c in enumerate(whole):
            pieces = np.concatenate([p[comp] for p in parts])
            full = np.ravel(whole_c)
            finite = np.isfinite(full) | np.isfinite(pieces)
            scale_c = float(np.max(np.abs(full[np.isfinite(full)]))) if np.any(np.isfinite(full)) else 0.0
            bad = (not np.array_equal(np.isnan(full), np.isnan(pieces))) or (np.any(finite) and float(np.nanmax(np.abs(full[finite] - pieces[finite]))) > 64 * EPS * scale_c)
            run.count("large:bit_identical_to_small_calls" if np.array_equal(full, pieces, equal_nan=True) else "large:small_calls_differ_within_round_off")
            if bad:
                k = int(np.nanargmax(np.where(finite, np.abs(full - pieces), 0.0)))
                run.violation("large_call_equals_small_calls", "%s.predict of %d points in one call differs from the same points in %d smaller calls at point %d: %r vs %r"
                              % (name, full.size, len(parts), k, float(full[k]), float(pieces[k])),
                              {"gridder": repr(est)[:200], "easting": float(flat_e[k]), "northing": float(flat_n[k]), "n_points": int(full.size), "cuts": cuts}, key="large-vs-small:" + name)
    elif how == "grid":
        shape = [(300, 400), (257, 513), (401, 333)][int(rng.integers(0, 3))]
        est.grid(region=region, shape=shape)
        size = shape[0] * shape[1]
    elif how == "scatter":
        est.scatter(region=region, size=size, random_state=int(rng.integers(0, 1000)))
    else:
        est.profile(point1=(region[0], region[2]), point2=(region[1], region[3]), size=size)
    run.count("large:%s:%s" % (name, how))
    run.count("large:points", size)
    run.sample("large", {"gridder": name, "how": how, "points": size, "compared": "the monitors on predict judge all points of the single large call; predict is also compared with the same points in small calls"})


def _stream_copies(run, rng, verde, index):
    """pickle round trip, copy.deepcopy and copy.copy of a fitted gridder predict what the original predicts (and what the formula / SciPy gives)."""
    import copy
    import pickle

    kind = index % 8
    name = ("Linear(rescale=True)", "Cubic(rescale=True)", "Linear(rescale=False)", "Spline", "VectorSpline2D", "Trend", "Chain", "Vector+KNeighbors")[kind]
    n = int(rng.integers(8, 60))
    east, north = gen.cloud(rng, n, kind="uniform", scale=gen.log_uniform(rng, 1e-1, 1e4), offset_factor=float(rng.choice([0.0, 1.0, 30.0])))
    if kind < 3:
        north = north * float(10 ** rng.uniform(1.5, 3.5))  # anisotropic and offset: rescaled and original coordinates differ a lot
    data = gen.smooth_field(rng, east, north)
    tri = np.array([rng.choice(n, 3, replace=False) for _ in range(14)])
    wts = rng.dirichlet(np.ones(3) * 2, 14)
    query = ((east[tri] * wts).sum(axis=1), (north[tri] * wts).sum(axis=1))
    try:
        if kind == 0:
            est = verde.Linear(rescale=True).fit((east, north), data)
        elif kind == 1:
            est = verde.Cubic(rescale=True).fit((east, north), data)
        elif kind == 2:
            est = (verde.Linear if index % 16 < 8 else verde.Cubic)(rescale=False).fit((east, north), data)
        elif kind == 3:
            est = verde.Spline(damping=float(10 ** rng.uniform(-6, 0)), mindist=float(rng.choice([0.0, 1e-3])) or None).fit((east, north), data)
        elif kind == 4:
            est = verde.VectorSpline2D(poisson=float(rng.uniform(-1, 1)), mindist=float(0.1 * np.ptp(east)), damping=1e-3).fit((east, north), (data, gen.smooth_field(rng, east, north)))
        elif kind == 5:
            est = verde.Trend(int(rng.integers(0, 4))).fit((east, north), data)
        elif kind == 6:
            est = verde.Chain([("trend", verde.Trend(1)), ("spline", verde.Spline(damping=1e-3))]).fit((east, north), data)
        else:
            est = verde.Vector([verde.Spline(damping=1e-2), verde.KNeighbors(k=int(rng.integers(1, 4)))]).fit((east, north), (data, gen.smooth_field(rng, east, north)))
    except Exception as exc:  # noqa: BLE001
        if "qhull" in (type(exc).__name__ + str(exc)).lower():
            run.count("refused:qhull")
            return
        raise
    before = _values(est.predict(query))
    makers = [("pickle", lambda o: pickle.loads(pickle.dumps(o))), ("pickle(protocol=2)", lambda o: pickle.loads(pickle.dumps(o, protocol=2))),
              ("deepcopy", copy.deepcopy), ("copy", copy.copy)]
    for label, make in makers:
        clone = make(est)
        _adopt(clone, est)
        got = _values(clone.predict(query))
        again = _values(est.predict(query))
        run.evaluated("copies_predict_like_the_original")
        run.count("copies:%s:%s" % (name, label.split("(")[0]))
        same_clone = all(np.array_equal(a, b, equal_nan=True) for a, b in zip(before, got))
        same_orig = all(np.array_equal(a, b, equal_nan=True) for a, b in zip(before, again))
        if not same_clone or not same_orig:
            what = "the %s predicts differently from the original" % label if not same_clone else "the original predicts differently after %s was taken" % label
            run.violation("copies_predict_like_the_original", "%s: %s" % (name, what),
                          {"gridder": repr(est)[:200], "copy_made_by": label, "data_east": east, "data_north": north, "data": data, "query_east": query[0], "query_north": query[1],
                           "original": list(before), "copy": list(got), "original_afterwards": list(again)}, key="copies:%s:%s" % (name.split("(")[0], label.split("(")[0]))
        else:
            run.mark_nontrivial("copies", name, label, east, north, data)
        if label == "deepcopy" and kind in (3, 5):  # refitting the copy must not reach the original
            clone.fit((east, north), -3.0 * data)
            after_refit = _values(est.predict(query))
            run.evaluated("copies_predict_like_the_original")
            if not all(np.array_equal(a, b, equal_nan=True) for a, b in zip(before, after_refit)):
                run.violation("copies_predict_like_the_original", "%s: refitting the deepcopy changed the predictions of the original" % name,
                              {"gridder": repr(est)[:200]}, key="copies:shared-state:" + name)
    run.sample("copies", {"gridder": name, "n": n, "compared": "predictions of pickled / deep-copied / shallow-copied fitted gridders against the original (bit-identical) and, through the predict "
                                                                "monitors, against the formula / SciPy on the points of the observed fit"})


def _gridlike_queries(rng, region):
    """2-D (and degenerate 2-D) query arrays that are NOT regular grids although some of them look like one on their border."""
    w, e, s_, n_ = region
    rows, cols = int(rng.integers(4, 9)), int(rng.integers(4, 9))
    ge, gn = np.meshgrid(np.linspace(w, e, cols), np.linspace(s_, n_, rows))
    de, dn = (e - w) / (cols - 1), (n_ - s_) / (rows - 1)
    out = []
    be, bn = ge.copy(), gn.copy()
    be[1:-1, 1:-1] += rng.uniform(-0.4, 0.4, (rows - 2, cols - 2)) * de
    bn[1:-1, 1:-1] += rng.uniform(-0.4, 0.4, (rows - 2, cols - 2)) * dn
    out.append(("regular_border_displaced_interior", be, bn))
    be2, bn2 = ge.copy(), gn.copy()  # only one interior column / row moved: first row == last row, first column == last column still hold
    be2[1:-1, int(rng.integers(1, cols - 1))] += 0.3 * de
    bn2[int(rng.integers(1, rows - 1)), 1:-1] -= 0.3 * dn
    out.append(("regular_border_one_line_moved", be2, bn2))
    out.append(("scattered_2d", rng.uniform(w, e, (rows, cols)), rng.uniform(s_, n_, (rows, cols))))
    ie, in_ = np.meshgrid(np.linspace(w, e, cols), np.linspace(s_, n_, rows), indexing="ij")
    out.append(("meshgrid_ij", ie, in_))
    ang = rng.uniform(0.1, 1.4)
    ce, cn = 0.5 * (w + e), 0.5 * (s_ + n_)
    re = ce + 0.6 * ((ge - ce) * np.cos(ang) - (gn - cn) * np.sin(ang))
    rn = cn + 0.6 * ((ge - ce) * np.sin(ang) + (gn - cn) * np.cos(ang))
    out.append(("rotated_grid", re, rn))
    shear = rng.uniform(0.2, 0.8)
    out.append(("sheared_grid", ce + 0.5 * (ge - ce) + shear * 0.4 * (gn - cn) * (e - w) / (n_ - s_), gn.copy()))
    k = int(rng.integers(3, 12))
    pe, pn = rng.uniform(w, e, k), rng.uniform(s_, n_, k)
    out.append(("point_list(1,n)", pe.reshape(1, -1), pn.reshape(1, -1)))
    out.append(("point_list(n,1)", pe.reshape(-1, 1), pn.reshape(-1, 1)))
    out.append(("regular_grid", ge, gn))
    return out


def _stream_gridlike(run, rng, verde, index):
    """2-D query arrays: the formula holds at the REAL node positions and equals the prediction for the same points passed raveled."""
    kind = index % 6
    name = ("Trend", "CheckerBoard", "Spline", "VectorSpline2D", "Linear", "Cubic")[kind]
    scale = gen.log_uniform(rng, 1e-1, 1e4)
    w, s_ = float(rng.normal() * scale), float(rng.normal() * scale)
    region = (w, w + float(rng.uniform(0.5, 2) * scale), s_, s_ + float(rng.uniform(0.5, 2) * scale))
    n = int(rng.integers(10, 40))
    east, north = rng.uniform(region[0], region[1], n), rng.uniform(region[2], region[3], n)
    if kind == 0:
        degree = int(rng.integers(2, 6))
        est = verde.Trend(degree)
        est.coef_ = rng.normal(size=(degree + 1) * (degree + 2) // 2)
    elif kind == 1:
        est = verde.synthetic.CheckerBoard(amplitude=float(rng.normal() * 10), region=region, **({} if index % 12 < 6 else {"w_east": float(0.3 * scale), "w_north": float(0.7 * scale)}))
    elif kind == 2:
        m = int(rng.integers(1, 9))
        est = _hand_spline(verde, float(rng.choice([0.0, 0.0, 1e-2 * scale])), east[:m].copy(), north[:m].copy(), rng.normal(size=m))
    elif kind == 3:
        m = int(rng.integers(1, 6))
        est = verde.VectorSpline2D(poisson=float(rng.uniform(-1, 1)), mindist=float(0.05 * scale), force_coords=(east[:m].copy(), north[:m].copy()))
        est.force_ = rng.normal(size=2 * m)
    else:
        corners = np.array([[region[0], region[2]], [region[1], region[2]], [region[0], region[3]], [region[1], region[3]]])
        ce, cn = np.concatenate([east, corners[:, 0]]), np.concatenate([north, corners[:, 1]])
        est = (verde.Linear if kind == 4 else verde.Cubic)(rescale=bool(rng.random() < 0.5)).fit((ce, cn), gen.smooth_field(rng, ce, cn))
    for qname, qe, qn in _gridlike_queries(rng, region):
        got = _values(est.predict((qe, qn)))
        flat = _values(est.predict((qe.ravel(), qn.ravel())))
        run.evaluated("two_dimensional_query_equals_raveled")
        run.count("gridlike:%s:%s" % (name, qname))
        ok = all(np.shape(g) == qe.shape and np.array_equal(np.ravel(g), f, equal_nan=True) for g, f in zip(got, flat))
        if not ok:
            scale_v = max([float(np.nanmax(np.abs(f))) for f in flat if np.any(np.isfinite(f))] + [0.0])
            ok = all(np.shape(g) == qe.shape and np.array_equal(np.isnan(np.ravel(g)), np.isnan(f))
                     and (not np.any(np.isfinite(f)) or float(np.nanmax(np.abs(np.ravel(g) - f))) <= 64 * EPS * scale_v) for g, f in zip(got, flat))
            run.count("gridlike:differs_within_round_off" if ok else "gridlike:differs")
        if not ok:
            run.violation("two_dimensional_query_equals_raveled", "%s.predict on a %s query of shape %s differs from the prediction for the same points passed raveled"
                          % (name, qname, qe.shape), {"gridder": repr(est)[:200], "query_class": qname, "easting": qe, "northing": qn,
                                                      "two_dimensional": [np.asarray(g) for g in got], "raveled": [np.asarray(f) for f in flat]}, key="gridlike:%s" % name)
        else:
            run.mark_nontrivial("gridlike", name, qname, qe, qn)
    if kind == 1:  # CheckerBoard also accepts different but broadcastable shapes
        a, b = rng.uniform(region[0], region[1], 5), rng.uniform(region[2], region[3], 4)
        for qe, qn in ((a.reshape(1, -1), b.reshape(-1, 1)), (a, b.reshape(-1, 1)), (np.float64(a[0]), b)):
            est.predict((qe, qn))
            run.count("gridlike:CheckerBoard:broadcastable_shapes")
    run.sample("gridlike", {"gridder": name, "region": list(region), "compared": "2-D queries (regular border with displaced interior, scattered, ij meshgrid, rotated, sheared, (1,n), (n,1)) "
                                                                            "against the formula at the real node positions (predict monitors) and against the raveled call"})


def _stream_defaults(run, rng, verde, index):
    """Estimators built with NO optional arguments behave exactly like ones with the DOCUMENTED defaults spelled out."""
    kind = index % 7
    name = ("CheckerBoard", "CheckerBoard(one wavelength)", "Spline", "VectorSpline2D", "Linear", "Cubic", "jacobian dtype")[kind]
    n = int(rng.integers(8, 40))
    east, north = rng.uniform(0, 5000, n), rng.uniform(-5000, 0, n)
    data = gen.smooth_field(rng, east, north, 1.0)
    q = int(rng.integers(5, 20))
    query = (rng.uniform(100, 4900, q), rng.uniform(-4900, -100, q))

    def judge(a, b, what):
        run.evaluated("documented_defaults")
        run.count("defaults:" + name)
        pa, pb = _values(a), _values(b)
        if not (len(pa) == len(pb) and all(np.array_equal(x, y, equal_nan=True) for x, y in zip(pa, pb))):
            run.violation("documented_defaults", "%s: %s" % (name, what), {"without_arguments": list(pa), "documented_defaults_spelled_out": list(pb), "query_east": query[0],
                                                                     "query_north": query[1]}, key="defaults:" + name)
        else:
            run.mark_nontrivial("defaults", name, query[0], query[1], east, north)

    if kind == 0:
        plain = _intend(verde.synthetic.CheckerBoard())
        spelled = _intend(verde.synthetic.CheckerBoard(amplitude=1000, region=(0, 5000, -5000, 0), w_east=None, w_north=None))
        judge(plain.predict(query), spelled.predict(query), "CheckerBoard() differs from CheckerBoard(amplitude=1000, region=(0, 5000, -5000, 0), w_east=None, w_north=None)")
        if rng.random() < 0.5:
            plain.grid(shape=(5, 6))
    elif kind == 1:
        w = float(rng.uniform(200, 4000))
        east_only = _intend(verde.synthetic.CheckerBoard(w_east=w), w_east=w)
        north_only = _intend(verde.synthetic.CheckerBoard(w_north=w), w_north=w)
        judge(east_only.predict(query), _intend(verde.synthetic.CheckerBoard(1000, (0, 5000, -5000, 0), w, None), w_east=w).predict(query), "w_east given, w_north left out")
        judge(north_only.predict(query), _intend(verde.synthetic.CheckerBoard(1000, (0, 5000, -5000, 0), None, w), w_north=w).predict(query), "w_north given, w_east left out")
    elif kind == 2:
        plain = verde.Spline().fit((east, north), data)
        spelled = verde.Spline(mindist=None, damping=None, force_coords=None, engine="auto").fit((east, north), data)
        judge(plain.predict(query), spelled.predict(query), "Spline() differs from Spline(mindist=None, damping=None, force_coords=None, engine='auto')")
    elif kind == 3:
        e5, n5 = east * 40, north * 40  # the default mindist is 10 km
        d2 = (data, gen.smooth_field(rng, e5, n5, 1.0))
        plain = verde.VectorSpline2D().fit((e5, n5), d2)
        spelled = verde.VectorSpline2D(poisson=0.5, mindist=10e3, damping=None, force_coords=None, engine="auto").fit((e5, n5), d2)
        judge(plain.predict((query[0] * 40, query[1] * 40)), spelled.predict((query[0] * 40, query[1] * 40)),
              "VectorSpline2D() differs from VectorSpline2D(poisson=0.5, mindist=10e3, damping=None, force_coords=None, engine='auto')")
    elif kind in (4, 5):
        cls = verde.Linear if kind == 4 else verde.Cubic
        an = north * 300.0  # anisotropic: the rescale default matters
        try:
            plain, spelled = cls().fit((east, an), data), cls(rescale=False).fit((east, an), data)
        except Exception as exc:  # noqa: BLE001
            if "qhull" in (type(exc).__name__ + str(exc)).lower():
                run.count("refused:qhull")
                return
            raise
        tri = np.array([rng.choice(n, 3, replace=False) for _ in range(q)])
        wts = rng.dirichlet(np.ones(3), q)
        inside = ((east[tri] * wts).sum(axis=1), (an[tri] * wts).sum(axis=1))
        judge(plain.predict(inside), spelled.predict(inside), "%s() differs from %s(rescale=False)" % (cls.__name__, cls.__name__))
    else:
        for est, args in ((verde.Spline(), ((east, north), (east[:4], north[:4]))), (verde.VectorSpline2D(mindist=100.0), ((east, north), (east[:4], north[:4]))),
                          (verde.Trend(2), ((east, north),))):
            judge(est.jacobian(*args), est.jacobian(*args, dtype="float64"), "%s.jacobian(...) differs from jacobian(..., dtype='float64')" % type(est).__name__)
    run.sample("defaults", {"estimator": name, "compared": "predictions / Jacobians of estimators built without optional arguments against the documented defaults spelled out"})


def _stream_narrow_jacobian(run, rng, verde, index):
    """jacobian(..., dtype='float32') with UTM-like coordinates: kernels on float64 differences, only the result is narrowed."""
    kind = index % 3
    n, m = int(rng.integers(4, 40)), int(rng.integers(2, 20))
    off_e, off_n = float(rng.uniform(5e5, 9e5)), float(rng.uniform(1e6, 9e6))
    sep = float(10 ** rng.uniform(0, 3))  # separations 1 .. 1000 m
    east, north = off_e + rng.uniform(0, sep * 10, n), off_n + rng.uniform(0, sep * 10, n)
    fe, fn = east[:m].copy() + rng.normal(0, sep, min(m, n)) * (rng.random(min(m, n)) < 0.7), north[:m].copy()
    dtype = ("float32", np.float32, np.dtype("float32"), "float64", "f4")[(index // 3) % 5]
    shift = float(rng.choice([1e6, -4e5, 2 ** 20]))
    if kind == 0:
        est = verde.Spline(mindist=float(rng.choice([1.0, 10.0]))) if rng.random() < 0.4 else verde.Spline()
        args = ((east, north), (fe, fn))
        moved = ((east + shift, north + shift), (fe + shift, fn + shift))
    elif kind == 1:
        est = verde.VectorSpline2D(poisson=float(rng.uniform(-1, 1)), mindist=float(rng.choice([1.0, 100.0, 10e3])))
        args = ((east, north), (fe, fn))
        moved = ((east + shift, north + shift), (fe + shift, fn + shift))
    else:
        est = verde.Trend(int(rng.integers(0, 4)))
        args = ((east - off_e, north - off_n),)  # polynomials are not translation invariant: local coordinates
        moved = None
    jac = est.jacobian(*args, dtype=dtype)
    run.count("narrow_jacobian:%s:%s" % (type(est).__name__, np.dtype(dtype).name))
    if moved is not None:
        jac_moved = est.jacobian(*moved, dtype=dtype)
        run.evaluated("narrow_jacobian_translation")
        eps_out = float(np.finfo(np.dtype(dtype)).eps)
        full = np.asarray(est.jacobian(*args), dtype="float64")
        # differences of the shifted coordinates carry the round-off of the shift itself (|delta| <= 8 eps max|coordinate|): allow its first-order
        # effect on each kernel, |dG/d(delta)| <= r (2|ln r| + 1) for the spline and (|3 - nu| + 3 |1 + nu|) / r for the elastic kernels
        delta = 8 * EPS * (max(float(np.max(np.abs(east))), float(np.max(np.abs(north)))) + abs(shift))
        rr = np.hypot(east[:, None] - fe[None, :], north[:, None] - fn[None, :]) + float(est.mindist)
        with np.errstate(divide="ignore", invalid="ignore"):
            if kind == 0:
                deriv = np.where(rr > 0, rr * (2 * np.abs(np.log(np.where(rr > 0, rr, 1.0))) + 1), 0.0)
            else:
                deriv = np.tile((abs(3 - est.poisson) + 3 * abs(1 + est.poisson)) / rr, (2, 2))
        slack = 8 * eps_out * np.abs(full) + 4 * delta * deriv + float(np.finfo(np.dtype(dtype)).tiny)
        bad = np.abs(np.asarray(jac_moved, dtype="float64") - np.asarray(jac, dtype="float64")) > slack + 64 * EPS * (np.abs(full) + 1.0)
        if np.any(bad):
            i, j = (int(v) for v in np.argwhere(bad)[0])
            run.violation("narrow_jacobian_translation", "%s.jacobian(dtype=%s) entry (%d,%d) changes from %r to %r when every coordinate is shifted by %g (float64 entry %r)"
                          % (type(est).__name__, np.dtype(dtype).name, i, j, float(jac[i, j]), float(jac_moved[i, j]), shift, float(full[i, j])),
                          {"east": east, "north": north, "force_east": fe, "force_north": fn, "shift": shift, "dtype": np.dtype(dtype).name}, key="narrow-translation:" + type(est).__name__)
        else:
            run.mark_nontrivial("narrow_jacobian", type(est).__name__, np.dtype(dtype).name, east, north, fe, fn)
    run.sample("narrow_jacobian", {"estimator": type(est).__name__, "dtype": np.dtype(dtype).name, "offsets": [off_e, off_n], "separation": sep,
                                   "compared": "the float32 Jacobian against the float64 reference rounded to float32 (jacobian monitors) and against the same points shifted"})


_STREAMS = {"narrow_jacobian": _stream_narrow_jacobian, "defaults": _stream_defaults, "gridlike": _stream_gridlike, "large": _stream_large, "copies": _stream_copies, "extras": _stream_extras, "spelling": _stream_spelling, "history": _stream_history, "integer": _stream_integer, "ladder": _stream_ladder, "pairs": _stream_pairs, "translation": _stream_translation, "vector": _stream_vector,
            "trend": _stream_trend, "checker": _stream_checker, "scipy": _stream_scipy, "fitted": _stream_fitted}


LEVEL_TEXT = (
    "Every return of Spline/VectorSpline2D/Trend.jacobian (direct or inside fit) and of predict of Spline, VectorSpline2D, Trend, CheckerBoard, "
    "Linear and Cubic produced by the workload (direct, or nested in grid/scatter/profile/Chain/Vector/SplineCV; parameters estimated by fit or "
    "set by hand) is compared entry by entry with an independent float64 reference of the documented formula, with derived round-off tolerances; "
    "the reference kernels are themselves spot-checked against 50-digit mpmath; exact translations must leave Jacobians bit-identical. The "
    "distance quantifier is sampled on an exact ladder (0, 2^-40 .. 1e8, 1 and e and their neighbours) plus seeded random clouds. Held means "
    "'no refutation among the monitored executions', not a proof."
)
LEVEL_NOTE = ("Trusted: numpy float64 elementary functions (log, pow, sin, cos, hypot) to a few ulp, mpmath at 50 digits, SciPy's qhull being "
              "deterministic for identical input. Only the numpy engine is exercised (numba is not installed).")
TECHNIQUE = ("runtime postcondition monitors on the real jacobian/predict methods with independent reference kernels (numpy float64, spot-checked "
             "with mpmath) + seeded hostile workload (exact distance ladder, hand-set unit parameter vectors, dyadic translations)")
