"""
C15 - nearest-neighbour based results agree with brute-force distances.

Monitors sit on ``KNeighbors.fit`` / ``KNeighbors.predict`` (class level: clones, estimators built inside
``project_grid`` or ``Chain`` included), ``median_distance`` and ``distance_mask`` and compare every normal
return with O(n*m) numpy distance matrices:

* ``KNeighbors.predict``   value at every query = reduction of the data of exactly the k closest fitted points
                           (the points and data are the ones *given to fit*, remembered by the monitor, not the
                           estimator's attributes); queries whose k-th and (k+1)-th distances differ by less than
                           1e-9 of the cloud scale are skipped (tie); result shape = query shape;
* ``median_distance``      median of the distances to the k nearest *other* points, after the projection;
* ``distance_mask``        True where the nearest data point is closer than maxdist - margin, False where it is
                           farther than maxdist + margin (either way in between), after projecting BOTH point sets;
                           where the distance is exact (integer coordinates with a perfect-square squared distance, or a
                           query on a data point) equality is decided: d == maxdist must give True;
                           result shape = query shape; grid form: every variable is NaN exactly where the array form
                           on the (northing, easting) mesh of the first variable's dims is False, other cells and the
                           coordinates unchanged.
"""
import collections
import warnings
import weakref

import numpy as np

from .. import gen, ref
from ._c14_c15_views import share_a_table, table_views

ID = "C15"
LEVEL = "exploration"
RULE = (
    "cases = seeded point clouds (uniform / jittered / clustered / anisotropic, 1..300 points, scales 1e-2..1e6, offsets up to 1e3 "
    "extents; 1-D, 2-D non-square, Fortran-order, 0-d inputs; extra coordinates; lattices that produce exact distance ties). "
    "Containers: ndarrays, and pandas Series / DataFrame columns (data and coordinates independently) whose index labels are not the "
    "positions (after sort_values, sample(frac=1), reversal, a permuted 0..n-1 index, boolean-mask and iloc[::2] subsets, a string "
    "index, an unrelated index on the data), 2-D DataFrame.values (Fortran order), 1-D xarray.DataArray data, Series queries; the same "
    "for median_distance coordinates and distance_mask data / query coordinates. "
    "Equivalent spellings: k / k_nearest as python int, numpy int64/int32/intp/uint8 (k_nearest also 0-d array), maxdist as python int / "
    "float, numpy integer / floating, 0-d array; a single query or data point as python scalars, numpy scalars, 0-d arrays, 1-element "
    "arrays; falsy but valid values (maxdist 0, all-zero extra coordinate, points on the northing axis). Grid axes increasing or decreasing, "
    "evenly or unevenly spaced. Extra coordinates (height, time) with NaN / +-inf at points whose easting/northing are finite, border "
    "points of the cloud and k = n included, for fit, predict queries, median_distance and distance_mask data/queries; each such call is "
    "twinned with the two-coordinate call and tree_.n / data_.size / region_ are checked against ALL points. "
    "Serialisation histories: fitted estimators through pickle (all protocols), copy.deepcopy, copy.copy and copies of copies, judged "
    "against the original's fitted points, the original re-used after being copied. Large cases: median_distance with n*(k+1) >= 2e6 "
    "(brute force on a subsample that contains the first and the very last points) and predict on more than 131072 points. "
    "Argument aliasing: easting and northing (fit, queries, median_distance, distance_mask) as column views of ONE table in every order "
    "and direction, twinned with contiguous copies. Ownership histories: after fit on C-contiguous float64 arrays (1-D / 2-D data, table "
    "views as coordinates) the caller detrends / reuses / negates the data buffer, shifts / overwrites the coordinates and scribbles on a "
    "returned prediction, then predicts with the earlier fitted gridder. "
    "Coordinate arrays with 3 and 4 dimensions (meshgrid(easting, northing, upward[, time]) nodes, random arrays; C / Fortran order, transposed "
    "views) as distance_mask queries (with and without projection) and data points, KNeighbors queries and fit inputs, median_distance input, "
    "each twinned with the raveled call. Lazily evaluated grids: Datasets whose variables are dask-backed (chunk(), chunked along northing / easting / both, one float variable "
    "chunked and the others in memory; integer variables included): every variable of the result, computed, is NaN exactly where the "
    "array-form mask is False; the input grid (values, laziness, chunks, attrs) is untouched; Dataset and variable attrs are kept. "
    "KNeighbors: k in {1,2,3,n-1,n,random}, reductions mean/median/min/max (+sum/ptp), data values unique per point, queries inside, "
    "outside and on the data, direct predict and nested through grid/scatter/profile/Chain/project_grid. median_distance: k=1..n-1. "
    "distance_mask: maxdist from the quantiles of the true nearest distances (also 0, huge, exactly a realised distance), array form "
    "an exact class (integer-valued coordinates below 2**20, also after an identity / integer-preserving projection, Pythagorean and "
    "axis-aligned offsets, maxdist equal to that exact distance or 0 on a data point) judged strictly: d == maxdist must be True; array form "
    "and xarray.Dataset form (dims (northing, easting) under several names, non-square and square shapes, 2-3 variables incl. integer ones and pre-existing NaN cells, "
    "ascending / descending / irregular coordinates; Datasets built by the constructor, coords-then-setitem, DataArray.to_dataset, "
    "assign, with coordinates declared in either order and extra non-index / scalar coordinates declared first, so that Dataset-level "
    "dims/sizes/coords orderings differ from the variables' (northing, easting) dims). Projections: anisotropic scaling, shear and non-linear "
    "monotone maps, so that projecting none or one of the two point sets changes the answer. Non-trivial = KNeighbors call with k < n "
    "and a decided query; median_distance with n >= k+2; distance_mask whose decided cells contain both True and False. Distinct = hash "
    "of the arrays and the configuration."
)
ASSUMPTIONS = [
    "distances are float64 np.hypot of coordinate differences; tolerances 16 eps*max|coordinate| (+ summation terms for reductions)",
    "a neighbour set is only judged when the k-th and (k+1)-th distances differ by at least 1e-9*cloud scale + 16 eps*max|coordinate|",
    "|nearest distance - maxdist| < 1e-9*maxdist + 16 eps*max|projected coordinate| is either-way, EXCEPT where the distance is exact for every correct implementation: integer-valued (projected) coordinates below 2**20 whose squared nearest distance is a perfect square, and a query coinciding with a data point without projection - there d <= maxdist is judged strictly",
    "which of two equidistant neighbours KNeighbors uses is not specified: tied queries stay either-way",
    "the projection callables are pure functions (the oracle calls them itself on copies of the raveled inputs)",
    "containers are read positionally (np.asarray / np.ravel of each argument, as verde documents): element i of the data belongs to point i whatever the index labels say",
    "grid variables are read with .values (which evaluates a lazy variable): the property is about the values the user gets, lazy or not; the values of the input grid are taken BEFORE the call",
    "a pickled / copied estimator is judged against the fit observed on the object it was made from (lineage declared by the workload)",
    "median_distance on more than 3000 points is judged by brute force on a subsample of a few hundred points (first 40, last 120, chunk borders, random); every value must be finite",
    "the fitted points/data are the arguments observed at KNeighbors.fit (C-order element sequence), predictions of estimators whose fit was not observed are skipped",
    "easting and northing of a request have equal shapes (broadcasting unequal shapes is not promised)",
]
FLOORS = {
    # about 40 percent of the smallest value seen on the unchanged tree over seeds 0..9 (thorough = 15 x the quick workload,
    # except the few 'large' cases whose number is fixed per tier)
    "quick": {
        "eval:KNeighbors.predict": 1700, "eval:median_distance": 360, "eval:distance_mask.array": 510,
        "eval:distance_mask.grid": 430, "distinct_nontrivial": 2300, "knn_queries_decided": 85000, "mask_cells_decided": 165000,
        "class:knn_nested_call": 190, "class:knn_k=n": 220, "class:knn_k=1": 320, "class:knn_reduction_median": 200,
        "class:knn_reduction_min": 200, "class:knn_reduction_max": 200, "class:knn_query_2d": 500, "class:median_k=n-1": 45,
        "class:median_input_2d": 110, "class:mask_projection_Warp": 160, "class:mask_projection_Aniso": 160,
        "class:mask_projection_Shear": 160, "class:grid_shape_non_square": 270, "class:grid_shape_square": 60,
        "class:grid_integer_variable": 170, "would_notice:knn_k_plus_one": 1300, "would_notice:median_self_not_skipped": 350,
        "would_notice:mask_projection_on_data_only": 450, "would_notice:mask_projection_on_query_only": 450,
        "would_notice:square_grid_mask_transposed": 50, "strict:mask_cells_at_exactly_maxdist": 890,
        "strict:mask_cells_at_exactly_maxdist_pythagorean": 340, "strict:mask_zero_maxdist_on_a_data_point": 90,
        "strict:mask_calls_with_cells_at_exactly_maxdist_array": 120, "strict:mask_calls_with_cells_at_exactly_maxdist_grid": 68,
        "strict:mask_cells_exact_distance": 14500, "class:mask_integer_coordinates": 240,
        "class:mask_projection_IntegerMap": 170, "either_way:knn_query_with_tied_kth_neighbour": 3000,
        "grid_built:constructor": 40, "grid_built:constructor_northing_coord_first": 40, "grid_built:coords_then_setitem": 45,
        "grid_built:coords_northing_first_then_setitem": 45, "grid_built:dataarray_to_dataset": 43,
        "grid_built:coords_then_assign": 50, "grid_built:extra_non_index_coordinates_first": 44,
        "grid_built:setitem_with_scalar_coordinate": 50, "class:grid_dataset_level_dims_easting_first": 200,
        "class:grid_dataset_level_dims_northing_first": 200, "class:grid_coords_declared_northing_first": 95,
        "class:grid_first_coordinate_is_not_a_dimension": 98, "class:grid_square_with_easting_first_dataset_dims": 30,
        "class:knn_fit_data_container_Series": 165, "class:knn_fit_data_container_DataArray": 35,
        "class:knn_fit_coordinates_container_Series": 180, "class:knn_fit_data_index_0..n-1_permuted": 80,
        "class:knn_fit_data_index_integer_with_gaps": 35, "class:knn_fit_data_index_non_integer_labels": 12,
        "class:knn_fit_coordinates_index_0..n-1_permuted": 85, "class:knn_fit_coordinates_index_integer_with_gaps": 40,
        "class:knn_fit_2d_fortran_order": 100, "class:knn_query_container_Series": 270,
        "class:median_coordinates_container_Series": 100, "class:median_coordinates_index_0..n-1_permuted": 70,
        "class:mask_data_coordinates_container_Series": 95, "class:mask_data_coordinates_index_0..n-1_permuted": 65,
        "class:mask_query_container_Series": 32, "pandas_fit:2d_DataFrame.values": 25,
        "pandas_fit:data_series_with_unrelated_index": 33, "pandas_fit:data_series_coordinates_ndarray": 35,
        "pandas_fit:coordinates_series_data_ndarray": 35, "pandas_frame:sort_values": 80, "pandas_frame:sample": 85,
        "pandas_frame:reversed": 88, "pandas_frame:permuted_integer_index": 145, "pandas_frame:boolean_mask_subset": 50,
        "pandas_frame:every_other_row": 60, "pandas_frame:string_index": 94, "class:knn_k_spelled_python_int": 760,
        "class:knn_k_spelled_numpy_int64": 455, "class:knn_k_spelled_numpy_int32": 210, "class:knn_k_spelled_numpy_uint8": 210,
        "class:median_k_spelled_python_int": 95, "class:median_k_spelled_numpy_int64": 90,
        "class:median_k_spelled_numpy_int32": 40, "class:median_k_spelled_ndarray0d_int64": 43,
        "class:mask_maxdist_spelled_python_int": 43, "class:mask_maxdist_spelled_python_float": 385,
        "class:mask_maxdist_spelled_numpy_float64": 190, "class:mask_maxdist_spelled_numpy_float32": 20,
        "class:mask_maxdist_spelled_numpy_int64": 20, "class:mask_maxdist_spelled_ndarray0d_float64": 185,
        "class:mask_maxdist_spelled_ndarray0d_int64": 24, "class:knn_single_query_point_as_python_float": 20,
        "class:knn_single_query_point_as_numpy_float64": 10, "class:knn_single_query_point_as_ndarray0d_float64": 8,
        "class:knn_single_query_point_as_ndarray1d_float64": 40, "class:mask_single_query_point_as_numpy_float64": 4,
        "class:mask_single_query_point_as_ndarray0d_float64": 3, "class:mask_single_query_point_as_ndarray1d_float64": 11,
        "class:mask_single_data_point_as_python_float": 15, "class:mask_single_data_point_as_numpy_float64": 8,
        "class:mask_single_data_point_as_ndarray0d_float64": 10, "class:mask_single_data_point_as_ndarray1d_float64": 54,
        "class:mask_single_data_point_as_python_int": 4, "class:knn_fit_extra_coordinate_all_zero": 42,
        "class:knn_fit_easting_or_northing_all_zero": 25, "class:median_extra_coordinate_all_zero": 21,
        "class:median_easting_or_northing_all_zero": 10, "class:mask_data_easting_or_northing_all_zero": 11,
        "class:grid_northing_decreasing": 125, "class:grid_easting_decreasing": 80, "class:grid_northing_unevenly_spaced": 125,
        "class:grid_easting_unevenly_spaced": 125, "eval:KNeighbors.fit_attributes": 990,
        "eval:extras_ignored.KNeighbors.predict": 190, "eval:extras_ignored.median_distance": 47,
        "eval:extras_ignored.distance_mask": 34, "class:knn_fit_extra_coordinate_non_finite": 97,
        "class:knn_fit_extra_non_finite_at_a_border_point_of_the_cloud": 85,
        "class:knn_k=n_after_fit_with_non_finite_extras": 90, "class:knn_query_extra_coordinate_non_finite": 118,
        "class:median_extra_coordinate_non_finite": 47, "class:mask_data_extra_coordinate_non_finite": 28,
        "class:mask_query_extra_coordinate_non_finite": 5, "eval:KNeighbors.copy_attributes": 92,
        "eval:KNeighbors.original_unaffected_by_copy": 72, "class:knn_predict_on_copy_made_by_pickle": 24,
        "class:knn_predict_on_copy_made_by_deepcopy": 24, "class:knn_predict_on_copy_made_by_copy": 24,
        "copies:copy_refitted_then_original_used": 7, "class:knn_predict_on_more_than_131072_points": 1,
        "class:median_points_times_k_plus_1_at_least_2e6": 1, "median_large_rows_judged": 160,
        "class:knn_fit_coordinates_are_views_of_one_table": 190, "class:knn_query_coordinates_are_views_of_one_table": 275,
        "class:median_coordinates_are_views_of_one_table": 50, "class:mask_data_coordinates_are_views_of_one_table": 44,
        "class:mask_query_coordinates_are_views_of_one_table": 11, "eval:aliasing_twin.KNeighbors.fit": 265,
        "eval:aliasing_twin.KNeighbors.predict": 175, "eval:aliasing_twin.distance_mask": 48,
        "eval:aliasing_twin.median_distance": 43, "eval:KNeighbors.state_owned_by_estimator": 85, "aliasing:columns_0_1": 30,
        "aliasing:columns_1_0_northing_stored_first": 60, "aliasing:columns_of_a_wider_table": 30,
        "aliasing:fortran_ordered_table": 28, "aliasing:fortran_ordered_table_northing_first": 28,
        "aliasing:last_axis_of_a_3d_table": 99, "aliasing:reversed_rows": 27, "aliasing:unpacked_transpose_northing_first": 30,
        "ownership:caller_detrend_data": 8, "ownership:caller_negate_data": 8, "ownership:caller_reuse_data_buffer": 7,
        "ownership:caller_overwrite_coordinates": 11, "ownership:caller_shift_coordinates": 12,
        "ownership:caller_scribble_on_prediction": 24, "ownership:2d_data": 5, "ownership:coordinates_are_views_of_one_table": 9,
        "ownership:table_columns_0_1": 1, "ownership:table_fortran_ordered_table": 1,
        "eval:distance_mask.grid_input_untouched": 430, "class:grid_dask_backed_all_variables": 82,
        "class:grid_dask_backed_some_variables_only": 18, "class:grid_dask_chunks_several_chunks": 83,
        "class:grid_dask_chunks_single_chunk": 19, "grid_lazy:chunk()": 19, "grid_lazy:chunk_northing": 17,
        "grid_lazy:chunk_easting": 20, "grid_lazy:chunk_both_dims": 20, "grid_lazy:one_variable_chunked_others_in_memory": 18,
        "defaulted_argument:KNeighbors.__init__.k": 82, "defaulted_argument:KNeighbors.__init__.reduction": 154,
        "defaulted_argument:distance_mask.projection": 47, "defaulted_argument:median_distance.k_nearest": 56,
        "eval:KNeighbors.constructor_defaults": 948, "class:knn_predict_after_fit_on_3d_arrays": 8,
        "class:knn_predict_after_fit_on_4d_arrays": 5, "class:knn_query_3d": 8, "class:knn_query_4d": 5,
        "class:mask_data_coordinates_3d": 8, "class:mask_data_coordinates_4d": 5, "class:mask_query_3d": 16,
        "class:mask_query_3d_with_projection": 8, "class:mask_query_4d": 11, "class:mask_query_4d_with_projection": 5,
        "class:median_input_3d": 8, "class:median_input_4d": 5, "nd:layout_c_order": 4, "nd:layout_fortran_order": 4,
        "nd:layout_transposed_view": 4, "nd:meshgrid_nodes_3d": 3, "nd:meshgrid_nodes_4d": 1, "nd:random_3d": 4,
        "nd:random_4d": 4, "ownership:table_last_axis_of_a_3d_table": 1, "eval:nd_twin.KNeighbors.predict": 14,
        "eval:nd_twin.distance_mask": 28, "eval:nd_twin.median_distance": 14,
    },
    "thorough": {
        "eval:KNeighbors.predict": 25500, "eval:median_distance": 5400, "eval:distance_mask.array": 7650,
        "eval:distance_mask.grid": 6450, "distinct_nontrivial": 34500, "knn_queries_decided": 1275000,
        "mask_cells_decided": 2475000, "class:knn_nested_call": 2850, "class:knn_k=n": 3300, "class:knn_k=1": 4800,
        "class:knn_reduction_median": 3000, "class:knn_reduction_min": 3000, "class:knn_reduction_max": 3000,
        "class:knn_query_2d": 7500, "class:median_k=n-1": 675, "class:median_input_2d": 1650, "class:mask_projection_Warp": 2400,
        "class:mask_projection_Aniso": 2400, "class:mask_projection_Shear": 2400, "class:grid_shape_non_square": 4050,
        "class:grid_shape_square": 900, "class:grid_integer_variable": 2550, "would_notice:knn_k_plus_one": 19500,
        "would_notice:median_self_not_skipped": 5250, "would_notice:mask_projection_on_data_only": 6750,
        "would_notice:mask_projection_on_query_only": 6750, "would_notice:square_grid_mask_transposed": 750,
        "strict:mask_cells_at_exactly_maxdist": 13350, "strict:mask_cells_at_exactly_maxdist_pythagorean": 5100,
        "strict:mask_zero_maxdist_on_a_data_point": 1350, "strict:mask_calls_with_cells_at_exactly_maxdist_array": 1800,
        "strict:mask_calls_with_cells_at_exactly_maxdist_grid": 1020, "strict:mask_cells_exact_distance": 217500,
        "class:mask_integer_coordinates": 3600, "class:mask_projection_IntegerMap": 2550,
        "either_way:knn_query_with_tied_kth_neighbour": 45000, "grid_built:constructor": 600,
        "grid_built:constructor_northing_coord_first": 600, "grid_built:coords_then_setitem": 675,
        "grid_built:coords_northing_first_then_setitem": 675, "grid_built:dataarray_to_dataset": 645,
        "grid_built:coords_then_assign": 750, "grid_built:extra_non_index_coordinates_first": 660,
        "grid_built:setitem_with_scalar_coordinate": 750, "class:grid_dataset_level_dims_easting_first": 3000,
        "class:grid_dataset_level_dims_northing_first": 3000, "class:grid_coords_declared_northing_first": 1425,
        "class:grid_first_coordinate_is_not_a_dimension": 1470, "class:grid_square_with_easting_first_dataset_dims": 450,
        "class:knn_fit_data_container_Series": 2475, "class:knn_fit_data_container_DataArray": 525,
        "class:knn_fit_coordinates_container_Series": 2700, "class:knn_fit_data_index_0..n-1_permuted": 1200,
        "class:knn_fit_data_index_integer_with_gaps": 525, "class:knn_fit_data_index_non_integer_labels": 180,
        "class:knn_fit_coordinates_index_0..n-1_permuted": 1275, "class:knn_fit_coordinates_index_integer_with_gaps": 600,
        "class:knn_fit_2d_fortran_order": 1500, "class:knn_query_container_Series": 4050,
        "class:median_coordinates_container_Series": 1500, "class:median_coordinates_index_0..n-1_permuted": 1050,
        "class:mask_data_coordinates_container_Series": 1425, "class:mask_data_coordinates_index_0..n-1_permuted": 975,
        "class:mask_query_container_Series": 480, "pandas_fit:2d_DataFrame.values": 375,
        "pandas_fit:data_series_with_unrelated_index": 495, "pandas_fit:data_series_coordinates_ndarray": 525,
        "pandas_fit:coordinates_series_data_ndarray": 525, "pandas_frame:sort_values": 1200, "pandas_frame:sample": 1275,
        "pandas_frame:reversed": 1320, "pandas_frame:permuted_integer_index": 2175, "pandas_frame:boolean_mask_subset": 750,
        "pandas_frame:every_other_row": 900, "pandas_frame:string_index": 1410, "class:knn_k_spelled_python_int": 11400,
        "class:knn_k_spelled_numpy_int64": 6825, "class:knn_k_spelled_numpy_int32": 3150,
        "class:knn_k_spelled_numpy_uint8": 3150, "class:median_k_spelled_python_int": 1425,
        "class:median_k_spelled_numpy_int64": 1350, "class:median_k_spelled_numpy_int32": 600,
        "class:median_k_spelled_ndarray0d_int64": 645, "class:mask_maxdist_spelled_python_int": 645,
        "class:mask_maxdist_spelled_python_float": 5775, "class:mask_maxdist_spelled_numpy_float64": 2850,
        "class:mask_maxdist_spelled_numpy_float32": 300, "class:mask_maxdist_spelled_numpy_int64": 300,
        "class:mask_maxdist_spelled_ndarray0d_float64": 2775, "class:mask_maxdist_spelled_ndarray0d_int64": 360,
        "class:knn_single_query_point_as_python_float": 300, "class:knn_single_query_point_as_numpy_float64": 150,
        "class:knn_single_query_point_as_ndarray0d_float64": 120, "class:knn_single_query_point_as_ndarray1d_float64": 600,
        "class:mask_single_query_point_as_numpy_float64": 60, "class:mask_single_query_point_as_ndarray0d_float64": 45,
        "class:mask_single_query_point_as_ndarray1d_float64": 165, "class:mask_single_data_point_as_python_float": 225,
        "class:mask_single_data_point_as_numpy_float64": 120, "class:mask_single_data_point_as_ndarray0d_float64": 150,
        "class:mask_single_data_point_as_ndarray1d_float64": 810, "class:mask_single_data_point_as_python_int": 60,
        "class:knn_fit_extra_coordinate_all_zero": 630, "class:knn_fit_easting_or_northing_all_zero": 375,
        "class:median_extra_coordinate_all_zero": 315, "class:median_easting_or_northing_all_zero": 150,
        "class:mask_data_easting_or_northing_all_zero": 165, "class:grid_northing_decreasing": 1875,
        "class:grid_easting_decreasing": 1200, "class:grid_northing_unevenly_spaced": 1875,
        "class:grid_easting_unevenly_spaced": 1875, "eval:KNeighbors.fit_attributes": 14850,
        "eval:extras_ignored.KNeighbors.predict": 2850, "eval:extras_ignored.median_distance": 705,
        "eval:extras_ignored.distance_mask": 510, "class:knn_fit_extra_coordinate_non_finite": 1455,
        "class:knn_fit_extra_non_finite_at_a_border_point_of_the_cloud": 1275,
        "class:knn_k=n_after_fit_with_non_finite_extras": 1350, "class:knn_query_extra_coordinate_non_finite": 1770,
        "class:median_extra_coordinate_non_finite": 705, "class:mask_data_extra_coordinate_non_finite": 420,
        "class:mask_query_extra_coordinate_non_finite": 75, "eval:KNeighbors.copy_attributes": 1380,
        "eval:KNeighbors.original_unaffected_by_copy": 1080, "class:knn_predict_on_copy_made_by_pickle": 360,
        "class:knn_predict_on_copy_made_by_deepcopy": 360, "class:knn_predict_on_copy_made_by_copy": 360,
        "copies:copy_refitted_then_original_used": 105, "class:knn_predict_on_more_than_131072_points": 5,
        "class:median_points_times_k_plus_1_at_least_2e6": 5, "median_large_rows_judged": 1500,
        "class:knn_fit_coordinates_are_views_of_one_table": 2850, "class:knn_query_coordinates_are_views_of_one_table": 4125,
        "class:median_coordinates_are_views_of_one_table": 750, "class:mask_data_coordinates_are_views_of_one_table": 660,
        "class:mask_query_coordinates_are_views_of_one_table": 165, "eval:aliasing_twin.KNeighbors.fit": 3975,
        "eval:aliasing_twin.KNeighbors.predict": 2625, "eval:aliasing_twin.distance_mask": 720,
        "eval:aliasing_twin.median_distance": 645, "eval:KNeighbors.state_owned_by_estimator": 1275, "aliasing:columns_0_1": 450,
        "aliasing:columns_1_0_northing_stored_first": 900, "aliasing:columns_of_a_wider_table": 450,
        "aliasing:fortran_ordered_table": 420, "aliasing:fortran_ordered_table_northing_first": 420,
        "aliasing:last_axis_of_a_3d_table": 1485, "aliasing:reversed_rows": 405,
        "aliasing:unpacked_transpose_northing_first": 450, "ownership:caller_detrend_data": 120,
        "ownership:caller_negate_data": 120, "ownership:caller_reuse_data_buffer": 105,
        "ownership:caller_overwrite_coordinates": 165, "ownership:caller_shift_coordinates": 180,
        "ownership:caller_scribble_on_prediction": 360, "ownership:2d_data": 75,
        "ownership:coordinates_are_views_of_one_table": 135, "ownership:table_columns_0_1": 15,
        "ownership:table_fortran_ordered_table": 15, "eval:distance_mask.grid_input_untouched": 6450,
        "class:grid_dask_backed_all_variables": 1230, "class:grid_dask_backed_some_variables_only": 270,
        "class:grid_dask_chunks_several_chunks": 1245, "class:grid_dask_chunks_single_chunk": 285, "grid_lazy:chunk()": 285,
        "grid_lazy:chunk_northing": 255, "grid_lazy:chunk_easting": 300, "grid_lazy:chunk_both_dims": 300,
        "grid_lazy:one_variable_chunked_others_in_memory": 270, "defaulted_argument:KNeighbors.__init__.k": 1230,
        "defaulted_argument:KNeighbors.__init__.reduction": 2310, "defaulted_argument:distance_mask.projection": 705,
        "defaulted_argument:median_distance.k_nearest": 840, "eval:KNeighbors.constructor_defaults": 14220,
        "class:knn_predict_after_fit_on_3d_arrays": 120, "class:knn_predict_after_fit_on_4d_arrays": 75,
        "class:knn_query_3d": 120, "class:knn_query_4d": 75, "class:mask_data_coordinates_3d": 120,
        "class:mask_data_coordinates_4d": 75, "class:mask_query_3d": 240, "class:mask_query_3d_with_projection": 120,
        "class:mask_query_4d": 165, "class:mask_query_4d_with_projection": 75, "class:median_input_3d": 120,
        "class:median_input_4d": 75, "nd:layout_c_order": 60, "nd:layout_fortran_order": 60, "nd:layout_transposed_view": 60,
        "nd:meshgrid_nodes_3d": 45, "nd:meshgrid_nodes_4d": 15, "nd:random_3d": 60, "nd:random_4d": 60,
        "ownership:table_last_axis_of_a_3d_table": 15, "eval:nd_twin.KNeighbors.predict": 210, "eval:nd_twin.distance_mask": 420,
        "eval:nd_twin.median_distance": 210,
    },
}
JOBS = {"quick": 1, "thorough": 8}
CASE_TIMEOUT_S = 120

ALIAS_KIND = {}  # id(easting view) -> how the table views were made (workload bookkeeping for the counters)
COPY_OF = weakref.WeakKeyDictionary()  # restored / copied estimator -> (the estimator it was made from, how)
TIE_REL = 1e-9
EPS = ref.EPS


def plan(tier):
    if tier == "quick":
        return collections.OrderedDict(knn=360, knn_nested=60, median=300, mask=300, mask_grid=300, mask_exact=200, knn_copies=60, knn_ownership=60, nd_arrays=40, large=2)
    return collections.OrderedDict(knn=5400, knn_nested=900, median=4500, mask=4500, mask_grid=4500, mask_exact=3000, knn_copies=900, knn_ownership=900, nd_arrays=600, large=16)


# ----------------------------------------------------------------------
# projections used by the workload (pure, with a readable repr for witnesses)
# ----------------------------------------------------------------------
class Aniso:
    """(a*x, b*y): anisotropic scaling."""

    def __init__(self, a, b):
        self.a, self.b = float(a), float(b)

    def __call__(self, east, north):
        return np.asarray(east) * self.a, np.asarray(north) * self.b

    def __repr__(self):
        return "Aniso(a=%r, b=%r)" % (self.a, self.b)


class Shear:
    """(x + c*y, y + d*x): couples the two coordinates."""

    def __init__(self, c, d):
        self.c, self.d = float(c), float(d)

    def __call__(self, east, north):
        east, north = np.asarray(east, dtype="float64"), np.asarray(north, dtype="float64")
        return east + self.c * north, north + self.d * east

    def __repr__(self):
        return "Shear(c=%r, d=%r)" % (self.c, self.d)


class Warp:
    """Non-linear monotone map: x -> x0 + L*sinh((x-x0)/L), y -> y0 + L*(exp((y-y0)/L) - 1)."""

    def __init__(self, x0, y0, length):
        self.x0, self.y0, self.length = float(x0), float(y0), float(length)

    def __call__(self, east, north):
        east, north = np.asarray(east, dtype="float64"), np.asarray(north, dtype="float64")
        with np.errstate(over="ignore"):
            return (self.x0 + self.length * np.sinh((east - self.x0) / self.length),
                    self.y0 + self.length * np.expm1((north - self.y0) / self.length))

    def __repr__(self):
        return "Warp(x0=%r, y0=%r, length=%r)" % (self.x0, self.y0, self.length)


class IntegerMap:
    """(a*x + p, b*y + q) with integer a, b, p, q: integer coordinates stay integer (a = b = 1, p = q = 0 is the identity)."""

    def __init__(self, a=1, b=1, p=0, q=0):
        self.a, self.b, self.p, self.q = int(a), int(b), int(p), int(q)

    def __call__(self, east, north):
        return np.asarray(east) * self.a + self.p, np.asarray(north) * self.b + self.q

    def __repr__(self):
        return "IntegerMap(a=%d, b=%d, p=%d, q=%d)" % (self.a, self.b, self.p, self.q)


def _projection(rng, east, north):
    """None or a projection that visibly changes distances over this cloud."""
    kind = int(rng.integers(0, 4))
    x0, y0 = float(np.mean(east)), float(np.mean(north))
    extent = float(max(np.ptp(east), np.ptp(north))) or max(abs(x0), abs(y0)) or 1.0
    if kind == 0:
        return None
    if kind == 1:
        a = float(rng.choice([0.2, 0.35, 3.0, 5.0]))
        return Aniso(a, 1.0 if rng.random() < 0.5 else 1.0 / a)
    if kind == 2:
        return Shear(rng.uniform(0.6, 1.5) * rng.choice([-1, 1]), rng.uniform(0.0, 0.4))
    return Warp(x0, y0, extent * rng.uniform(0.3, 0.8))


# ----------------------------------------------------------------------
# reference pieces
# ----------------------------------------------------------------------
def _finite(*vals):
    try:
        return all(v is None or np.all(np.isfinite(np.asarray(v, dtype="float64"))) for v in vals)
    except (TypeError, ValueError):
        return False


def _flat(arr):
    return np.atleast_1d(np.asarray(arr, dtype="float64")).ravel()


def distance_matrix(qx, qy, px, py):
    return np.hypot(qx[:, None] - px[None, :], qy[:, None] - py[None, :])


def nearest_sorted(qx, qy, px, py, kk, chunk=3_000_000):
    """
    For every query the indices and distances of its kk nearest points, nearest first (chunked O(n*m) brute force:
    a full distance row per query, argpartition + sort of the kk smallest).
    """
    m, n = qx.size, px.size
    kk = min(kk, n)
    order = np.empty((m, kk), dtype=np.intp)
    srt = np.empty((m, kk))
    step = max(1, chunk // max(n, 1))
    for lo in range(0, m, step):
        dist = distance_matrix(qx[lo:lo + step], qy[lo:lo + step], px, py)
        if kk < n:
            part = np.argpartition(dist, kk - 1, axis=1)[:, :kk]
        else:
            part = np.broadcast_to(np.arange(n), dist.shape)
        dpart = np.take_along_axis(dist, part, axis=1)
        inner = np.argsort(dpart, axis=1, kind="stable")
        order[lo:lo + step] = np.take_along_axis(part, inner, axis=1)
        srt[lo:lo + step] = np.take_along_axis(dpart, inner, axis=1)
    return order, srt


def nearest_distance(qx, qy, px, py, chunk=200_000):
    """min over data of the Euclidean distance, for every query (chunked O(n*m))."""
    out = np.empty(qx.size)
    step = max(1, chunk // max(px.size, 1))
    for lo in range(0, qx.size, step):
        out[lo:lo + step] = distance_matrix(qx[lo:lo + step], qy[lo:lo + step], px, py).min(axis=1)
    return out


def integer_valued(*arrays, bound=2.0 ** 20):
    """All values are integers of magnitude < 2**20: differences, squares and their sums are exact in float64/int64."""
    for arr in arrays:
        arr = np.asarray(arr, dtype="float64")
        if arr.size and not (np.all(np.isfinite(arr)) and np.all(arr == np.rint(arr)) and np.all(np.abs(arr) < bound)):
            return False
    return True


def nearest_squared_integer(qx, qy, px, py, chunk=200_000):
    """
    Exact squared distance (int64) to the nearest data point for integer-valued coordinates, and whether some nearest
    data point lies off both axes through the query (a genuinely Pythagorean offset).
    """
    qx, qy, px, py = (np.rint(v).astype("int64") for v in (qx, qy, px, py))
    out = np.empty(qx.size, dtype="int64")
    diagonal = np.zeros(qx.size, dtype=bool)
    step = max(1, chunk // max(px.size, 1))
    for lo in range(0, qx.size, step):
        ddx = qx[lo:lo + step, None] - px[None, :]
        ddy = qy[lo:lo + step, None] - py[None, :]
        d2 = ddx * ddx + ddy * ddy
        best = d2.min(axis=1)
        out[lo:lo + step] = best
        diagonal[lo:lo + step] = ((d2 == best[:, None]) & (ddx != 0) & (ddy != 0)).any(axis=1)
    return out, diagonal


def spelling(obj):
    """How the caller wrote a value: python_int, numpy_float64, ndarray0d_float64, ndarray1d_float64 ..."""
    if isinstance(obj, np.ndarray):
        return "ndarray%dd_%s" % (obj.ndim, obj.dtype)
    if isinstance(obj, np.generic):
        return "numpy_" + type(obj).__name__
    return "python_" + type(obj).__name__ if isinstance(obj, (int, float)) else type(obj).__name__


def as_integer(value):
    """int(value) for python / numpy integers and 0-d integer arrays, else None."""
    if isinstance(value, (bool, np.bool_)):
        return None
    if isinstance(value, (int, np.integer)):
        return int(value)
    if isinstance(value, np.ndarray) and value.ndim == 0 and value.dtype.kind in "iu":
        return int(value)
    return None


def spell_number(rng, value, zero_d=True):
    """The same number as python int/float, numpy integer/floating or 0-d array (value-preserving, float32 only when exact)."""
    v = float(value)
    options = [v, v, np.float64(v)]
    if zero_d:
        options.append(np.array(v))
    if v == np.rint(v) and abs(v) < 2 ** 31:
        options += [int(v), int(v), np.int64(int(v)), np.int32(int(v))]
        if zero_d:
            options.append(np.array(int(v)))
    if float(np.float32(v)) == v:
        options.append(np.float32(v))
    return options[int(rng.integers(0, len(options)))]


def spell_int(rng, value, zero_d=False):
    options = [int(value), int(value), np.int64(value), np.int32(value), np.intp(value), np.uint8(value) if 0 <= value < 200 else int(value)]  # not near 255: k_nearest + 1 would wrap around in uint8
    if zero_d:
        options.append(np.array(int(value)))
    return options[int(rng.integers(0, len(options)))]


def spell_point(rng, values, python_ok=True):
    """One point (a value per coordinate) as python scalars, numpy scalars, 0-d arrays or 1-element arrays."""
    form = int(rng.integers(0, 5 if python_ok else 3))
    if form == 0:
        return tuple(np.float64(v) for v in values), "numpy_scalars"
    if form == 1:
        return tuple(np.array(float(v)) for v in values), "0d_arrays"
    if form == 2:
        return tuple(np.array([float(v)]) for v in values), "1_element_arrays"
    if form == 3:
        return tuple(float(v) for v in values), "python_floats"
    return tuple(int(v) if float(v) == np.rint(float(v)) else float(v) for v in values), "python_numbers"


def non_finite_rows(extras, size):
    """Which points carry NaN / inf in one of the extra (ignored) coordinate arrays."""
    bad = np.zeros(size, dtype=bool)
    for extra in extras:
        try:
            arr = np.atleast_1d(np.asarray(extra, dtype="float64")).ravel()
        except (TypeError, ValueError):
            continue
        if arr.size == size:
            bad |= ~np.isfinite(arr)
    return bad


def on_border(x, y):
    return (x == x.min()) | (x == x.max()) | (y == y.min()) | (y == y.max())


def container_class(obj):
    """ndarray / Series / DataArray / scalar ... (what the caller handed over)."""
    if isinstance(obj, np.ndarray):
        return "ndarray"
    name = type(obj).__name__
    return name if name in ("Series", "DataArray", "DataFrame", "list", "tuple") else "scalar" if np.ndim(obj) == 0 else name


def index_class(obj):
    """For pandas objects: how far the index labels are from the positions 0..n-1 (labels must not matter)."""
    index = getattr(obj, "index", None)
    if index is None or not hasattr(obj, "iloc"):
        return None
    n = len(index)
    labels = np.asarray(index)
    if labels.dtype.kind not in "iu":
        return "non_integer_labels"
    if np.array_equal(labels, np.arange(n)):
        return "0..n-1_in_order"
    if np.array_equal(np.sort(labels), np.arange(n)):
        return "0..n-1_permuted"
    return "integer_with_gaps"


def _maxabs(*arrays):
    mag = 0.0
    for arr in arrays:
        if np.size(arr):
            mag = max(mag, float(np.max(np.abs(arr))))
    return mag


def _median_rows(vals):
    srt = np.sort(vals, axis=1)
    k = srt.shape[1]
    if k % 2:
        return srt[:, k // 2].astype("float64")
    return 0.5 * (srt[:, k // 2 - 1].astype("float64") + srt[:, k // 2].astype("float64"))


def reduce_rows(reduction, vals):
    """Reference reduction of every row of ``vals`` (queries x k) and its tolerance."""
    k = vals.shape[1]
    mag = np.max(np.abs(vals.astype("float64")), axis=1)
    if reduction is np.mean:
        return vals.astype("float64").sum(axis=1) / k, (k + 8) * EPS * mag, "mean"
    if reduction is np.median:
        return _median_rows(vals), 4 * EPS * mag, "median"
    if reduction is np.min:
        return vals.min(axis=1), np.zeros(vals.shape[0]), "min"
    if reduction is np.max:
        return vals.max(axis=1), np.zeros(vals.shape[0]), "max"
    # documented contract: any function of a 1-D array returning one value
    out = np.array([reduction(row) for row in vals], dtype="float64")
    return out, (k + 8) * EPS * mag * 4, getattr(reduction, "__name__", "custom")


# ----------------------------------------------------------------------
# monitors
# ----------------------------------------------------------------------
def install(tap, run):
    import verde
    import verde.distances as vdist
    import verde.mask as vmask
    import verde.neighbors as vneigh
    import xarray as xr

    fitted = weakref.WeakKeyDictionary()

    # ------------------------------------------------------------ KNeighbors
    def post_fit(ev):
        est = ev.args.get("self")
        if ev.exc is not None:
            run.count("raised:KNeighbors.fit:" + type(ev.exc).__name__)
            fitted.pop(est, None)
            return
        a = ev.args
        try:
            coords = a["coordinates"]
            px, py = _flat(coords[0]), _flat(coords[1])
            data = np.asarray(a["data"])
            data = np.atleast_1d(data).ravel().copy()
        except Exception:  # noqa: BLE001
            fitted.pop(est, None)
            run.count("skipped:fit_unreadable_input")
            return
        if px.size != py.size or px.size != data.size or data.dtype == object or not _finite(px, py, data):
            fitted.pop(est, None)
            run.count("skipped:fit_nonfinite_or_ragged")
            return
        bad = non_finite_rows(coords[2:], px.size)
        fitted[est] = {"x": px.copy(), "y": py.copy(), "data": data, "n_coords": len(coords),
                       "weights": a.get("weights") is not None, "ndim": np.ndim(coords[0]), "bad_extras": bool(bad.any())}
        run.count("KNeighbors.fit_observed")
        if bad.any():
            run.count("class:knn_fit_extra_coordinate_non_finite")
            if (bad & on_border(px, py)).any():
                run.count("class:knn_fit_extra_non_finite_at_a_border_point_of_the_cloud")
        # the documented attributes describe ALL the points given, whatever the extra coordinates hold
        run.evaluated("KNeighbors.fit_attributes")
        want_region = (float(px.min()), float(px.max()), float(py.min()), float(py.max()))
        try:
            have = (int(est.tree_.n), int(np.size(est.data_)), tuple(float(v) for v in est.region_))
        except Exception as exc:  # noqa: BLE001
            have = repr(exc)
        if have != (px.size, px.size, want_region):
            run.violation("KNeighbors.fit_attributes",
                          "after fit on %d points: (tree_.n, data_.size, region_) = %r, expected %r"
                          % (px.size, have, (px.size, px.size, want_region)),
                          {"coordinates": [px, py], "extras": [np.asarray(c) for c in coords[2:]], "have": repr(have)}, key="fit:attributes")
        run.count("class:knn_fit_data_container_" + container_class(a["data"]))
        run.count("class:knn_fit_coordinates_container_" + container_class(coords[0]))
        if share_a_table(coords[0], coords[1]):
            run.count("class:knn_fit_coordinates_are_views_of_one_table")
        for what, obj in (("data", a["data"]), ("coordinates", coords[0])):
            kind = index_class(obj)
            if kind:
                run.count("class:knn_fit_%s_index_%s" % (what, kind))
        if isinstance(coords[0], np.ndarray) and coords[0].ndim == 2 and coords[0].flags.f_contiguous and not coords[0].flags.c_contiguous:
            run.count("class:knn_fit_2d_fortran_order")
        if a.get("weights") is not None:
            run.count("class:knn_fit_with_weights")
        if len(coords) > 2 and any(not np.any(np.asarray(c)) for c in coords[2:]):
            run.count("class:knn_fit_extra_coordinate_all_zero")
        if not np.any(px) or not np.any(py):
            run.count("class:knn_fit_easting_or_northing_all_zero")
        if len(coords) > 2:
            run.count("class:knn_fit_extra_coordinates")
        if np.ndim(coords[0]) == 2:
            run.count("class:knn_fit_2d_arrays")
        if ev.result is not est:
            run.violation("KNeighbors.fit", "fit did not return the estimator itself", {"returned": repr(ev.result)[:200]}, key="fit:return")

    def post_predict(ev):
        if ev.exc is not None:
            run.count("raised:KNeighbors.predict:" + type(ev.exc).__name__)
            return
        a = ev.args
        est = a["self"]
        snap = fitted.get(est)
        made_by = None
        origin = est
        while snap is None and origin in COPY_OF:
            # a pickled / copied estimator: it must predict from the points and data its original was fitted on
            origin, how, params = COPY_OF[origin]
            if made_by is None:
                made_by, params_wanted = how, params
            snap = fitted.get(origin)
        if snap is None:
            run.count("skipped:predict_without_observed_fit")
            return
        if made_by:
            run.count("class:knn_predict_on_copy_made_by_" + made_by)
            run.evaluated("KNeighbors.copy_attributes")
            try:
                have = (int(est.tree_.n), int(np.size(est.data_)), bool(np.array_equal(np.asarray(est.data_).ravel(), snap["data"])),
                        est.get_params() == params_wanted)
            except Exception as exc:  # noqa: BLE001
                have = repr(exc)
            if have != (snap["x"].size, snap["x"].size, True, True):
                run.violation("KNeighbors.copy_attributes",
                              "estimator restored by %s: (tree_.n, data_.size, data_ equals the fitted data, parameters equal the original's) = %r "
                              "for %d fitted points and parameters %r" % (made_by, have, snap["x"].size, params_wanted),
                              {"made_by": made_by, "have": repr(have), "fit_data": snap["data"], "parameters": repr(params_wanted)},
                              key="copy:attributes")
        try:
            coords = a["coordinates"]
            q0, q1 = np.asarray(coords[0], dtype="float64"), np.asarray(coords[1], dtype="float64")
        except Exception:  # noqa: BLE001
            run.count("skipped:predict_unreadable_input")
            return
        if q0.shape != q1.shape or not _finite(q0, q1):
            run.count("skipped:predict_unequal_shapes_or_nonfinite")
            return
        k, reduction = est.k, est.reduction
        px, py, data = snap["x"], snap["y"], snap["data"]
        n = px.size
        run.count("class:knn_k_spelled_" + spelling(k))
        k = as_integer(k)
        if k is None or k < 1 or k > n:
            run.count("skipped:predict_k_out_of_range")
            return
        qx, qy = q0.ravel(), q1.ravel()
        run.evaluated("KNeighbors.predict")
        run.count("class:knn_k=%s" % ("1" if k == 1 else "n" if k == n else "n-1" if k == n - 1 else "2..n-2"))
        run.count("class:knn_query_%dd" % q0.ndim)
        if snap.get("ndim", 1) >= 3:
            run.count("class:knn_predict_after_fit_on_%dd_arrays" % snap["ndim"])
        if container_class(coords[0]) != "ndarray":
            run.count("class:knn_query_container_" + container_class(coords[0]))
        if q0.size == 1:
            run.count("class:knn_single_query_point_as_" + spelling(coords[0]))
        if share_a_table(coords[0], coords[1]):
            run.count("class:knn_query_coordinates_are_views_of_one_table")
        if snap.get("bad_extras"):
            run.count("class:knn_predict_after_fit_with_non_finite_extras")
            if k == n:
                run.count("class:knn_k=n_after_fit_with_non_finite_extras")
        if len(coords) > 2 and non_finite_rows(coords[2:], q0.size).any():
            run.count("class:knn_query_extra_coordinate_non_finite")
        if len(coords) > 2:
            run.count("class:knn_query_extra_coordinates")
        if ev.parent is not None:
            run.count("class:knn_nested_call")
            top = ev
            while top.parent is not None:
                top = top.parent
            run.seen("knn_predict_reached_through", "%s > %s" % (top.name, ev.parent.name) if top is not ev.parent else top.name)
        witness = {"fit_coordinates": [px, py], "fit_data": data, "k": k, "reduction": getattr(reduction, "__name__", repr(reduction)),
                   "query": [q0, q1]}
        res = ev.result
        if not isinstance(res, np.ndarray) or res.shape != q0.shape:
            run.violation("KNeighbors.predict", "prediction has shape %s for query arrays of shape %s"
                          % (getattr(res, "shape", type(res).__name__), q0.shape), dict(witness, result=res), key="knn:shape")
            return
        if qx.size == 0:
            return
        order, srt = nearest_sorted(qx, qy, px, py, k + 1)
        if qx.size > 131072:
            run.count("class:knn_predict_on_more_than_131072_points")
        run.observe_max("largest_knn_query_count", qx.size)
        scale = max(float(np.ptp(np.concatenate([px, qx]))), float(np.ptp(np.concatenate([py, qy]))))
        tie_margin = TIE_REL * scale + 16 * EPS * _maxabs(px, py, qx, qy) + np.finfo("float64").tiny
        decided = np.ones(qx.size, dtype=bool) if k == n else (srt[:, k] - srt[:, k - 1]) >= tie_margin
        n_tie = int((~decided).sum())
        if n_tie:
            run.count("either_way:knn_query_with_tied_kth_neighbour", n_tie)
        run.count("knn_queries_decided", int(decided.sum()))
        vals = data[order[:, :k]]
        expected, tol, rname = reduce_rows(reduction, vals)
        run.count("class:knn_reduction_" + rname)
        got = res.ravel().astype("float64")
        err = np.abs(got - expected.astype("float64"))
        bad = decided & ~(err <= tol)
        with np.errstate(divide="ignore", invalid="ignore"):
            ratio = np.where(tol > 0, err / np.where(tol > 0, tol, 1.0), 0.0)
        if decided.any():
            run.observe_max("knn_error_over_tolerance", float(np.max(ratio[decided])))
        if bad.any():
            j = int(np.flatnonzero(bad)[0])
            run.violation(
                "KNeighbors.predict",
                "query %d (%r, %r): predicted %r, the %s of the data of its %d nearest fitted points %s is %r (%d of %d decided queries differ)"
                % (j, float(qx[j]), float(qy[j]), float(got[j]), rname, k, order[j, :k].tolist()[:12], float(expected[j]),
                   int(bad.sum()), int(decided.sum())),
                dict(witness, result=res, query_index=j, neighbours=order[j, :k], neighbour_distances=srt[j, :min(k + 1, n)],
                     neighbour_values=vals[j], expected=float(expected[j])),
                key="knn:value")
        # would a neighbour-count slip be visible on this call?
        if decided.any():
            if k < n:
                alt, _, _ = reduce_rows(reduction, data[order[:, :k + 1]])
                if (np.abs(alt.astype("float64") - expected) > tol)[decided].any():
                    run.count("would_notice:knn_k_plus_one")
            if k > 1:
                alt, _, _ = reduce_rows(reduction, data[order[:, :k - 1]])
                if (np.abs(alt.astype("float64") - expected) > tol)[decided].any():
                    run.count("would_notice:knn_k_minus_one")
            if k < n:
                run.mark_nontrivial("knn", px, py, data, k, rname, q0, q1)

    # ------------------------------------------------------- median_distance
    def post_median(ev):
        if ev.exc is not None:
            run.count("raised:median_distance:" + type(ev.exc).__name__)
            return
        a = ev.args
        coords, k, projection = a["coordinates"], a["k_nearest"], a["projection"]
        try:
            c0, c1 = np.asarray(coords[0], dtype="float64"), np.asarray(coords[1], dtype="float64")
        except Exception:  # noqa: BLE001
            run.count("skipped:median_unreadable_input")
            return
        if c0.shape != c1.shape or not _finite(c0, c1):
            run.count("skipped:median_unequal_shapes_or_nonfinite")
            return
        x, y = np.atleast_1d(c0).ravel(), np.atleast_1d(c1).ravel()
        n = x.size
        run.count("class:median_k_spelled_" + spelling(k))
        k = as_integer(k)
        if k is None or k < 1 or k > n - 1:
            run.count("skipped:median_k_exceeds_other_points")
            return
        if projection is not None:
            px, py = projection(x.copy(), y.copy())
            px, py = _flat(px), _flat(py)
            run.count("class:median_projection_" + type(projection).__name__)
        else:
            px, py = x, y
            run.count("class:median_projection_none")
        run.evaluated("median_distance")
        run.count("class:median_k=%s" % ("1" if k == 1 else "n-1" if k == n - 1 else "2..n-2"))
        run.count("class:median_input_%dd" % c0.ndim)
        if share_a_table(coords[0], coords[1]):
            run.count("class:median_coordinates_are_views_of_one_table")
        if not np.any(c0) or not np.any(c1):
            run.count("class:median_easting_or_northing_all_zero")
        if len(coords) > 2 and any(not np.any(np.asarray(c)) for c in coords[2:]):
            run.count("class:median_extra_coordinate_all_zero")
        if len(coords) > 2 and non_finite_rows(coords[2:], c0.size).any():
            run.count("class:median_extra_coordinate_non_finite")
        if container_class(coords[0]) != "ndarray":
            run.count("class:median_coordinates_container_" + container_class(coords[0]))
            run.count("class:median_coordinates_index_%s" % index_class(coords[0]))
        if len(coords) > 2:
            run.count("class:median_extra_coordinates")
        witness = {"coordinates": [c0, c1], "k_nearest": k, "projection": repr(projection)}
        res = ev.result
        if not isinstance(res, np.ndarray) or res.shape != c0.shape:
            run.violation("median_distance", "result has shape %s for coordinate arrays of shape %s"
                          % (getattr(res, "shape", type(res).__name__), c0.shape), dict(witness, result=res), key="median:shape")
            return
        run.observe_max("largest_median_distance_points_times_k_plus_1", n * (k + 1))
        if n > 3000:
            # large input: every value must be finite and positive-or-zero; brute force (one full distance row per point) on a
            # subsample: the first and the very last points, points around multiples of 2e6/(k+1) and random ones
            run.count("class:median_large_input_judged_on_a_subsample")
            if n * (k + 1) >= 2_000_000:
                run.count("class:median_points_times_k_plus_1_at_least_2e6")
            got_all = res.ravel().astype("float64")
            if not np.all(np.isfinite(got_all)) or np.any(got_all < 0):
                j = int(np.flatnonzero(~np.isfinite(got_all) | (got_all < 0))[0])
                run.violation("median_distance", "point %d of %d: result %r is not a finite distance" % (j, n, float(got_all[j])),
                              {"k_nearest": k, "n_points": n, "point_index": j}, key="median:large:nonfinite")
                return
            sub_rng = np.random.default_rng(n * 7919 + k)
            step = max(1, 2_000_000 // (k + 1))
            marks = np.concatenate([np.arange(0, 40), np.arange(n - 120, n), sub_rng.integers(0, n, 240)] +
                                   [np.arange(max(b - 10, 0), min(b + 10, n)) for b in range(step, n, step)])
            rows = np.unique(marks[(marks >= 0) & (marks < n)])
            expected = np.empty(rows.size)
            for lo in range(0, rows.size, 25):
                sel = rows[lo:lo + 25]
                dist = distance_matrix(px[sel], py[sel], px, py)
                dist[np.arange(sel.size), sel] = np.inf
                expected[lo:lo + 25] = _median_rows(np.partition(dist, k - 1, axis=1)[:, :k])
            tol = 16 * EPS * _maxabs(px, py) + 8 * EPS * expected + np.finfo("float64").tiny
            err = np.abs(got_all[rows] - expected)
            run.count("median_large_rows_judged", int(rows.size))
            bad = ~(err <= tol)
            if bad.any():
                j = int(rows[np.flatnonzero(bad)[0]])
                run.violation("median_distance",
                              "point %d of %d (%r, %r): got %r, the median distance to its %d nearest other points is %r (%d of %d judged points differ)"
                              % (j, n, float(x[j]), float(y[j]), float(got_all[j]), k, float(expected[np.flatnonzero(bad)[0]]), int(bad.sum()), rows.size),
                              {"k_nearest": k, "n_points": n, "point_index": j, "judged_rows": rows}, key="median:large:value")
            run.mark_nontrivial("median_large", n, k, float(px[0]), float(py[-1]))
            return
        dist = distance_matrix(px, py, px, py)
        with_self = np.sort(dist, axis=1)[:, :k]
        np.fill_diagonal(dist, np.inf)
        others = np.sort(dist, axis=1)[:, :k]
        expected = _median_rows(others)
        tol = 16 * EPS * _maxabs(px, py) + 8 * EPS * expected + np.finfo("float64").tiny
        got = res.ravel().astype("float64")
        err = np.abs(got - expected)
        run.observe_max("median_error_over_tolerance", float(np.max(err / tol)))
        bad = ~(err <= tol)
        if bad.any():
            j = int(np.flatnonzero(bad)[0])
            run.violation(
                "median_distance",
                "point %d (%r, %r): got %r, the median distance to its %d nearest other points is %r (%d of %d points differ)"
                % (j, float(x[j]), float(y[j]), float(got[j]), k, float(expected[j]), int(bad.sum()), n),
                dict(witness, result=res, point_index=j, nearest_other_distances=others[j], expected=float(expected[j])),
                key="median:value")
        if (np.abs(_median_rows(with_self) - expected) > tol).any():
            run.count("would_notice:median_self_not_skipped")
        if projection is not None:
            plain = distance_matrix(x, y, x, y)
            np.fill_diagonal(plain, np.inf)
            if (np.abs(_median_rows(np.sort(plain, axis=1)[:, :k]) - expected) > tol).any():
                run.count("would_notice:median_projection_ignored")
        if n >= k + 2:
            run.mark_nontrivial("median", c0, c1, k, repr(projection))

    # --------------------------------------------------------- distance_mask
    def is_lazy(variable):
        """Is the variable backed by a dask array (lazily evaluated)?"""
        return type(variable.data).__module__.split(".")[0] == "dask"

    def pre_mask(ev):
        """Before the call: the grid's variable values (computed if lazy), laziness, chunks and attributes."""
        grid = ev.args.get("grid")
        if grid is None or not isinstance(grid, xr.Dataset):
            return None
        snap = {"attrs": dict(grid.attrs), "vars": {}, "coords": {str(c): np.array(grid.coords[c].values, copy=True) for c in grid.coords}}
        for name in grid.data_vars:
            var = grid[name]
            snap["vars"][name] = {"values": np.array(var.values, copy=True), "lazy": is_lazy(var), "chunks": var.chunks,
                                  "attrs": dict(var.attrs), "dtype": str(var.dtype)}
        return snap

    def post_mask(ev):
        if ev.exc is not None:
            run.count("raised:distance_mask:" + type(ev.exc).__name__)
            return
        a = ev.args
        dc, maxdist, coords, grid, projection = a["data_coordinates"], a["maxdist"], a["coordinates"], a["grid"], a["projection"]
        if coords is not None and grid is not None:
            run.count("skipped:mask_both_coordinates_and_grid")
            return
        try:
            dx, dy = _flat(dc[0]), _flat(dc[1])
            if coords is not None:
                q0, q1 = np.asarray(coords[0], dtype="float64"), np.asarray(coords[1], dtype="float64")
                if q0.shape != q1.shape:
                    run.count("skipped:mask_unequal_shapes")
                    return
                form = "array"
            else:
                names = list(grid.data_vars)
                dims = grid[names[0]].dims
                north_vec = np.asarray(grid.coords[dims[0]].values, dtype="float64")
                east_vec = np.asarray(grid.coords[dims[1]].values, dtype="float64")
                q0 = np.broadcast_to(east_vec[None, :], (north_vec.size, east_vec.size)).copy()
                q1 = np.broadcast_to(north_vec[:, None], (north_vec.size, east_vec.size)).copy()
                form = "grid"
        except Exception:  # noqa: BLE001
            run.count("skipped:mask_unreadable_input")
            return
        if not _finite(dx, dy, q0, q1, maxdist) or dx.size == 0 or dx.size != dy.size:
            run.count("skipped:mask_nonfinite_or_empty")
            return
        maxdist = float(maxdist)
        qx, qy = q0.ravel(), q1.ravel()
        if projection is not None:
            pdx, pdy = (_flat(v) for v in projection(dx.copy(), dy.copy()))
            pqx, pqy = (_flat(v) for v in projection(qx.copy(), qy.copy()))
            run.count("class:mask_projection_" + type(projection).__name__)
        else:
            pdx, pdy, pqx, pqy = dx, dy, qx, qy
            run.count("class:mask_projection_none")
        run.evaluated("distance_mask." + form)
        if np.ndim(dc[0]) == 0:
            run.count("class:mask_scalar_data_point")
        if np.ndim(dc[0]) >= 3:
            run.count("class:mask_data_coordinates_%dd" % np.ndim(dc[0]))
        if q0.ndim >= 3 and projection is not None:
            run.count("class:mask_query_%dd_with_projection" % q0.ndim)
        if len(dc) > 2 or (coords is not None and len(coords) > 2):
            run.count("class:mask_extra_coordinates")
        run.count("class:mask_query_%dd" % q0.ndim)
        run.count("class:mask_maxdist_spelled_" + spelling(a["maxdist"]))
        if share_a_table(dc[0], dc[1]):
            run.count("class:mask_data_coordinates_are_views_of_one_table")
        if coords is not None and share_a_table(coords[0], coords[1]):
            run.count("class:mask_query_coordinates_are_views_of_one_table")
        if dx.size == 1:
            run.count("class:mask_single_data_point_as_" + spelling(dc[0]))
        if coords is not None and q0.size == 1:
            run.count("class:mask_single_query_point_as_" + spelling(coords[0]))
        if not np.any(dx) or not np.any(dy):
            run.count("class:mask_data_easting_or_northing_all_zero")
        if len(dc) > 2 and non_finite_rows(dc[2:], dx.size).any():
            run.count("class:mask_data_extra_coordinate_non_finite")
        if coords is not None and len(coords) > 2 and non_finite_rows(coords[2:], q0.size).any():
            run.count("class:mask_query_extra_coordinate_non_finite")
        if form == "grid":
            for axis, vec in (("northing", north_vec), ("easting", east_vec)):
                if vec.size > 1:
                    steps = np.diff(vec)
                    if np.all(steps < 0):
                        run.count("class:grid_%s_decreasing" % axis)
                    if not np.allclose(steps, steps[0], rtol=1e-6, atol=0):
                        run.count("class:grid_%s_unevenly_spaced" % axis)
        if container_class(dc[0]) not in ("ndarray", "scalar"):
            run.count("class:mask_data_coordinates_container_" + container_class(dc[0]))
            run.count("class:mask_data_coordinates_index_%s" % index_class(dc[0]))
        if coords is not None and container_class(coords[0]) != "ndarray":
            run.count("class:mask_query_container_" + container_class(coords[0]))
        nearest = nearest_distance(pqx, pqy, pdx, pdy)
        margin = TIE_REL * abs(maxdist) + 16 * EPS * _maxabs(pdx, pdy, pqx, pqy) + np.finfo("float64").tiny
        must_true = nearest < maxdist - margin
        must_false = nearest > maxdist + margin
        # Exact class: where the distance is computed WITHOUT any rounding by every correct implementation, equality with
        # maxdist is not a tie: "no farther than maxdist" means d <= maxdist and the cell must be True.
        #  (a) all (projected) coordinates integer-valued with |v| < 2**20 and the squared nearest distance a perfect square
        #      (Pythagorean / axis-aligned offsets): dx*dx + dy*dy is an exact integer < 2**42 and its square root is exact;
        #  (b) no projection and the query coincides with a data point: d = 0 exactly.
        strict = np.zeros(nearest.shape, dtype=bool)
        exact_root = np.zeros(nearest.shape)
        if integer_valued(pdx, pdy, pqx, pqy):
            run.count("class:mask_integer_coordinates")
            d2min, diagonal = nearest_squared_integer(pqx, pqy, pdx, pdy)
            root = np.rint(np.sqrt(d2min.astype("float64"))).astype("int64")
            strict = root * root == d2min
            exact_root = root.astype("float64")
            n_pyth = int((strict & diagonal & (exact_root == maxdist)).sum())
            if n_pyth:
                run.count("strict:mask_cells_at_exactly_maxdist_pythagorean", n_pyth)
        elif projection is None:
            strict = nearest == 0.0
        if strict.any():
            must_true = np.where(strict, exact_root <= maxdist, must_true)
            must_false = np.where(strict, exact_root > maxdist, must_false)
            n_equal = int((strict & (exact_root == maxdist)).sum())
            run.count("strict:mask_cells_exact_distance", int(strict.sum()))
            if n_equal:
                run.count("strict:mask_cells_at_exactly_maxdist", n_equal)
                run.count("strict:mask_calls_with_cells_at_exactly_maxdist_" + form)
                if maxdist == 0.0:
                    run.count("strict:mask_zero_maxdist_on_a_data_point", n_equal)
        must_true = must_true.reshape(q0.shape)
        must_false = must_false.reshape(q0.shape)
        n_edge = int((~must_true & ~must_false).sum())
        if n_edge:
            run.count("either_way:mask_distance_equals_maxdist", n_edge)
        run.count("mask_cells_decided", int(must_true.sum() + must_false.sum()))
        witness = {"data_coordinates": [dx, dy], "maxdist": maxdist, "projection": repr(projection), "query": [q0, q1], "form": form}
        res = ev.result

        def report(kind, pos, extra=None, msg=None):
            j = tuple(int(v) for v in pos)
            flat = int(np.ravel_multi_index(j, q0.shape)) if q0.ndim else 0
            run.violation(
                "distance_mask." + form,
                msg or ("query %s (%r, %r): nearest data point is at distance %r %s maxdist %r after projecting both point sets, but the cell is %s"
                        % (j, float(qx[flat]), float(qy[flat]), float(nearest[flat]), "<=" if kind == "kept_missing" else ">", maxdist,
                           "masked" if kind == "kept_missing" else "kept")),
                dict(witness, cell=list(j), nearest_distance=float(nearest[flat]), margin=margin, **(extra or {})),
                key="mask:%s:%s" % (form, kind))

        if form == "array":
            # for a 0-d query numpy hands back a numpy bool scalar: it has the query's shape () and is accepted
            if not isinstance(res, (np.ndarray, np.bool_)) or np.shape(res) != q0.shape or np.asarray(res).dtype != bool:
                run.violation("distance_mask.array", "mask is %s of shape %s dtype %s for query arrays of shape %s"
                              % (type(res).__name__, getattr(res, "shape", None), getattr(res, "dtype", None), q0.shape),
                              dict(witness, result=res), key="mask:array:shape")
                return
            res = np.asarray(res)
            wrong_false = must_true & ~res
            wrong_true = must_false & res
            if wrong_false.any():
                report("kept_missing", np.argwhere(wrong_false)[0] if q0.ndim else (), {"result": res, "n_wrong": int(wrong_false.sum() + wrong_true.sum())})
            elif wrong_true.any():
                report("masked_missing", np.argwhere(wrong_true)[0] if q0.ndim else (), {"result": res, "n_wrong": int(wrong_true.sum())})
        else:
            run.count("class:grid_shape_%s" % ("square" if q0.shape[0] == q0.shape[1] else "non_square"))
            run.count("class:grid_variables_%d" % len(names))
            # Dataset-level orderings (none of them may matter: the mesh is (dims[1] of the variable, dims[0] of the variable))
            level = [d for d in grid.sizes if d in dims]
            run.count("class:grid_dataset_level_dims_%s" % ("northing_first" if level == list(dims) else "easting_first"))
            order = [c for c in grid.coords if c in dims]
            run.count("class:grid_coords_declared_%s" % ("northing_first" if order == list(dims) else "easting_first"))
            if list(grid.coords)[0] not in dims:
                run.count("class:grid_first_coordinate_is_not_a_dimension")
            if len(grid.coords) > 2:
                run.count("class:grid_has_extra_coordinates")
            if level != list(dims) and q0.shape[0] == q0.shape[1]:
                run.count("class:grid_square_with_easting_first_dataset_dims")
            run.seen("grid_dim_names", "%s,%s" % (dims[0], dims[1]))
            if not isinstance(res, xr.Dataset) or list(res.data_vars) != names:
                run.violation("distance_mask.grid", "result is not a Dataset with the variables %s" % names,
                              dict(witness, result=res), key="mask:grid:container")
                return
            for dim in dims:
                if dim not in res.coords or not np.array_equal(np.asarray(res.coords[dim].values), np.asarray(grid.coords[dim].values)):
                    run.violation("distance_mask.grid", "coordinate %r of the masked grid differs from the input grid" % dim,
                                  dict(witness, result=res), key="mask:grid:coords")
                    return
            before_call = ev.pre or {"attrs": dict(grid.attrs), "vars": {}, "coords": {}}
            lazy_in = [name for name in names if before_call["vars"].get(name, {}).get("lazy")]
            if lazy_in:
                run.count("class:grid_dask_backed_%s" % ("all_variables" if len(lazy_in) == len(names) else "some_variables_only"))
                chunks = before_call["vars"][lazy_in[0]]["chunks"]
                run.count("class:grid_dask_chunks_%s" % ("single_chunk" if all(len(c) == 1 for c in chunks) else "several_chunks"))
                if any(is_lazy(res[name]) for name in names):
                    run.count("class:grid_result_still_lazy")
                else:
                    run.count("class:grid_result_computed")
            # the input grid must be untouched: values, laziness, chunks, attributes, coordinates
            run.evaluated("distance_mask.grid_input_untouched")
            for name, old in before_call["vars"].items():
                now = grid[name]
                if (not np.array_equal(np.asarray(now.values), old["values"], equal_nan=old["values"].dtype.kind == "f") or is_lazy(now) != old["lazy"]
                        or now.chunks != old["chunks"] or dict(now.attrs) != old["attrs"] or str(now.dtype) != old["dtype"]):
                    run.violation("distance_mask.grid_input_untouched", "variable %r of the INPUT grid was changed by the call" % name,
                                  dict(witness, variable=name, values_before=old["values"], values_after=np.asarray(now.values)),
                                  key="mask:grid:input_changed")
                    break
            if dict(grid.attrs) != before_call["attrs"]:
                run.violation("distance_mask.grid_input_untouched", "attributes of the INPUT grid were changed", dict(witness), key="mask:grid:input_attrs")
            # attributes are kept, on the Dataset and on every variable (as xarray's where does on a numpy-backed grid)
            lost = None
            if dict(res.attrs) != before_call["attrs"]:
                lost = "Dataset attributes %r became %r" % (before_call["attrs"], dict(res.attrs))
            else:
                for name, old in before_call["vars"].items():
                    if dict(res[name].attrs) != old["attrs"]:
                        lost = "attributes of variable %r: %r became %r" % (name, old["attrs"], dict(res[name].attrs))
                        break
            if lost:
                run.violation("distance_mask.grid", "attributes not kept: " + lost, dict(witness), key="mask:grid:attrs")
                return
            if set(res.coords) != set(grid.coords):
                run.violation("distance_mask.grid", "coordinates of the masked grid %s differ from those of the input grid %s"
                              % (sorted(res.coords), sorted(grid.coords)), dict(witness, result=res), key="mask:grid:coords_lost")
                return
            for name in names:
                vin, vout = grid[name], res[name]
                if vout.dims != vin.dims or vout.shape != vin.shape:
                    run.violation("distance_mask.grid", "variable %r changed dims/shape: %s %s -> %s %s"
                                  % (name, vin.dims, vin.shape, vout.dims, vout.shape), dict(witness, result=res), key="mask:grid:dims")
                    return
                if vin.dims == tuple(dims):
                    t, f = must_true, must_false
                elif vin.dims == tuple(dims)[::-1]:
                    t, f = must_true.T, must_false.T
                    run.count("class:grid_variable_with_transposed_dims")
                else:
                    run.count("skipped:grid_variable_with_other_dims")
                    continue
                before = before_call["vars"][name]["values"] if name in before_call["vars"] else np.asarray(vin.values)
                after = np.asarray(vout.values)  # computes a lazy result: what the user gets once it is evaluated
                if np.issubdtype(before.dtype, np.integer):
                    run.count("class:grid_integer_variable")
                was_nan = np.isnan(before) if np.issubdtype(before.dtype, np.floating) else np.zeros(before.shape, bool)
                now_nan = np.isnan(after) if np.issubdtype(after.dtype, np.floating) else np.zeros(after.shape, bool)
                wrong_masked = t & now_nan & ~was_nan
                wrong_kept = f & ~now_nan
                with np.errstate(invalid="ignore"):
                    changed = t & ~now_nan & (after != before)
                swap = (lambda p: p[::-1]) if vin.dims != tuple(dims) else (lambda p: p)
                if wrong_masked.any():
                    report("kept_missing", swap(np.argwhere(wrong_masked)[0]), {"variable": name, "values_after": after, "n_wrong": int(wrong_masked.sum() + wrong_kept.sum())})
                    break
                if wrong_kept.any():
                    report("masked_missing", swap(np.argwhere(wrong_kept)[0]), {"variable": name, "values_after": after, "n_wrong": int(wrong_kept.sum())})
                    break
                if changed.any():
                    pos = np.argwhere(changed)[0]
                    report("value_changed", swap(pos), {"variable": name, "values_before": before, "values_after": after},
                           msg="variable %r cell %s: kept cell changed its value from %r to %r" % (name, tuple(int(v) for v in pos), before[tuple(pos)].item(), after[tuple(pos)].item()))
                    break
        # would the documented breaks be visible on this call?
        decided = (must_true | must_false).ravel()
        truth = must_true.ravel()

        def differs(alt_nearest):
            alt = alt_nearest <= maxdist
            return bool((alt != truth)[decided].any())

        if projection is not None and decided.any():
            if differs(nearest_distance(qx, qy, dx, dy)):
                run.count("would_notice:mask_projection_ignored")
            if differs(nearest_distance(qx, qy, pdx, pdy)):
                run.count("would_notice:mask_projection_on_data_only")
            if differs(nearest_distance(pqx, pqy, dx, dy)):
                run.count("would_notice:mask_projection_on_query_only")
        if form == "grid" and q0.shape[0] == q0.shape[1] and ((must_true.T != must_true) & (must_true | must_false) & (must_true | must_false).T).any():
            run.count("would_notice:square_grid_mask_transposed")
        if must_true.any() and must_false.any():
            run.mark_nontrivial("mask", form, dx, dy, maxdist, repr(projection), q0, q1)

    # callers that only provide context (which public entry point led to a nested predict)
    import verde.base as vbase
    import verde.chain as vchain
    import verde.projections as vproj

    for name in ("grid", "scatter", "profile"):
        tap.method(vbase.BaseGridder, name, subclasses=False)
    tap.method(vchain.Chain, "fit", subclasses=False)
    tap.method(vchain.Chain, "predict", subclasses=False)
    tap.function(vproj, "project_grid")
    def post_init(ev):
        """KNeighbors(k=1, reduction=np.mean): after construction the parameters are the given ones or the DOCUMENTED defaults."""
        if ev.exc is not None:
            return
        est = ev.args["self"]
        run.evaluated("KNeighbors.constructor_defaults")
        have = (getattr(est, "k", None), getattr(est, "reduction", None))
        if as_integer(have[0]) != as_integer(ev.args["k"]) or have[1] is not ev.args["reduction"]:
            run.violation("KNeighbors.constructor_defaults",
                          "KNeighbors constructed with k=%r, reduction=%s (documented defaults for what was left out) has k=%r, reduction=%s"
                          % (ev.args["k"], getattr(ev.args["reduction"], "__name__", ev.args["reduction"]), have[0], getattr(have[1], "__name__", have[1])),
                          {"k": repr(have[0]), "reduction": repr(have[1])}, key="knn:constructor_defaults")

    # defaults as documented in the docstrings: an argument the caller leaves out is judged by these, not by the tree's signature
    tap.method(vneigh.KNeighbors, "__init__", post=post_init, subclasses=False, documented={"k": 1, "reduction": np.mean})
    tap.method(vneigh.KNeighbors, "fit", post=post_fit, documented={"weights": None})
    tap.method(vneigh.KNeighbors, "predict", post=post_predict)
    tap.function(vdist, "median_distance", post=post_median, documented={"k_nearest": 1, "projection": None})
    tap.function(vmask, "distance_mask", post=post_mask, pre=pre_mask, documented={"coordinates": None, "grid": None, "projection": None})


# ----------------------------------------------------------------------
# workloads
# ----------------------------------------------------------------------
REDUCTIONS = [np.mean, np.mean, np.median, np.min, np.max, np.sum, np.ptp]


def _shape_2d(rng, size):
    rows = [r for r in range(2, min(size, 30)) if size % r == 0 and size // r != r]
    if not rows:
        return None
    r = int(rng.choice(rows))
    return r, size // r


def _present(rng, arrays, allow_0d=False, python_ok=True):
    """The same element sequence as 1-D / 2-D C / 2-D Fortran / strided arrays."""
    size = arrays[0].size
    mode = int(rng.integers(0, 5))
    if size == 1 and allow_0d and rng.random() < 0.7:
        return spell_point(rng, [a[0] for a in arrays], python_ok=python_ok)
    if len(arrays) >= 2 and rng.random() < 0.18:
        # argument aliasing: easting and northing as column views of ONE common table (every order and direction)
        shp = _shape_2d(rng, size) if rng.random() < 0.3 else None
        shaped = [np.asarray(a).reshape(shp) for a in arrays] if shp is not None else [np.asarray(a) for a in arrays]
        ev, nv, kind, _ = table_views(rng, shaped[0], shaped[1])
        ALIAS_KIND[id(ev)] = kind
        return (ev, nv) + tuple(np.ascontiguousarray(a) for a in shaped[2:]), "table_views"
    shp = _shape_2d(rng, size) if mode in (1, 2) else None
    if shp is not None:
        out = [a.reshape(shp) for a in arrays]
        if mode == 2:
            out = [np.asfortranarray(a) for a in out]
        return tuple(out), "2d"
    if mode == 3:
        views = []
        for a in arrays:
            big = np.full(size * 2, -777, dtype=a.dtype)
            big[1::2] = a
            views.append(big[1::2])
        return tuple(views), "strided"
    return tuple(np.ascontiguousarray(a) for a in arrays), "1d"


PANDAS_OPS = ["sort_values", "sample", "reversed", "permuted_integer_index", "boolean_mask_subset", "every_other_row", "string_index",
              "range_index"]


def _frame(run, rng, columns, op=None, keep_all=False):
    """
    The columns as a pandas DataFrame the way user code leaves it: sorted, shuffled, reversed, subset ... so that the index
    labels are NOT the positions. verde documents positional semantics (np.ravel of every argument): row i is point i.
    """
    import pandas as pd

    columns = collections.OrderedDict(columns)
    df = pd.DataFrame(columns)
    n = len(df)
    op = PANDAS_OPS[int(rng.integers(0, len(PANDAS_OPS)))] if op is None else op
    if keep_all and op in ("boolean_mask_subset", "every_other_row"):
        op = "permuted_integer_index"
    if op == "sort_values":
        df = df.sort_values(by=list(columns)[int(rng.integers(0, len(columns)))], ascending=bool(rng.random() < 0.5))
    elif op == "sample":
        df = df.sample(frac=1, random_state=int(rng.integers(0, 2 ** 31 - 1)))
    elif op == "reversed":
        df = df.iloc[::-1]
    elif op == "permuted_integer_index":
        df = df.set_axis(rng.permutation(n))
    elif op == "boolean_mask_subset":
        keep = rng.random(n) < 0.7
        keep[int(rng.integers(0, n))] = True
        df = df[keep]
    elif op == "every_other_row":
        df = df.iloc[int(rng.integers(0, 2)) if n > 1 else 0::2]
    elif op == "string_index":
        df = df.set_axis(["p%03d" % i for i in rng.permutation(n)])
    run.count("pandas_frame:" + op)
    return df, op


def _poisoned_extras(rng, east, north):
    """
    Extra coordinates (height, time) with NaN / +-inf at some points whose easting and northing are finite, border points of
    the cloud included. They are documented as ignored.
    """
    n = east.size
    extras = [rng.normal(size=n) * 10 + 500.0]
    if rng.random() < 0.4:
        extras.append(rng.uniform(0, 1e3, n))
    border = [int(np.argmin(east)), int(np.argmax(east)), int(np.argmin(north)), int(np.argmax(north))]
    for extra in extras:
        where = list(rng.integers(0, n, int(rng.integers(1, 4))))
        if rng.random() < 0.7:
            where += [border[int(j)] for j in rng.integers(0, 4, int(rng.integers(1, 5)))]
        for j in where:
            extra[j] = float(rng.choice([np.nan, np.nan, np.inf, -np.inf]))
    return extras


def _twin(run, what, with_extras, without, monitor="extras_ignored", label="non-finite extra coordinates"):
    """Metamorphic twin: the result with (easting, northing, extras...) equals the result with (easting, northing)."""
    run.evaluated(monitor + "." + what)
    a, b = np.asarray(with_extras), np.asarray(without)
    if a.shape != b.shape or not np.array_equal(a, b, equal_nan=a.dtype.kind == "f"):
        run.violation(monitor + "." + what, "%s changed the result of %s" % (label, what),
                      {"result": a, "twin_result": b}, key=monitor + ":" + what)


def _copies(coords):
    return tuple(np.array(c, order="C", copy=True) if isinstance(c, np.ndarray) else c for c in coords)


def _aliased(run, coords):
    """Bookkeeping + test: are the first two arrays views of one table?"""
    if len(coords) >= 2 and share_a_table(coords[0], coords[1]):
        run.count("aliasing:" + ALIAS_KIND.get(id(coords[0]), "unknown"))
        return True
    return False


def _extra_coordinate(rng, n):
    """A third coordinate that must be ignored; sometimes 0 everywhere (falsy but valid)."""
    return np.zeros(n) if rng.random() < 0.3 else rng.normal(size=n)


def _n_points(rng, lo=1, hi=300):
    if rng.random() < 0.6:
        return int(min(max(int(rng.integers(2, 16)) * int(rng.integers(2, 21)), lo), hi))
    return int(rng.integers(lo, min(hi, 60)))


def _unique_data(rng, n):
    """Data values that identify their point: distinct, no cancellation surprises."""
    kind = int(rng.integers(0, 3))
    if kind == 0:
        return rng.permutation(n).astype("float64") * 3.0 - n
    if kind == 1:
        return (rng.permutation(n) * 7 - 3 * n).astype("int64")
    return rng.normal(size=n) * gen.log_uniform(rng, 1e-3, 1e6)


def _queries(rng, east, north, m=None):
    if m is None:
        m = 1 if rng.random() < 0.08 else _n_points(rng, 1, 200)
    w, e, s, n = east.min(), east.max(), north.min(), north.max()
    wid, hei = (e - w) or abs(e) or 1.0, (n - s) or abs(n) or 1.0
    qx = rng.uniform(w - 0.3 * wid, e + 0.3 * wid, m)
    qy = rng.uniform(s - 0.3 * hei, n + 0.3 * hei, m)
    # some queries exactly on data points (distance 0)
    hit = rng.random(m) < 0.1
    pick = rng.integers(0, east.size, m)
    qx = np.where(hit, east[pick], qx)
    qy = np.where(hit, north[pick], qy)
    return qx, qy


def _lattice(rng):
    m, p = int(rng.integers(2, 9)), int(rng.integers(2, 9))
    step = float(2.0 ** int(rng.integers(-2, 4)))
    gx, gy = np.meshgrid(np.arange(m, dtype="float64") * step, np.arange(p, dtype="float64") * step * (1 if rng.random() < 0.5 else 2))
    perm = rng.permutation(gx.size)
    return gx.ravel()[perm], gy.ravel()[perm], step


def _k_choice(rng, n):
    options = [1, 2, 3, n, n - 1, int(rng.integers(1, n + 1)), int(rng.integers(1, min(n, 12) + 1))]
    return int(min(max(int(rng.choice(options)), 1), n))


def _pandas_fit_inputs(run, rng, east, north, data, extras):
    """
    Fit arguments in pandas / xarray containers. Returns the arguments plus the element sequences they hold in positional
    order (what the oracle and the queries are built from).
    """
    import pandas as pd
    import xarray as xr

    columns = [("easting", east), ("northing", north), ("data", data)] + [("extra%d" % i, x) for i, x in enumerate(extras)]
    mode = int(rng.integers(0, 7))
    if mode == 6 and _shape_2d(rng, east.size) is not None:
        # 2-D inputs taken from DataFrame.values (pandas hands out Fortran-ordered blocks)
        shp = _shape_2d(rng, east.size)
        east_in, north_in, data_in = (pd.DataFrame(np.asarray(c, dtype="float64").reshape(shp)).values for c in (east, north, data))
        run.count("pandas_fit:2d_DataFrame.values")
        return east_in, north_in, data_in, [], None, east, north, np.asarray(data, dtype="float64")
    df, op = _frame(run, rng, columns)
    east, north, data = df.easting.to_numpy(), df.northing.to_numpy(), df.data.to_numpy()
    extra_in = [df[name] if rng.random() < 0.5 else df[name].to_numpy() for name, _ in columns[3:]]
    weights = None
    if mode == 0:  # everything as columns of the one frame
        east_in, north_in, data_in = df.easting, df.northing, df.data
        weights = df.data * 0 + 1.0 if rng.random() < 0.3 else None
        name = "all_series_of_one_frame"
    elif mode == 1:  # only the data is a Series
        east_in, north_in, data_in = east, north, df.data
        name = "data_series_coordinates_ndarray"
    elif mode == 2:  # only the coordinates are Series
        east_in, north_in, data_in = df.easting, df.northing, data
        name = "coordinates_series_data_ndarray"
    elif mode == 3:  # data carries an index unrelated to the one of the coordinates
        east_in, north_in = df.easting, df.northing
        data_in = pd.Series(data, index=rng.permutation(data.size) + int(rng.choice([0, 0, 1000])), name="values")
        name = "data_series_with_unrelated_index"
    elif mode == 4:  # 1-D xarray.DataArray data
        east_in, north_in = (east, north) if rng.random() < 0.5 else (df.easting, df.northing)
        data_in = xr.DataArray(data, dims="points", coords={"points": rng.permutation(data.size)}, name="values")
        name = "data_DataArray_1d"
    else:  # columns picked by position from .iloc / a column subset frame
        sub = df[["easting", "northing", "data"]]
        east_in, north_in, data_in = sub.iloc[:, 0], sub.iloc[:, 1], sub.iloc[:, 2]
        name = "iloc_columns"
    run.count("pandas_fit:" + name)
    return east_in, north_in, data_in, extra_in, weights, east, north, data


def _knn_case(run, verde, rng):
    lattice = rng.random() < 0.2
    if lattice:
        east, north, step = _lattice(rng)
    else:
        east, north = gen.cloud(rng, _n_points(rng))
    n = east.size
    data = _unique_data(rng, n)
    extras = [_extra_coordinate(rng, n)] if rng.random() < 0.25 else []
    if rng.random() < 0.04:
        # falsy but valid: every point on the northing axis (easting == 0), the old easting rides along as an extra coordinate
        extras = [east.copy()]
        east = np.zeros(n)
    poisoned = rng.random() < 0.15
    if poisoned:
        extras = _poisoned_extras(rng, east, north)
    weights_in = None
    if rng.random() < 0.4:
        east_in, north_in, data_in, extra_in, weights_in, east, north, data = _pandas_fit_inputs(run, rng, east, north, data, extras)
        n = east.size
    else:
        (east_in, north_in, data_in, *extra_in), layout = _present(rng, [east, north, data] + extras)
    k = _k_choice(rng, n)
    if poisoned and rng.random() < 0.4:
        k = n  # every point is a neighbour: the ones with non-finite extras (some on the border of the cloud) included
    reduction = REDUCTIONS[int(rng.integers(0, len(REDUCTIONS)))]
    kwargs = {"k": spell_int(rng, k), "reduction": reduction}
    if reduction is np.mean and rng.random() < 0.6:
        del kwargs["reduction"]  # rely on the documented default reduction=np.mean
    if k == 1 and rng.random() < 0.6:
        del kwargs["k"]  # rely on the documented default k=1
    est = verde.KNeighbors(**kwargs)
    weights = weights_in if weights_in is not None else (np.ones_like(np.asarray(data_in), dtype="float64") if rng.random() < 0.15 else None)
    with warnings.catch_warnings():
        warnings.simplefilter("ignore")
        est.fit((east_in, north_in, *extra_in), data_in, weights=weights)
    twin = verde.KNeighbors(k=k, reduction=reduction).fit((east, north), data) if poisoned and extra_in else None
    fit_twin = None
    if _aliased(run, (east_in, north_in)):
        # the same fit on contiguous copies of the same values
        fit_twin = verde.KNeighbors(k=k, reduction=reduction).fit(_copies((east_in, north_in)), data_in)
    for _ in range(int(rng.integers(1, 4))):
        qx, qy = _queries(rng, east, north)
        if lattice and rng.random() < 0.6:  # lattice mid-points: exact distance ties
            qx = np.round(qx / (step / 2)) * (step / 2)
            qy = np.round(qy / (step / 2)) * (step / 2)
        qextra = [rng.normal(size=qx.size)] if rng.random() < 0.2 else []
        if rng.random() < 0.12 and qx.size > 1:
            qextra = _poisoned_extras(rng, qx, qy)
        if rng.random() < 0.2:
            qdf, _ = _frame(run, rng, [("qx", qx), ("qy", qy)])
            query = (qdf.qx, qdf.qy)
        else:
            query, qlayout = _present(rng, [qx, qy] + qextra, allow_0d=True)
        pred = est.predict(query)
        if twin is not None:
            _twin(run, "KNeighbors.predict", pred, twin.predict(tuple(query[:2])))
        if fit_twin is not None:
            _twin(run, "KNeighbors.fit", pred, fit_twin.predict(query), monitor="aliasing_twin", label="table views instead of contiguous copies")
        if _aliased(run, query):
            _twin(run, "KNeighbors.predict", pred, est.predict(_copies(query)), monitor="aliasing_twin", label="table views instead of contiguous copies")
    if rng.random() < 0.15:  # refit the same object on other data: the monitor must follow
        east2, north2 = gen.cloud(rng, max(n, 2))
        data2 = _unique_data(rng, east2.size)
        est.set_params(k=_k_choice(rng, east2.size))
        est.fit((east2, north2), data2)
        est.predict(_queries(rng, east2, north2, 20))
        run.count("class:knn_refit_same_object")
    run.sample("knn", {"fit_coordinates": [east_in, north_in], "data": data_in, "k": k, "reduction": reduction.__name__,
                       "query": list(query[:2]), "prediction": pred})


def _knn_nested(run, verde, rng):
    import xarray as xr

    east, north = gen.cloud(rng, max(_n_points(rng), 4), scale=gen.log_uniform(rng, 1, 1e4), offset_factor=float(rng.choice([0.0, 1.0, 30.0])))
    n = east.size
    data = _unique_data(rng, n).astype("float64")
    k = _k_choice(rng, n)
    region = [float(east.min()), float(east.max()), float(north.min()), float(north.max())]
    with warnings.catch_warnings():
        warnings.simplefilter("ignore")
        est = verde.KNeighbors(k=k, reduction=REDUCTIONS[int(rng.integers(0, 5))]).fit((east, north), data)
        est.grid(shape=(int(rng.integers(2, 9)), int(rng.integers(2, 12))))
        est.grid(region=region, spacing=(region[1] - region[0] or 1.0) / rng.uniform(2, 9), projection=Aniso(0.5, 2.0))
        est.scatter(size=int(rng.integers(1, 30)), random_state=int(rng.integers(0, 1000)))
        est.profile((region[0], region[2]), (region[1], region[3]), size=int(rng.integers(2, 25)))
        # a Chain: the KNeighbors step is fitted on block-reduced data
        side = max(region[1] - region[0], region[3] - region[2]) or 1.0
        chain = verde.Chain([("reduce", verde.BlockReduce(np.median, spacing=side / rng.uniform(2, 6))),
                             ("knn", verde.KNeighbors(k=1))])
        chain.fit((east, north), data)
        chain.predict(_queries(rng, east, north, 30))
        # project_grid with the nearest-neighbour method
        ne, nn = int(rng.integers(3, 9)), int(rng.integers(3, 9))
        grid = xr.DataArray(rng.normal(size=(nn, ne)), coords={"northing": np.linspace(-3, 4, nn), "easting": np.linspace(10, 19, ne)},
                            dims=("northing", "easting"), name="field")
        verde.project_grid(grid, Shear(0.4, 0.1), method="nearest", antialias=bool(rng.random() < 0.5))
    run.sample("knn_nested", {"n_points": n, "k": k, "region": region})


def _median_case(run, verde, rng):
    for _ in range(3):
        if rng.random() < 0.15:
            east, north, _ = _lattice(rng)
        else:
            east, north = gen.cloud(rng, max(_n_points(rng), 2))
        n = east.size
        k = int(min(max(int(rng.choice([1, 1, 2, 3, 4, n - 1, int(rng.integers(1, n)), int(rng.integers(1, min(n, 25)))])), 1), n - 1))
        projection = _projection(rng, east, north)
        extras = [_extra_coordinate(rng, n)] if rng.random() < 0.25 else []
        if rng.random() < 0.04:
            extras = [east.copy()]
            east = np.zeros(n)
            projection = None if isinstance(projection, Warp) else projection
        poisoned = rng.random() < 0.15
        if poisoned:
            extras = _poisoned_extras(rng, east, north)
        if rng.random() < 0.3:  # columns of a frame whose index labels are not the positions
            df, _ = _frame(run, rng, [("easting", east), ("northing", north)] + [("extra%d" % i, x) for i, x in enumerate(extras)], keep_all=True)
            coords = tuple(df[c] for c in df.columns)
        else:
            coords, layout = _present(rng, [east, north] + extras)
        kwargs = {"k_nearest": spell_int(rng, k, zero_d=True), "projection": projection}
        if k == 1 and rng.random() < 0.6:
            del kwargs["k_nearest"]  # rely on the documented default k_nearest=1
        if projection is None and rng.random() < 0.5:
            del kwargs["projection"]
        out = verde.median_distance(coords, **kwargs)
        if poisoned:
            _twin(run, "median_distance", out, verde.median_distance(tuple(coords[:2]), k_nearest=k, projection=projection))
        if _aliased(run, coords):
            _twin(run, "median_distance", out, verde.median_distance(_copies(coords), k_nearest=k, projection=projection),
                  monitor="aliasing_twin", label="table views instead of contiguous copies")
    run.sample("median", {"coordinates": list(coords[:2]), "k_nearest": k, "projection": repr(projection), "result": out})


def _maxdist_choice(rng, nearest):
    pick = rng.random()
    if pick < 0.06:
        return 0.0
    if pick < 0.12:
        return float(nearest.max() * 10 + 1)
    if pick < 0.27:
        return float(nearest[int(rng.integers(0, nearest.size))])  # exactly a realised distance: tie
    if pick < 0.42:
        # a realised distance moved by 5e-9..5e-8 of itself: outside the either-way margin, so decided, but only just
        base = float(nearest[int(rng.integers(0, nearest.size))])
        return base * (1.0 + float(rng.choice([-1.0, 1.0])) * 10 ** rng.uniform(-8.3, -7.3))
    q = float(np.quantile(nearest, rng.uniform(0.15, 0.85)))
    return q * rng.uniform(0.8, 1.2) if q > 0 else float(nearest.max() * 0.5)


def _mask_case(run, verde, rng):
    for _ in range(3):
        n = 1 if rng.random() < 0.1 else _n_points(rng, 1, 200)
        east, north = gen.cloud(rng, n)
        poisoned_query = poisoned_data = False
        axis_points = n > 1 and rng.random() < 0.04  # falsy but valid: all data points on the northing axis (easting == 0)
        if axis_points:
            spare, east = east.copy(), np.zeros(n)
        form = int(rng.integers(0, 3))
        if form == 0:  # scattered queries (often a single point, in its various spellings)
            qx, qy = _queries(rng, east, north, 1 if rng.random() < 0.25 else None)
            if rng.random() < 0.3:
                qdf, _ = _frame(run, rng, [("qx", qx), ("qy", qy)], keep_all=True)
                query = (qdf.qx, qdf.qy)
            else:
                qextra = [_extra_coordinate(rng, qx.size)] if rng.random() < 0.2 else []
                if rng.random() < 0.15 and qx.size > 1:
                    qextra = _poisoned_extras(rng, qx, qy)
                    poisoned_query = True
                query, qlayout = _present(rng, [qx, qy] + qextra,
                                          allow_0d=True, python_ok=False)  # python scalars have no .shape: verde refuses them as queries
        else:  # a non-square mesh (possibly irregular and descending)
            ne, nn = int(rng.integers(2, 40)), int(rng.integers(2, 30))
            if ne == nn:
                ne += 1
            w, e, s, nn_ = east.min(), east.max(), north.min(), north.max()
            wid, hei = (e - w) or abs(e) or 1.0, (nn_ - s) or abs(nn_) or 1.0
            ev = np.sort(rng.uniform(w - 0.2 * wid, e + 0.2 * wid, ne)) if form == 2 else np.linspace(w - 0.1 * wid, e + 0.1 * wid, ne)
            nv = np.sort(rng.uniform(s - 0.2 * hei, nn_ + 0.2 * hei, nn)) if form == 2 else np.linspace(s - 0.1 * hei, nn_ + 0.1 * hei, nn)
            if rng.random() < 0.3:
                nv = nv[::-1].copy()
            qx2, qy2 = np.broadcast_to(ev[None, :], (nn, ne)).copy(), np.broadcast_to(nv[:, None], (nn, ne)).copy()
            query = (qx2, qy2) if rng.random() < 0.8 else (np.asfortranarray(qx2), np.asfortranarray(qy2))
            qx, qy = qx2.ravel(), qy2.ravel()
        projection = _projection(rng, np.concatenate([east, qx]), np.concatenate([north, qy]))
        if projection is None:
            nearest = nearest_distance(qx, qy, east, north)
        else:
            pe, pn = projection(east, north)
            pqx, pqy = projection(qx, qy)
            nearest = nearest_distance(np.ravel(pqx), np.ravel(pqy), np.ravel(pe), np.ravel(pn))
        maxdist = _maxdist_choice(rng, nearest)
        if n == 1 and rng.random() < 0.5:
            data_coords, _ = spell_point(rng, [east[0], north[0]])
        else:
            if axis_points:
                data_coords = (east, north, spare)
            elif rng.random() < 0.3:
                ddf, _ = _frame(run, rng, [("easting", east), ("northing", north)], keep_all=True)
                data_coords = (ddf.easting, ddf.northing)
            else:
                dextra = [_extra_coordinate(rng, n)] if rng.random() < 0.2 else []
                if rng.random() < 0.15 and n > 1:
                    dextra = _poisoned_extras(rng, east, north)
                    poisoned_data = True
                data_coords, _ = _present(rng, [east, north] + dextra)
        out = verde.distance_mask(data_coords, spell_number(rng, maxdist), coordinates=query, projection=projection)
        if poisoned_query or poisoned_data:
            _twin(run, "distance_mask", out, verde.distance_mask(tuple(data_coords[:2]), maxdist, coordinates=tuple(query[:2]), projection=projection))
        alias_data, alias_query = _aliased(run, data_coords), _aliased(run, query)
        if alias_data or alias_query:
            _twin(run, "distance_mask", out, verde.distance_mask(_copies(data_coords), maxdist, coordinates=_copies(query), projection=projection),
                  monitor="aliasing_twin", label="table views instead of contiguous copies")
    run.sample("mask", {"data_coordinates": list(data_coords[:2]), "maxdist": maxdist, "projection": repr(projection),
                        "query_shape": list(np.shape(query[0])), "mask": out})


DIM_NAMES = [("northing", "easting"), ("y", "x"), ("latitude", "longitude"), ("lat", "lon"), ("row_coordinate", "column_coordinate"),
             ("a_north", "z_east"), ("z_north", "a_east")]


GRID_BUILDERS = ["constructor", "constructor_northing_coord_first", "coords_then_setitem", "coords_northing_first_then_setitem",
                 "dataarray_to_dataset", "coords_then_assign", "extra_non_index_coordinates_first", "setitem_with_scalar_coordinate"]


def _build_grid(rng, dn, de, nv, ev, variables, how=None):
    """
    The same grid (variables with dims (northing, easting)) built in different ways, so that the Dataset-level ordering of
    dims / sizes / coords differs from the variables' own dims. variables: OrderedDict name -> 2-D array (n_north, n_east).
    """
    import xarray as xr

    how = GRID_BUILDERS[int(rng.integers(0, len(GRID_BUILDERS)))] if how is None else how
    pairs = collections.OrderedDict((name, ((dn, de), np.asarray(vals))) for name, vals in variables.items())
    if how == "constructor":
        grid = xr.Dataset(pairs, coords={de: ev, dn: nv})
    elif how == "constructor_northing_coord_first":
        grid = xr.Dataset(pairs, coords={dn: nv, de: ev})
    elif how == "coords_then_setitem":
        grid = xr.Dataset(coords={de: ev, dn: nv})
        for name, pair in pairs.items():
            grid[name] = pair
    elif how == "coords_northing_first_then_setitem":
        grid = xr.Dataset(coords={dn: nv, de: ev})
        for name, pair in pairs.items():
            grid[name] = pair
    elif how == "dataarray_to_dataset":
        names = list(pairs)
        grid = xr.DataArray(pairs[names[0]][1], coords={de: ev, dn: nv}, dims=(dn, de), name=names[0]).to_dataset()
        for name in names[1:]:
            grid[name] = pairs[name]
    elif how == "coords_then_assign":
        grid = xr.Dataset(coords={de: ev, dn: nv}).assign(**pairs)
    elif how == "extra_non_index_coordinates_first":
        coords = collections.OrderedDict()
        coords["aux_along_" + de] = ((de,), np.asarray(ev, dtype="float64") * 2.0 + 1.0)
        if rng.random() < 0.5:
            coords["height"] = ((dn, de), np.full((len(nv), len(ev)), 3.5))
        coords[de] = ev
        coords[dn] = nv
        grid = xr.Dataset(pairs, coords=coords)
    elif how == "setitem_with_scalar_coordinate":
        grid = xr.Dataset(coords={"time": 3.0, de: ev, dn: nv})
        for name, pair in pairs.items():
            grid[name] = pair
    else:
        raise ValueError(how)
    grid.attrs["title"] = "c15"
    grid[list(variables)[0]].attrs["units"] = "mGal"
    return grid, how


def _chunked(run, rng, grid, dn, de):
    """The same grid with lazily evaluated (dask-backed) variables: everything chunked, chunked along one or both dims, or mixed."""
    import dask

    dask.config.set(scheduler="synchronous")  # small graphs: no thread pool (only speed, same results)
    mode = int(rng.integers(0, 5))
    sizes = grid.sizes

    def piece(dim):  # 2 to 5 chunks along the dimension
        return int(max(1, -(-sizes[dim] // int(rng.integers(2, 6)))))

    if mode == 0:
        out, name = grid.chunk(), "chunk()"
    elif mode == 1:
        out, name = grid.chunk({dn: piece(dn)}), "chunk_northing"
    elif mode == 2:
        out, name = grid.chunk({dn: piece(dn), de: piece(de)}), "chunk_both_dims"
    elif mode == 3:
        out, name = grid.chunk({de: piece(de)}), "chunk_easting"
    else:
        floats = [v for v in grid.data_vars if grid[v].dtype.kind == "f"]
        pick = floats[int(rng.integers(0, len(floats)))]
        out, name = grid.assign({pick: grid[pick].chunk({dn: piece(dn)})}), "one_variable_chunked_others_in_memory"
    run.count("grid_lazy:" + name)
    return out


def _masked_grid(run, verde, rng, data_coords, maxdist, dn, de, nv, ev, variables, projection):
    """distance_mask(grid=...) on one construction variant (a refusal of a valid Dataset escapes and is a violation)."""
    grid, how = _build_grid(rng, dn, de, nv, ev, variables)
    run.count("grid_built:" + how)
    if rng.random() < 0.25:
        grid = _chunked(run, rng, grid, dn, de)
    if rng.random() < 0.03:
        # A Dataset that also carries a 1-D data variable: verde refuses it on the unchanged tree (IndexError when it comes
        # first, ValueError from Dataset.where otherwise). Tolerated and counted; see the report.
        extra = grid.assign(profile_along_easting=((de,), np.asarray(ev, dtype="float64") * 0.5))
        try:
            verde.distance_mask(data_coords, maxdist, grid=extra, projection=projection)
            run.count("accepted:grid_with_extra_1d_data_variable")
        except (IndexError, ValueError):
            run.count("refused:grid_with_extra_1d_data_variable")
    if projection is None and rng.random() < 0.5:
        return verde.distance_mask(data_coords, spell_number(rng, maxdist), grid=grid), how  # documented default projection=None
    return verde.distance_mask(data_coords, spell_number(rng, maxdist), grid=grid, projection=projection), how


def _mask_grid_case(run, verde, rng):
    import xarray as xr

    for _ in range(3):
        n = 1 if rng.random() < 0.05 else _n_points(rng, 1, 150)
        east, north = gen.cloud(rng, n)
        ne, nn = int(rng.integers(2, 30)), int(rng.integers(2, 30))
        if rng.random() < 0.2:
            nn = ne  # some square grids: a transposed mask fits silently
        elif ne == nn:
            ne += 1
        w, e, s, n_ = east.min(), east.max(), north.min(), north.max()
        wid, hei = (e - w) or abs(e) or 1.0, (n_ - s) or abs(n_) or 1.0
        irregular = rng.random() < 0.4
        ev = np.sort(rng.uniform(w - 0.2 * wid, e + 0.2 * wid, ne)) if irregular else np.linspace(w - 0.1 * wid, e + 0.1 * wid, ne)
        nv = np.sort(rng.uniform(s - 0.2 * hei, n_ + 0.2 * hei, nn)) if irregular else np.linspace(s - 0.1 * hei, n_ + 0.1 * hei, nn)
        if rng.random() < 0.3:
            nv = nv[::-1].copy()
        if rng.random() < 0.2:
            ev = ev[::-1].copy()
        dn, de = DIM_NAMES[int(rng.integers(0, len(DIM_NAMES)))]
        cell_id = np.arange(nn * ne, dtype="float64").reshape(nn, ne)
        variables = collections.OrderedDict()
        variables["scalars"] = 1000.0 + cell_id  # every cell knows its own position
        variables["second"] = (7 * cell_id[::-1, ::-1] - 3).astype("int64") if rng.random() < 0.5 else rng.normal(size=(nn, ne))
        if rng.random() < 0.3:
            third = rng.normal(size=(nn, ne))
            third[rng.random((nn, ne)) < 0.1] = np.nan  # cells that were blank before
            variables["third"] = third
        qx = np.broadcast_to(ev[None, :], (nn, ne)).ravel()
        qy = np.broadcast_to(nv[:, None], (nn, ne)).ravel()
        projection = _projection(rng, np.concatenate([east, qx]), np.concatenate([north, qy]))
        if projection is None:
            nearest = nearest_distance(qx, qy, east, north)
        else:
            pe, pn = projection(east, north)
            pqx, pqy = projection(qx, qy)
            nearest = nearest_distance(np.ravel(pqx), np.ravel(pqy), np.ravel(pe), np.ravel(pn))
        maxdist = _maxdist_choice(rng, nearest)
        data_coords = spell_point(rng, [east[0], north[0]])[0] if n == 1 and rng.random() < 0.5 else (east, north)
        out, how = _masked_grid(run, verde, rng, data_coords, maxdist, dn, de, nv, ev, variables, projection)
    run.sample("mask_grid", {"data_coordinates": list(data_coords), "maxdist": maxdist, "projection": repr(projection),
                             "dims": [dn, de], "grid_shape": [nn, ne], "variables": list(variables), "built": how,
                             "masked_cells": int(np.isnan(out["scalars"].values).sum())})


def _mask_exact_case(run, verde, rng):
    """
    Integer-valued coordinates (|v| < 2**20, also after the integer-preserving projection) with Pythagorean and axis-aligned
    offsets and maxdist equal to such an exact distance (or 0 on a data point): d == maxdist is decided, it must be True.
    """
    import xarray as xr

    for _ in range(3):
        pick = int(rng.integers(0, 4))
        if pick == 0:
            projection = None
        elif pick == 1:
            projection = IntegerMap()
        else:
            projection = IntegerMap(int(rng.choice([1, 2, 3, -1, -2])), int(rng.choice([1, 2, 3, -1])),
                                    int(rng.integers(-1000, 1000)), int(rng.integers(-1000, 1000)))
        ox, oy = (int(v) for v in rng.integers(-2 ** 17, 2 ** 17, 2)) if rng.random() < 0.6 else (int(rng.integers(-20, 20)), int(rng.integers(-20, 20)))
        ne, nn = int(rng.integers(8, 34)), int(rng.integers(8, 30))
        if ne == nn and rng.random() < 0.8:
            ne += 1
        step = int(rng.choice([1, 1, 1, 2, 3]))
        ev = ox + np.arange(ne) * step
        nv = oy + np.arange(nn) * step
        if rng.random() < 0.3:
            nv = nv[::-1].copy()
        if rng.random() < 0.25:
            ev = ev[::-1].copy()
        n_data = int(rng.choice([1, 1, 2, 3, 4, 8]))
        de = ev[rng.integers(0, ne, n_data)] + (rng.integers(-2, 3, n_data) if rng.random() < 0.3 else 0)
        dn = nv[rng.integers(0, nn, n_data)] + (rng.integers(-2, 3, n_data) if rng.random() < 0.3 else 0)
        de[0], dn[0] = ev[int(rng.integers(0, ne))], nv[int(rng.integers(0, nn))]  # one data point on a grid node
        qx = np.broadcast_to(ev[None, :], (nn, ne)).ravel()
        qy = np.broadcast_to(nv[:, None], (nn, ne)).ravel()
        if projection is None:
            pq, pd = (qx, qy), (de, dn)
        else:
            pq, pd = projection(qx, qy), projection(de, dn)
        d2, diagonal = nearest_squared_integer(pq[0], pq[1], pd[0], pd[1])
        root = np.rint(np.sqrt(d2.astype("float64"))).astype("int64")
        perfect = root * root == d2
        choice = rng.random()
        pyth = np.unique(root[perfect & diagonal & (root > 0)])
        axis = np.unique(root[perfect & (root > 0)])
        if choice < 0.4 and pyth.size:
            maxdist = float(rng.choice(pyth))
        elif choice < 0.7 and axis.size:
            maxdist = float(rng.choice(axis))
        elif choice < 0.85:
            maxdist = 0.0
        else:
            maxdist = float(np.sqrt(float(rng.choice(d2[d2 > 0])))) if (d2 > 0).any() else 1.5
        if maxdist == np.rint(maxdist) and rng.random() < 0.3:
            maxdist = int(maxdist)
        as_int = rng.random() < 0.4
        data_coords = (de.astype("int64"), dn.astype("int64")) if as_int else (de.astype("float64"), dn.astype("float64"))
        if n_data == 1 and rng.random() < 0.5:
            data_coords, _ = spell_point(rng, [de[0], dn[0]])
        form = int(rng.integers(0, 3))
        if form == 0:  # 2-D mesh, array form
            dtype = "int64" if rng.random() < 0.4 else "float64"
            query = (qx.reshape(nn, ne).astype(dtype), qy.reshape(nn, ne).astype(dtype))
            out = verde.distance_mask(data_coords, spell_number(rng, maxdist), coordinates=query, projection=projection)
            kept = int(np.sum(out))
        elif form == 1:  # scattered subset of the nodes, array form
            take = rng.permutation(qx.size)[: int(rng.integers(1, qx.size + 1))]
            query = (qx[take].astype("float64"), qy[take].astype("float64"))
            out = verde.distance_mask(data_coords, spell_number(rng, maxdist), coordinates=query, projection=projection)
            kept = int(np.sum(out))
        else:  # grid form
            dn_name, de_name = DIM_NAMES[int(rng.integers(0, len(DIM_NAMES)))]
            cell_id = np.arange(nn * ne, dtype="float64").reshape(nn, ne)
            variables = collections.OrderedDict()
            variables["scalars"] = 1000.0 + cell_id
            variables["second"] = (7 * cell_id[::-1, ::-1] - 3).astype("int64")
            coord_dtype = "int64" if rng.random() < 0.4 else "float64"
            out, _ = _masked_grid(run, verde, rng, data_coords, maxdist, dn_name, de_name, nv.astype(coord_dtype), ev.astype(coord_dtype),
                                  variables, projection)
            kept = int(np.isfinite(out["scalars"].values).sum())
    run.sample("mask_exact", {"data_coordinates": [de, dn], "maxdist": maxdist, "projection": repr(projection), "eastings": ev, "northings": nv,
                              "form": ["mesh", "scattered", "grid"][form], "cells_kept": kept,
                              "cells_at_exactly_maxdist": int((perfect & (root == maxdist)).sum())})


def _knn_copies_case(run, verde, rng):
    """
    Serialisation histories: a fitted KNeighbors goes through pickle, copy.deepcopy and copy.copy (also a copy of a copy);
    every restored object must predict like the original (brute force on the original's fitted points), and the original
    must be unaffected by having been copied.
    """
    import copy
    import pickle

    n = max(_n_points(rng), 2)
    east, north = gen.cloud(rng, n)
    data = _unique_data(rng, n)
    k = 1 if rng.random() < 0.35 else max(2, _k_choice(rng, n)) if n > 1 else 1
    k = min(k, n)
    reduction = REDUCTIONS[int(rng.integers(0, len(REDUCTIONS)))]
    (east_in, north_in, data_in), _ = _present(rng, [east, north, data])
    est = verde.KNeighbors(k=k, reduction=reduction).fit((east_in, north_in), data_in)
    query, _ = _present(rng, list(_queries(rng, east, north)), allow_0d=True)
    first = est.predict(query)
    data_before, params_before = np.array(est.data_, copy=True), dict(est.get_params())
    makers = [("pickle", lambda g: pickle.loads(pickle.dumps(g, protocol=int(rng.integers(2, pickle.HIGHEST_PROTOCOL + 1))))),
              ("deepcopy", copy.deepcopy), ("copy", copy.copy)]
    order = [makers[int(j)] for j in rng.permutation(3)]
    clones = []
    for name, make in order:
        clone = make(est)
        COPY_OF[clone] = (est, name, dict(est.get_params()))
        clones.append(clone)
        clone.predict(query)
        if rng.random() < 0.3:  # second generation: a copy of the restored object
            name2, make2 = makers[int(rng.integers(0, 3))]
            grandchild = make2(clone)
            COPY_OF[grandchild] = (clone, name + "_then_" + name2, dict(clone.get_params()))
            grandchild.predict(_present(rng, list(_queries(rng, east, north)))[0])
            clones.append(grandchild)
        again = est.predict(query)  # the original after having been copied: judged by the monitor like any prediction
        run.evaluated("KNeighbors.original_unaffected_by_copy")
        if not (np.array_equal(np.asarray(again), np.asarray(first)) and np.array_equal(est.data_, data_before)
                and est.get_params() == params_before and int(est.tree_.n) == n):
            run.violation("KNeighbors.original_unaffected_by_copy", "the original estimator changed after %s" % name,
                          {"made_by": name, "prediction_before": first, "prediction_after": again, "data_before": data_before,
                           "data_after": np.asarray(est.data_)}, key="copy:original_changed")
    if rng.random() < 0.35:
        # the copy gets a life of its own (refit on other data, other k): the original must not follow
        clone = clones[int(rng.integers(0, len(clones)))]
        east2, north2 = gen.cloud(rng, max(n, 3))
        clone.set_params(k=_k_choice(rng, east2.size))
        clone.fit((east2, north2), _unique_data(rng, east2.size))
        clone.predict(_queries(rng, east2, north2, 15))
        est.predict(query)
        run.count("copies:copy_refitted_then_original_used")
    run.sample("knn_copies", {"n_points": n, "k": k, "reduction": reduction.__name__, "made_by": [name for name, _ in order],
                              "prediction": first})


def _knn_ownership_case(run, verde, rng):
    """
    Result / state ownership history: fit on C-contiguous float64 arrays the caller owns (1-D or 2-D data, coordinates also as
    views of one table), then the CALLER changes those same arrays in place (detrend, reuse the buffer for another survey,
    shift the coordinates, scribble on a returned prediction) and predicts with the earlier fitted gridder: predictions must
    still be the reduction of the values it was fitted with (the monitor judges against its copy taken at fit time).
    """
    n = max(_n_points(rng), 2)
    east, north = gen.cloud(rng, n)
    in_place_columns = rng.random() < 0.25  # easting really is column 0 of a (n, 2) table: a zero-copy tree would live in it
    shape = _shape_2d(rng, n) if rng.random() < 0.4 and not in_place_columns else None
    if shape is not None:
        east, north = east.reshape(shape), north.reshape(shape)
    data = np.array(_unique_data(rng, n).reshape(east.shape), dtype="float64", order="C", copy=True)
    table = None
    if in_place_columns or rng.random() < 0.3:
        east_c, north_c, kind, table = table_views(rng, east, north, kind=str(rng.choice(["columns_0_1", "fortran_ordered_table"])) if in_place_columns else None)
        run.count("ownership:coordinates_are_views_of_one_table")
        run.count("ownership:table_" + kind)
    else:
        east_c, north_c = np.array(east, dtype="float64", order="C"), np.array(north, dtype="float64", order="C")
    assert data.flags.c_contiguous and data.flags.owndata
    if shape is not None:
        run.count("ownership:2d_data")
    k = 1 if rng.random() < 0.35 else _k_choice(rng, n)
    reduction = REDUCTIONS[int(rng.integers(0, len(REDUCTIONS)))]
    est = verde.KNeighbors(k=spell_int(rng, k), reduction=reduction).fit((east_c, north_c), data)
    qx, qy = _queries(rng, np.ravel(east), np.ravel(north), 1 if rng.random() < 0.25 else int(rng.integers(5, 60)))
    last = est.predict((qx.copy(), qy.copy()))
    first = np.array(last, copy=True)
    extent = float(max(np.ptp(east), np.ptp(north))) or 1.0
    # every history changes the data, the coordinates and a returned prediction at least once (in random order)
    ops = [str(rng.choice(["detrend_data", "reuse_data_buffer", "negate_data"])), str(rng.choice(["shift_coordinates", "overwrite_coordinates"])),
           "scribble_on_prediction"] + [str(v) for v in rng.choice(["detrend_data", "reuse_data_buffer", "negate_data", "shift_coordinates",
                                                                    "overwrite_coordinates", "zero_everything"], int(rng.integers(0, 2)))]
    for op in [ops[int(j)] for j in rng.permutation(len(ops))]:
        if op == "detrend_data":
            data -= data.mean()
            data -= 1.0
        elif op == "reuse_data_buffer":
            data[...] = rng.normal(size=data.shape) * 1e3
        elif op == "negate_data":
            data *= -1.0
            data += 7.0
        elif op == "shift_coordinates":
            east_c += 10.0 * extent
            north_c *= -1.0
        elif op == "overwrite_coordinates":
            if table is not None:
                table[...] = rng.uniform(-1, 1, table.shape) * extent
            else:
                east_c[...] = rng.uniform(-1, 1, east_c.shape) * extent
                north_c[...] = rng.uniform(-1, 1, north_c.shape) * extent
        elif op == "scribble_on_prediction" and last is not None:
            last *= 0.0
            last -= 12345.0
        else:
            op = "zero_everything"
            data[...] = 0.0
            east_c[...] = 0.0
            north_c[...] = 0.0
        run.count("ownership:caller_" + op)
        last = est.predict((qx.copy(), qy.copy()))  # judged by the monitor against the values seen at fit time
        run.evaluated("KNeighbors.state_owned_by_estimator")
        if not np.array_equal(np.asarray(last), first):
            bad = int(np.flatnonzero(np.ravel(np.asarray(last)) != np.ravel(first))[0])
            run.violation("KNeighbors.state_owned_by_estimator",
                          "after the caller %s in place, the fitted gridder predicts %r instead of %r at query %d"
                          % (op, float(np.ravel(last)[bad]), float(np.ravel(first)[bad]), bad),
                          {"operation": op, "k": k, "reduction": reduction.__name__, "prediction_before": first, "prediction_after": np.asarray(last)},
                          key="ownership:" + op)
            first = np.array(last, copy=True)  # report each cause once
    run.sample("knn_ownership", {"n_points": n, "data_shape": list(data.shape), "k": k, "reduction": reduction.__name__, "prediction": first})


def _nd_arrays_case(run, verde, rng):
    """
    Coordinate arrays with three or four dimensions (nodes of meshgrid(easting, northing, upward), random 3-D / 4-D arrays;
    C order, Fortran order, transposed views): results have the arrays' shape and equal the result for the raveled arrays.
    """
    n = max(_n_points(rng, 2, 120), 3)
    east, north = gen.cloud(rng, n)
    data = _unique_data(rng, n)
    w, e, s, nn = east.min(), east.max(), north.min(), north.max()
    wid, hei = (e - w) or 1.0, (nn - s) or 1.0
    if rng.random() < 0.4:
        ev = np.linspace(w - 0.1 * wid, e + 0.1 * wid, int(rng.integers(2, 7)))
        nv = np.linspace(s - 0.1 * hei, nn + 0.1 * hei, int(rng.integers(2, 6)))
        up = np.linspace(0, 100, int(rng.integers(2, 5)))
        mesh = np.meshgrid(ev, nv, up) if rng.random() < 0.5 else np.meshgrid(ev, nv, up, np.arange(int(rng.integers(2, 4))), indexing="ij")
        qe, qn, extra = mesh[0], mesh[1], mesh[2]
        run.count("nd:meshgrid_nodes_%dd" % qe.ndim)
    else:
        shape = tuple(int(v) for v in rng.integers(2, 6, int(rng.integers(3, 5))))
        qe = rng.uniform(w - 0.2 * wid, e + 0.2 * wid, shape)
        qn = rng.uniform(s - 0.2 * hei, nn + 0.2 * hei, shape)
        extra = rng.normal(size=shape)
        run.count("nd:random_%dd" % qe.ndim)
    layout = int(rng.integers(0, 3))
    if layout == 1:
        qe, qn, extra = (np.asfortranarray(a) for a in (qe, qn, extra))
    elif layout == 2:  # transposed (non-contiguous) views of C-ordered arrays
        axes = tuple(int(v) for v in rng.permutation(qe.ndim))
        qe, qn, extra = (np.ascontiguousarray(a.transpose(np.argsort(axes))).transpose(axes) for a in (qe, qn, extra))
    run.count("nd:layout_" + ["c_order", "fortran_order", "transposed_view"][layout])
    query = (qe, qn, extra) if rng.random() < 0.3 else (qe, qn)
    flat = tuple(np.ravel(a) for a in query)
    label = "%d-D arrays instead of their raveled form" % qe.ndim
    # distance_mask, queries n-D, without and with projection
    nearest = nearest_distance(np.ravel(qe), np.ravel(qn), east, north)
    maxdist = _maxdist_choice(rng, nearest)
    out = verde.distance_mask((east, north), maxdist, coordinates=query)
    _twin(run, "distance_mask", np.ravel(out), verde.distance_mask((east, north), maxdist, coordinates=flat), monitor="nd_twin", label=label)
    projection = _projection(rng, np.concatenate([east, np.ravel(qe)]), np.concatenate([north, np.ravel(qn)])) or Aniso(2.0, 0.5)
    pq, pd = projection(np.ravel(qe), np.ravel(qn)), projection(east, north)
    maxdist_p = _maxdist_choice(rng, nearest_distance(np.ravel(pq[0]), np.ravel(pq[1]), np.ravel(pd[0]), np.ravel(pd[1])))
    outp = verde.distance_mask((east, north), maxdist_p, coordinates=query, projection=projection)
    _twin(run, "distance_mask", np.ravel(outp), verde.distance_mask((east, north), maxdist_p, coordinates=flat, projection=projection),
          monitor="nd_twin", label=label)
    # KNeighbors: n-D queries; fit on n-D coordinates and data
    k = _k_choice(rng, n)
    reduction = REDUCTIONS[int(rng.integers(0, len(REDUCTIONS)))]
    est = verde.KNeighbors(k=k, reduction=reduction).fit((east, north), data)
    pred = est.predict(query)
    _twin(run, "KNeighbors.predict", np.ravel(pred), est.predict(flat), monitor="nd_twin", label=label)
    nd_data = _unique_data(rng, qe.size).reshape(qe.shape)
    if layout == 1:
        nd_data = np.asfortranarray(nd_data)
    k2 = _k_choice(rng, qe.size)
    est2 = verde.KNeighbors(k=k2, reduction=reduction).fit(query, nd_data)
    est2.predict((east, north))
    # median_distance on the n-D arrays; distance_mask with n-D data coordinates
    km = int(min(max(int(rng.choice([1, 2, 3, qe.size - 1])), 1), qe.size - 1))
    med = verde.median_distance(query, k_nearest=km)
    _twin(run, "median_distance", np.ravel(med), verde.median_distance(flat, k_nearest=km), monitor="nd_twin", label=label)
    verde.distance_mask(query, maxdist, coordinates=(east, north))
    run.sample("nd_arrays", {"query_shape": list(qe.shape), "layout": layout, "maxdist": maxdist, "projection": repr(projection), "k": k,
                             "mask_kept": int(np.sum(out)), "prediction_shape": list(np.shape(pred))})


def _large_case(run, verde, rng, index):
    """Large counts judged by brute force instead of by the absence of an exception."""
    if index % 2 == 0:
        # median_distance with n_points * (k_nearest + 1) >= 2e6 (the last points are among the judged subsample)
        k = int(rng.choice([24, 24, 19, 30]))
        n = 120_011 if index == 0 else int(2_000_000 // (k + 1) + rng.integers(1, 40_000))
        east, north = rng.uniform(0, 1000, n) + 5000.0, rng.uniform(0, 700, n) - 200.0
        out = verde.median_distance((east, north), k_nearest=k)
        run.sample("large_median", {"n_points": n, "k_nearest": k, "last_values": out[-3:]})
    else:
        # KNeighbors.predict on more than 131072 points
        n = int(rng.integers(60, 160))
        east, north = gen.cloud(rng, n, scale=1000.0, offset_factor=1.0)
        data = _unique_data(rng, n)
        k = 1 if index == 1 or rng.random() < 0.6 else int(rng.integers(2, 5))
        reduction = REDUCTIONS[int(rng.integers(0, 5))]
        est = verde.KNeighbors(k=k, reduction=reduction).fit((east, north), data)
        m = 131072 + int(rng.integers(1, 6000))
        qx = rng.uniform(east.min(), east.max(), m)
        qy = rng.uniform(north.min(), north.max(), m)
        if rng.random() < 0.4 and m % 4 == 0:
            qx, qy = qx.reshape(4, -1), qy.reshape(4, -1)
        out = est.predict((qx, qy))
        run.sample("large_predict", {"n_data": n, "k": k, "reduction": reduction.__name__, "n_queries": m, "last_values": np.ravel(out)[-3:]})


def run_case(run, tap, stream, index, rng):
    import verde

    if stream == "knn":
        for _ in range(5):
            _knn_case(run, verde, rng)
    elif stream == "knn_nested":
        _knn_nested(run, verde, rng)
    elif stream == "median":
        _median_case(run, verde, rng)
    elif stream == "mask":
        _mask_case(run, verde, rng)
    elif stream == "mask_grid":
        _mask_grid_case(run, verde, rng)
    elif stream == "mask_exact":
        _mask_exact_case(run, verde, rng)
    elif stream == "knn_copies":
        _knn_copies_case(run, verde, rng)
    elif stream == "knn_ownership":
        _knn_ownership_case(run, verde, rng)
    elif stream == "nd_arrays":
        _nd_arrays_case(run, verde, rng)
    elif stream == "large":
        _large_case(run, verde, rng, index)
    else:
        raise ValueError(stream)


LEVEL_TEXT = (
    "Every normal return of KNeighbors.predict (direct or nested in grid/scatter/profile/Chain/project_grid), median_distance and "
    "distance_mask produced by the seeded workload is compared with O(n*m) numpy distance matrices: the reduction over exactly the k "
    "nearest fitted points (the arguments seen at fit), the median distance to the k nearest other points, and nearest distance <= "
    "maxdist after projecting both point sets, in array and xarray grid form. Ties (k-th/(k+1)-th neighbour, distance == maxdist) are "
    "counted as either-way and never decide. Held means 'no refutation among the monitored executions', not a proof."
)
LEVEL_NOTE = (
    "Trusted: numpy hypot/sort/argsort, the purity of the workload's projection callables. pykdtree is not installed, so only the "
    "scipy cKDTree backend is exercised."
)
TECHNIQUE = "runtime postcondition monitors (class-level method taps + function taps) with brute-force distance-matrix references; seeded random + lattice-tie workloads"
